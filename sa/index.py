"""RepoIndex: parse every source module of /repo once, never import or run it.

Source roots: packages/*/src and src.  Modules are addressed by dotted name,
functions / classes by ``module:Qual.name``.  A binding that does not resolve
raises AnchorError, which the CLI turns into exit 2 (ANALYSIS-ERROR), never a pass.
"""

from __future__ import annotations

import ast
import hashlib
import os
from dataclasses import dataclass, field
from pathlib import Path
from typing import Iterator


class AnchorError(Exception):
    """An anchor (file, class, function, idiom) the rule needs could not be bound."""


def repo_root() -> Path:
    return Path(os.environ.get("VERIF_REPO", "/repo"))


FuncNode = (ast.FunctionDef, ast.AsyncFunctionDef)


@dataclass
class Module:
    name: str
    path: Path
    rel: str
    src: str
    tree: ast.Module
    imports: dict[str, str] = field(default_factory=dict)  # local name -> dotted target
    functions: dict[str, ast.AST] = field(default_factory=dict)  # qualname -> def
    classes: dict[str, ast.ClassDef] = field(default_factory=dict)

    def segment(self, node: ast.AST) -> str:
        return ast.get_source_segment(self.src, node) or ast.unparse(node)


def _set_parents(tree: ast.AST) -> None:
    tree._parent = None  # type: ignore[attr-defined]
    for node in ast.walk(tree):
        for child in ast.iter_child_nodes(node):
            child._parent = node  # type: ignore[attr-defined]


def parent(node: ast.AST) -> ast.AST | None:
    return getattr(node, "_parent", None)


def ancestors(node: ast.AST) -> Iterator[ast.AST]:
    p = parent(node)
    while p is not None:
        yield p
        p = parent(p)


def enclosing_function(node: ast.AST) -> ast.AST | None:
    for a in ancestors(node):
        if isinstance(a, FuncNode):
            return a
    return None


def module_of(node: ast.AST) -> "Module | None":
    cur: ast.AST | None = node
    while cur is not None:
        if isinstance(cur, ast.Module):
            return getattr(cur, "_mod", None)
        cur = parent(cur)
    return None


def enclosing_class(node: ast.AST) -> ast.ClassDef | None:
    for a in ancestors(node):
        if isinstance(a, ast.ClassDef):
            return a
    return None


def qualname_of(node: ast.AST) -> str:
    parts = [getattr(node, "name", "<lambda>")]
    for a in ancestors(node):
        if isinstance(a, FuncNode + (ast.ClassDef,)):
            parts.append(a.name)
    return ".".join(reversed(parts))


def walk_shallow(node: ast.AST, *, into_nested: bool = False) -> Iterator[ast.AST]:
    """Walk a function body without descending into nested defs / lambdas / classes."""
    stack = list(ast.iter_child_nodes(node))
    while stack:
        n = stack.pop()
        yield n
        if not into_nested and isinstance(n, FuncNode + (ast.ClassDef, ast.Lambda)):
            continue
        stack.extend(ast.iter_child_nodes(n))


_BASELINE: dict | None = None


def _baseline_helpers() -> dict:
    """Private function names per module on the tree the rules were confirmed on (sa/baseline_helpers.json, names only)."""
    global _BASELINE
    if _BASELINE is None:
        import json
        p = Path(__file__).with_name("baseline_helpers.json")
        _BASELINE = {k: set(v) for k, v in json.loads(p.read_text(encoding="utf-8"))["modules"].items()} if p.is_file() else {}
    return _BASELINE


class Repo:
    def __init__(self, root: Path | None = None):
        self.root = Path(root) if root else repo_root()
        if not self.root.is_dir():
            raise AnchorError(f"repository root {self.root} not found")
        self.modules: dict[str, Module] = {}
        self.by_rel: dict[str, Module] = {}
        self.parse_errors: list[str] = []
        self._load()
        self.consulted: set[str] = set()

    # ------------------------------------------------------------------ overlays (checker self-test)
    def with_overlay(self, overlay: dict[str, str]) -> "Repo":
        """A view of this repo in which the given files (relative paths) have other contents.
        Nothing is written to disk; unchanged modules are shared."""
        r = object.__new__(Repo)
        r.root = self.root
        r.modules = dict(self.modules)
        r.by_rel = dict(self.by_rel)
        r.parse_errors = list(self.parse_errors)
        r.consulted = set()
        r._texts = dict(getattr(self, "_texts", {}))
        for rel, src in overlay.items():
            if not rel.endswith(".py"):
                r._texts[rel] = src
                continue
            old = self.by_rel[rel]
            tree = ast.parse(src, filename=rel)
            _set_parents(tree)
            m = Module(old.name, old.path, rel, src, tree)
            r._collect(m)
            r.by_rel[rel] = m
            if r.modules.get(old.name) is old:
                r.modules[old.name] = m
        words = getattr(self, "_auto_words", None)
        if words is not None:
            r._auto_words = words
            r._inlined = dict(getattr(self, "_inlined", {}))
            for rel in overlay:
                if rel.endswith(".py"):
                    r._inlined.pop(rel, None)
                    r._auto_inline_one(r.by_rel[rel])
        return r

    # ------------------------------------------------------------------ helper-inlined view of every module
    def auto_inline(self, words: set[str]) -> int:
        """Replace every module by its helper-inlined view (sa/inline.py). A private function whose name is in `words`
        (the identifiers the property module mentions: its anchors) is kept; every other private helper is folded into
        its callers. Returns the number of inlined calls."""
        self._auto_words = set(words)
        total = 0
        # only a module that has a private function outside the confirmed baseline (and outside the checker's own vocabulary) is
        # rewritten, so this costs nothing on the tree the rules were confirmed on
        for m in list(self.by_rel.values()):
            if m.rel not in getattr(self, "_inlined", {}):
                total += self._auto_inline_one(m)
        return total

    def _auto_inline_one(self, m: "Module") -> int:
        words = self._auto_words
        privates = [q for q in m.functions if q.split(".")[-1].startswith("_") and not q.split(".")[-1].startswith("__")]
        if not privates:
            return 0
        base = _baseline_helpers().get(m.rel, ())
        protected = {q.split(".")[-1] for q in privates if q.split(".")[-1] in words or q.split(".")[-1] in base}
        if len(protected) == len({q.split(".")[-1] for q in privates}):
            return 0
        return self.use_inlined(m.name, protected, rel=m.rel)

    def use_inlined(self, name: str, protected, rel: str | None = None) -> int:
        """Replace module `name` (for this Repo object only) by a view in which calls to unprotected private helpers
        are inlined into their callers (see sa/inline.py). Returns the number of inlined calls."""
        from .inline import inline_module

        done = getattr(self, "_inlined", None)
        if done is None:
            done = self._inlined = {}
        m = self.by_rel[rel] if rel is not None else self.module(name)
        if m.rel in done:
            return done[m.rel]
        new, n = inline_module(m, protected)
        if n == 0:
            done[m.rel] = 0
            return 0
        self._collect(new)
        self.by_rel[m.rel] = new
        if self.modules.get(m.name) is m:
            self.modules[m.name] = new
        done[m.rel] = n
        return n

    def read_text(self, rel: str) -> str:
        t = getattr(self, "_texts", {}).get(rel)
        if t is not None:
            self.consulted_files.add(rel)
            return t
        p = self.root / rel
        if not p.is_file():
            raise AnchorError(f"file `{rel}` not found under {self.root}")
        self.consulted_files.add(rel)
        return p.read_text(encoding="utf-8")

    @property
    def consulted_files(self) -> set:
        if not hasattr(self, "_cfiles"):
            self._cfiles = set()
        return self._cfiles

    def glob(self, pattern: str) -> list[str]:
        rels = {str(p.relative_to(self.root)) for p in self.root.glob(pattern)}
        import fnmatch
        rels |= {r for r in getattr(self, "_texts", {}) if fnmatch.fnmatch(r, pattern)}
        return sorted(rels)

    # ------------------------------------------------------------------ loading
    def source_roots(self) -> list[Path]:
        roots = sorted((self.root / "packages").glob("*/src"))
        if (self.root / "src").is_dir():
            roots.append(self.root / "src")
        return roots

    def _load(self) -> None:
        for sroot in self.source_roots():
            for path in sorted(sroot.rglob("*.py")):
                relmod = path.relative_to(sroot).with_suffix("")
                parts = list(relmod.parts)
                if parts[-1] == "__init__":
                    parts = parts[:-1]
                name = ".".join(parts)
                try:
                    src = path.read_text(encoding="utf-8")
                    tree = ast.parse(src, filename=str(path))
                except (SyntaxError, UnicodeDecodeError) as e:  # the build would fail too
                    self.parse_errors.append(f"{path}: {e}")
                    continue
                _set_parents(tree)
                m = Module(name, path, str(path.relative_to(self.root)), src, tree)
                self._collect(m)
                # namespace packages: several dists contribute llama_agents.*; keep first for
                # a duplicated dotted name but index all by relative path
                self.modules.setdefault(name, m)
                self.by_rel[m.rel] = m

    def _collect(self, m: Module) -> None:
        m.tree._mod = m  # type: ignore[attr-defined]  (lets helpers find the module of any node through its ancestors)
        is_pkg = m.path.name == "__init__.py"
        pkg_parts = m.name.split(".") if is_pkg else m.name.split(".")[:-1]
        for node in ast.walk(m.tree):
            if isinstance(node, ast.Import):
                for a in node.names:
                    m.imports[a.asname or a.name.split(".")[0]] = (
                        a.name if a.asname else a.name.split(".")[0]
                    )
            elif isinstance(node, ast.ImportFrom):
                if node.level:
                    base = pkg_parts[: len(pkg_parts) - (node.level - 1)]
                    modname = ".".join(base + ([node.module] if node.module else []))
                else:
                    modname = node.module or ""
                for a in node.names:
                    m.imports[a.asname or a.name] = f"{modname}.{a.name}"
            elif isinstance(node, FuncNode):
                m.functions[qualname_of(node)] = node
            elif isinstance(node, ast.ClassDef):
                m.classes[qualname_of(node)] = node

    # ------------------------------------------------------------------ lookup
    def module(self, name: str) -> Module:
        m = self.modules.get(name) or self.by_rel.get(name)
        if m is None:
            raise AnchorError(f"module `{name}` not found under {self.root}")
        if getattr(self, "_auto_words", None) is not None and m.rel not in getattr(self, "_inlined", {}):
            if self._auto_inline_one(m):
                m = self.by_rel[m.rel]
        self.consulted.add(m.rel)
        return m

    def func(self, ref: str) -> tuple[Module, ast.AST]:
        modname, _, qual = ref.partition(":")
        m = self.module(modname)
        f = m.functions.get(qual)
        if f is None:
            raise AnchorError(f"function `{qual}` not found in {m.rel}")
        return m, f

    def cls(self, ref: str) -> tuple[Module, ast.ClassDef]:
        modname, _, qual = ref.partition(":")
        m = self.module(modname)
        c = m.classes.get(qual)
        if c is None:
            raise AnchorError(f"class `{qual}` not found in {m.rel}")
        return m, c

    def has_func(self, ref: str) -> bool:
        try:
            self.func(ref)
            return True
        except AnchorError:
            return False

    def methods(self, ref: str) -> dict[str, ast.AST]:
        _, c = self.cls(ref)
        return {n.name: n for n in c.body if isinstance(n, FuncNode)}

    # ------------------------------------------------------------------ names and classes
    def resolve_dotted(self, m: Module, name: str) -> str:
        """Resolve a (possibly dotted) local name to ``module:Qual`` when it names a repo
        class/function, else to the dotted import target or the name itself."""
        head, _, rest = name.partition(".")
        if head in m.classes or head in m.functions:
            return f"{m.name}:{name}"
        target = m.imports.get(head)
        if target is None:
            return name
        full = target + ("." + rest if rest else "")
        # split into module part and attribute part, following re-exports a few levels
        for _ in range(6):
            parts = full.split(".")
            for i in range(len(parts), 0, -1):
                modname = ".".join(parts[:i])
                mod = self.modules.get(modname)
                if mod is None:
                    continue
                attr = ".".join(parts[i:])
                if not attr:
                    return modname
                if attr in mod.classes or attr in mod.functions:
                    return f"{modname}:{attr}"
                a0 = attr.split(".")[0]
                if a0 in mod.imports:
                    full = mod.imports[a0] + attr[len(a0):]
                    break
                return f"{modname}:{attr}"
            else:
                return full
        return full

    def class_bases(self, ref: str) -> list[str]:
        # hierarchy walks read class headers only: no need for (and no cost of) the helper-inlined view
        modname, _, qual = ref.partition(":")
        m = self.modules.get(modname) or self.by_rel.get(modname)
        c = m.classes.get(qual) if m is not None else None
        if c is None:
            m, c = self.cls(ref)
        out = []
        for b in c.bases:
            if isinstance(b, ast.Subscript):
                b = b.value
            try:
                out.append(self.resolve_dotted(m, ast.unparse(b)))
            except Exception:
                pass
        return out

    def mro_names(self, ref: str, _seen: set[str] | None = None) -> list[str]:
        """All ancestors (resolved refs or plain names for non-repo classes), nearest first."""
        seen = _seen if _seen is not None else set()
        out: list[str] = []
        for b in self.class_bases(ref):
            if b in seen:
                continue
            seen.add(b)
            out.append(b)
            if ":" in b and self._has_cls(b):
                out.extend(self.mro_names(b, seen))
        return out

    def _has_cls(self, ref: str) -> bool:
        modname, _, qual = ref.partition(":")
        m = self.modules.get(modname)
        return bool(m and qual in m.classes)

    def all_classes(self) -> Iterator[tuple[str, Module, ast.ClassDef]]:
        seen = set()
        for m in self.by_rel.values():
            for q, c in m.classes.items():
                ref = f"{m.name}:{q}"
                if (ref, m.rel) in seen:
                    continue
                seen.add((ref, m.rel))
                yield ref, m, c

    def subclasses(self, ref: str, *, strict: bool = True) -> list[str]:
        out = [] if strict else [ref]
        for r, _m, _c in self.all_classes():
            if r != ref and ref in self.mro_names(r):
                out.append(r)
        return sorted(set(out))

    def find_method(self, ref: str, name: str) -> tuple[str, Module, ast.AST] | None:
        """Method lookup through the (name-resolved) MRO."""
        for r in [ref] + self.mro_names(ref):
            if ":" in r and self._has_cls(r):
                m, c = self.cls(r)
                for n in c.body:
                    if isinstance(n, FuncNode) and n.name == name:
                        return r, m, n
        return None

    # ------------------------------------------------------------------ digests
    def tree_digest(self) -> str:
        h = hashlib.sha1()
        for rel in sorted(self.consulted):
            h.update(rel.encode())
            h.update(self.by_rel[rel].src.encode())
        for rel in sorted(self.consulted_files):
            h.update(rel.encode())
            try:
                h.update(self.read_text(rel).encode())
            except AnchorError:
                pass
        return h.hexdigest()[:16]


def loc(m: Module, node: ast.AST) -> str:
    return f"{m.rel}:{getattr(node, 'lineno', 0)}"


def norm_text(node: ast.AST | str) -> str:
    s = node if isinstance(node, str) else ast.unparse(node)
    return " ".join(s.split())


def construct_key(m: Module, fn: ast.AST | None, node: ast.AST | str, rule: str = "") -> str:
    """Stable key for a construct: module:qualname#hash(normalised statement). No line numbers."""
    q = qualname_of(fn) if fn is not None else "<module>"
    h = hashlib.sha1(norm_text(node).encode()).hexdigest()[:8]
    return f"{m.name}:{q}#{h}"
