"""C12 — pausing to a serialized context and resuming gives the same result.

Decided: (R1) field inventory — for each runtime record and its serialized form, every field the
reducers read is written by BrokerState.to_serialized and read back by from_serialized, or is a
listed re-derivable field (one line of reason each): EventAttempt <-> SerializedEventAttempt,
InProgressState <-> the serialized in-progress entry, StepWorkerWaiter <-> SerializedWaiter,
is_running, collected events.  "Reducers read" is computed from the attribute loads in the
engine, not listed.  (R2) one-trip normal form: from_serialized never populates in_progress and
moves serialized in-progress entries to the queue, so a second round trip is the identity on
structure.  (R3) version/key agreement between the writer (version field, model_dump) and
from_dict_auto.
Also (R2) rehydrate_with_ticks builds one replay tick per restored waiter that lost its requirements (per element of the iteration
over collected_waiters, the element's own event, no further selection).
Not decided: equality of final results and store contents.
"""

from __future__ import annotations

import ast
import re

from ..astx import dep_slice, attr_writes, call_name, expand, kwarg, last
from ..cfg import CFG
from ..index import AnchorError, enclosing_function
from ..selftest import Twin
from ._engine import CL, STATE, wf_modules

EXPLANATION = __doc__.split("\n\n", 1)[1]
TECHNIQUE = 'static analysis: field inventory writer/reader agreement between runtime records and serialized forms (computed from attribute loads)'
TRUSTED = ["CPython ast", "pydantic model_dump / model_validate round trip of declared fields"]
CT = "workflows.context.context_types"
IS_REL = "packages/llama-index-workflows/src/workflows/runtime/types/internal_state.py"
CT_REL = "packages/llama-index-workflows/src/workflows/context/context_types.py"

# fields that need not be serialized, each with the reason it can be re-derived
REDERIVABLE = {
    ("InProgressState", "worker_id"): "slots are re-assigned from 0 by rewind_in_progress on resume",
    ("InProgressState", "shared_state"): "the snapshot is rebuilt from the restored collected_events/collected_waiters when the invocation restarts",
    ("StepWorkerWaiter", "requirements"): "arbitrary user values are not JSON-safe; rehydrate_with_ticks replays the waiting step to re-register them (has_requirements marks the need)",
}


def _fields(cls: ast.ClassDef) -> list[str]:
    return [s.target.id for s in cls.body if isinstance(s, ast.AnnAssign) and isinstance(s.target, ast.Name)]


def _reads_in_engine(repo, names: set[str]) -> set[str]:
    out = set()
    for mod in wf_modules(repo):
        if mod.name not in (CL, "workflows.context.internal_context", STATE):
            continue
        for n in ast.walk(mod.tree):
            if isinstance(n, ast.Attribute) and isinstance(n.ctx, ast.Load) and n.attr in names:
                fn = enclosing_function(n)
                if fn is not None and fn.name in ("to_serialized", "from_serialized", "_deepcopy"):
                    continue
                out.add(n.attr)
    return out


def run(chk) -> None:
    repo = chk.repo
    from ._engine import engine_view
    chk.extra["helpers_inlined"] = engine_view(repo)
    ms = repo.module(STATE)
    mct = repo.module(CT)
    mres = repo.module("workflows.runtime.types.results")
    _, to_s = repo.func(f"{STATE}:BrokerState.to_serialized")
    _, from_s = repo.func(f"{STATE}:BrokerState.from_serialized")
    to_txt = ast.unparse(to_s)

    # ---------------------------------------------------------------- R1 EventAttempt <-> SerializedEventAttempt
    ea = _fields(ms.classes["EventAttempt"])
    sea = _fields(mct.classes["SerializedEventAttempt"])
    chk.floor("C12.R1", "EventAttempt fields", len(ea), 6)
    w = [c for c in ast.walk(to_s) if isinstance(c, ast.Call) and last(call_name(c)) == "SerializedEventAttempt"]
    # restored queue entries: EventAttempt constructions under an iteration over the serialized `.queue` (whatever the loop variable is called)
    r = [c for c in ast.walk(from_s) if isinstance(c, ast.Call) and last(call_name(c)) == "EventAttempt" and ast.unparse(_enclosing_loop_iter(c)).endswith(".queue")]
    if not w or not r:
        raise AnchorError("C12.R1: queue (de)serialization sites not found")
    for f in ea:
        # every way a queue entry is written / restored carries the field (a second, leaner constructor on some branch drops it there)
        lean_w = [c_ for c_ in w if not (kwarg(c_, f) is not None and f".{f}" in ast.unparse(kwarg(c_, f)))]
        ok = f in sea and not lean_w
        chk.ob("C12.R1", f"queued EventAttempt.{f} is written to the serialized queue entry", ok, m=ms, node=(lean_w or w)[0], fn=to_s, instance=f"queue-field-written:{f}",
               reason=f"field not carried by `{ast.unparse((lean_w or w)[0])[:80]}`" + (" (one of several constructions of the entry)" if len(w) > 1 else ""))
        lean_r = [c_ for c_ in r if not (kwarg(c_, f) is not None and f".{f}" in ast.unparse(kwarg(c_, f)))]
        ok = not lean_r
        chk.ob("C12.R1", f"queued EventAttempt.{f} is read back from the serialized queue entry", ok, m=ms, node=(lean_r or r)[0], fn=from_s, instance=f"queue-field-read:{f}", reason="field not restored by from_serialized")

    # ---------------------------------------------------------------- R1 InProgressState
    ips = _fields(ms.classes["InProgressState"])
    chk.floor("C12.R1", "InProgressState fields", len(ips), 8)
    read = _reads_in_engine(repo, set(ips))
    # what the serialized in-progress entry is built from
    ip_sites = [n for n in ast.walk(to_s) if isinstance(n, (ast.ListComp, ast.For)) and ".in_progress" in ast.unparse(n.generators[0].iter if isinstance(n, ast.ListComp) else n.iter)]
    if not ip_sites:
        raise AnchorError("C12.R1: serialization of in_progress not found in to_serialized")
    site = ip_sites[0]
    var = ast.unparse(site.generators[0].target if isinstance(site, ast.ListComp) else site.target)
    carried = {a.attr for a in ast.walk(site) if isinstance(a, ast.Attribute) and ast.unparse(a.value) == var}
    # restored from it
    rest_calls = [c for c in ast.walk(from_s) if isinstance(c, ast.Call) and last(call_name(c)) in ("EventAttempt", "InProgressState") and "in_progress" in ast.unparse(_enclosing_loop_iter(c))]
    for f in ips:
        if (("InProgressState", f)) in REDERIVABLE:
            chk.ob("C12.R1", f"InProgressState.{f} need not be serialized: {REDERIVABLE[('InProgressState', f)]}", True, m=ms, node=site, fn=to_s, instance=f"in-progress-field:{f}:rederivable")
            continue
        if f not in read:
            continue
        ok = f in carried
        chk.ob("C12.R1", f"a running invocation's `{f}` survives serialization (reducers read it)", ok, m=ms, node=site, fn=to_s, instance=f"in-progress-field:{f}",
               reason=f"in_progress entries are serialized from {{{', '.join(sorted(carried))}}} only; `{f}` is dropped and restored as a default, so a resumed invocation does not run under its existing retry count / recovery budget")

    # ---------------------------------------------------------------- R1 StepWorkerWaiter <-> SerializedWaiter
    wf = _fields(mres.classes["StepWorkerWaiter"])
    sw = _fields(mct.classes["SerializedWaiter"])
    chk.floor("C12.R1", "StepWorkerWaiter fields", len(wf), 6)
    readw = _reads_in_engine(repo, set(wf))
    wcall = [c for c in ast.walk(to_s) if isinstance(c, ast.Call) and last(call_name(c)) == "SerializedWaiter"]
    rcall = [c for c in ast.walk(from_s) if isinstance(c, ast.Call) and last(call_name(c)) == "StepWorkerWaiter"]
    if not wcall or not rcall:
        raise AnchorError("C12.R1: waiter (de)serialization sites not found")
    for f in wf:
        if ("StepWorkerWaiter", f) in REDERIVABLE:
            chk.ob("C12.R1", f"StepWorkerWaiter.{f} need not be serialized: {REDERIVABLE[('StepWorkerWaiter', f)]}", True, m=ms, node=wcall[0], fn=to_s, instance=f"waiter-field:{f}:rederivable")
            continue
        if f not in readw:
            continue
        def _flows(call_, fnx_):
            v_ = kwarg(call_, f)
            return v_ is not None and any(a_.endswith(f".{f}") or f".{f}." in a_ for a_ in dep_slice(fnx_, v_).attrs())
        ok = f in sw and _flows(wcall[0], to_s) and _flows(rcall[0], from_s)
        chk.ob("C12.R1", f"waiter field `{f}` is serialized and restored (the engine reads it)", ok, m=ms, node=wcall[0], fn=to_s, instance=f"waiter-field:{f}",
               reason=f"`{f}` has no serialized counterpart: after a resume the waiter is back in its default state for this field")
    # broker-level fields
    sc = [c for c in ast.walk(to_s) if isinstance(c, ast.Call) and last(call_name(c)) == "SerializedContext"]
    ok = bool(sc) and kwarg(sc[0], "is_running") is not None and ast.unparse(kwarg(sc[0], "is_running")) == "self.is_running"
    chk.ob("C12.R1", "is_running is serialized", ok, m=ms, node=sc[0] if sc else to_s, fn=to_s, instance="broker-field:is_running", reason="is_running not written")
    ok = any(isinstance(s, ast.Assign) and ast.unparse(s.targets[0]).endswith(".is_running") and "is_running" in ast.unparse(s.value) for s in ast.walk(from_s))
    chk.ob("C12.R1", "is_running is restored", ok, m=ms, node=from_s, fn=from_s, instance="broker-field:is_running:read", reason="is_running not restored")
    for role, fnx, marker in (("written", to_s, "collected_events"), ("restored", from_s, "collected_events")):
        ok = False
        for n in ast.walk(fnx):
            # {k: [ser(e) for e in v] for k, v in ….collected_events.items()}   or the same as a loop storing into d[k]
            gens = n.generators[:1] if isinstance(n, ast.DictComp) else ([n] if isinstance(n, ast.For) else [])
            for g in gens:
                if not (f"{marker}.items()" in ast.unparse(g.iter) and isinstance(g.target, ast.Tuple) and len(g.target.elts) == 2 and all(isinstance(e_, ast.Name) for e_ in g.target.elts)):
                    continue
                kname, vname = g.target.elts[0].id, g.target.elts[1].id
                if isinstance(n, ast.DictComp):
                    pairs = [(n.key, n.value)]
                else:
                    pairs = [(s_.targets[0].slice, s_.value) for s_ in ast.walk(n) if isinstance(s_, ast.Assign) and len(s_.targets) == 1 and isinstance(s_.targets[0], ast.Subscript)]
                for k_, v_ in pairs:
                    if isinstance(k_, ast.Name) and k_.id == kname and "serialize" in ast.unparse(v_) and any(isinstance(x_, ast.Name) and x_.id == vname for x_ in ast.walk(v_)):
                        ok = True
        chk.ob("C12.R1", f"collected event buffers are {role} per buffer id", ok, m=ms, node=fnx, fn=fnx, instance=f"broker-field:collected_events:{role}", reason="no per-buffer-id (de)serialization of collected_events (dict comprehension or keyed loop)")

    # ---------------------------------------------------------------- R2 one-trip normal form
    grows = [(n, k) for n, k in attr_writes(from_s, "in_progress") if k not in ("mutcall:clear",)]
    chk.ob("C12.R2", "from_serialized never populates in_progress (restored work is queued and restarted by rewind)", not grows, m=ms, node=grows[0][0] if grows else from_s, fn=from_s, instance="normal-form:no-in-progress",
           reason="in_progress is populated on deserialization: worker ids/snapshots of a dead process would be reused")
    moved = [c for c in rest_calls if isinstance(c, ast.Call)]
    appended = any(isinstance(c, ast.Call) and isinstance(c.func, ast.Attribute) and c.func.attr in ("append", "insert", "extend") and ast.unparse(c.func.value).endswith(".queue") and "in_progress" in ast.unparse(_enclosing_loop_iter(c)) for c in ast.walk(from_s))
    chk.ob("C12.R2", "serialized in-progress entries are moved to the step's queue", appended, m=ms, node=from_s, fn=from_s, instance="normal-form:in-progress-to-queue", reason="serialized in_progress entries are dropped on deserialization")
    # … every one of them: in each iteration of the loop over the serialized in_progress list the append is passed
    cfs = CFG(from_s)
    ip_loops = [n for n in cfs.nodes if n.kind == "iter" and isinstance(n.ast, (ast.For, ast.AsyncFor)) and "in_progress" in ast.unparse(n.ast.iter)]
    for h in ip_loops:
        apps = [x for c in ast.walk(h.ast) if isinstance(c, ast.Call) and isinstance(c.func, ast.Attribute) and c.func.attr in ("append", "insert", "extend") and ast.unparse(c.func.value).endswith(".queue")
                for x in cfs.node_of_containing(c)]
        body_starts = [t for lab, t in cfs.succ[h] if lab == "loop"]
        skipped = bool(apps) and h in cfs.reach(body_starts, blocked=apps, labels_excluded=("exc", "cancel"))
        chk.ob("C12.R2", "every serialized in-progress entry is queued again (no iteration of the restore loop skips the append)", bool(apps) and not skipped, m=ms, node=h.ast, fn=from_s,
               instance="normal-form:every-in-progress-requeued", reason="an iteration can reach the next one without appending: that running invocation is dropped on resume")
    PARTS = ("in_progress", "queue", "collected_waiters", "collected_events")
    # every restore loop: no iteration over a serialized part goes on to the next entry without restoring this one (a `continue`
    # or a condition around the append drops queued work, a delivered-but-unconsumed waiter, a collected event)
    from ..astx import iteration_can_skip as _ics
    n_loops = 0
    for lp in [l for l in ast.walk(from_s) if isinstance(l, ast.For)]:
        part = next((p_ for p_ in PARTS if re.search(rf"\.{p_}\b", ast.unparse(lp.iter))), None)
        if part is None:
            continue
        inner_loops = [x for x in ast.walk(lp) if isinstance(x, ast.For) and x is not lp]
        must = [c for c in ast.walk(lp) if isinstance(c, ast.Call) and isinstance(c.func, ast.Attribute) and c.func.attr in ("append", "insert", "extend", "add", "setdefault", "update")
                and not any(c is y for il in inner_loops for y in ast.walk(il))]
        must += [t for a_ in ast.walk(lp) if isinstance(a_, ast.Assign) and not any(a_ is y for il in inner_loops for y in ast.walk(il)) for t in a_.targets if isinstance(t, ast.Subscript)]
        if not must:
            must = inner_loops      # a nested restore loop (events of one buffer) is the restoring action of the outer one
        if not must:
            continue
        n_loops += 1
        chk.ob("C12.R2", f"every serialized `{part}` entry is restored (no iteration of the restore loop skips its append / store)", not _ics(cfs, lp, must), m=ms, node=lp, fn=from_s,
               instance=f"normal-form:every-entry-restored:{part}", reason=f"an iteration over the serialized `{part}` can go on to the next entry without restoring this one: that entry "
               f"(queued work, a waiter whose event was already delivered, a collected event) is dropped on resume")
    chk.floor("C12.R2", "restore loops over serialized parts in from_serialized (in_progress, collected_waiters; queue and buffers are comprehensions, see no-restore-filter; a missing in-progress loop is reported by in-progress-to-queue)", n_loops, 1)
    filt = [c for c in ast.walk(from_s) if isinstance(c, (ast.ListComp, ast.GeneratorExp, ast.DictComp, ast.SetComp)) and any(any(f".{p_}" in ast.unparse(g.iter) for p_ in PARTS) and g.ifs for g in c.generators)]
    # waiters restored without their (unserializable) requirements are re-registered by replaying the waiting step: one replay
    # per such waiter, or the resumed run never matches the others
    from ._engine import rehydrate_replays
    rehydrate_replays(chk, "C12.R2")
    chk.ob("C12.R2", "no filter is applied to the serialized queue / in-progress / waiter / buffer entries on restore", not filt, m=ms, node=filt[0] if filt else from_s, fn=from_s, instance="normal-form:no-restore-filter",
           reason=f"a comprehension over serialized work has an `if` clause: `{ast.unparse(filt[0])[:80] if filt else ''}`")
    for c in rest_calls:
        ev = kwarg(c, "event", 0)
        ok = ev is not None and "deserialize" in ast.unparse(ev)
        chk.ob("C12.R2", "a restored in-progress entry carries the deserialized event", ok, m=ms, node=c, fn=from_s, instance="normal-form:event", reason=f"event={ast.unparse(ev) if ev is not None else None}")

    # ---------------------------------------------------------------- R3 version / key agreement
    _, fda = repo.func(f"{CT}:SerializedContext.from_dict_auto")
    vers_w = [kwarg(c, "version") for c in sc if kwarg(c, "version") is not None]
    tests = [n for n in ast.walk(fda) if isinstance(n, ast.Compare) and "version" in ast.unparse(n)]
    consts = [c.value for t in tests for c in ast.walk(t) if isinstance(c, ast.Constant) and isinstance(c.value, int)]
    ok = bool(vers_w) and isinstance(vers_w[0], ast.Constant) and vers_w[0].value in consts
    chk.ob("C12.R3", "the version the writer stamps is the version from_dict_auto accepts as current", ok, m=mct, node=fda, fn=fda, instance="version-agreement", reason=f"writer version {ast.unparse(vers_w[0]) if vers_w else None}, reader tests {consts}")
    scf = set(_fields(mct.classes["SerializedContext"]))
    written = {k.arg for c in sc for k in c.keywords}
    chk.ob("C12.R3", "to_serialized fills every SerializedContext field", scf <= written, m=ms, node=sc[0] if sc else to_s, fn=to_s, instance="context-fields", reason=f"not written: {sorted(scf - written)}")
    ssw = set(_fields(mct.classes["SerializedStepWorkerState"]))
    wsw = [c for c in ast.walk(to_s) if isinstance(c, ast.Call) and last(call_name(c)) == "SerializedStepWorkerState"]
    writtenw = {k.arg for c in wsw for k in c.keywords}
    chk.ob("C12.R3", "to_serialized fills every SerializedStepWorkerState field", ssw <= writtenw, m=ms, node=wsw[0] if wsw else to_s, fn=to_s, instance="worker-fields", reason=f"not written: {sorted(ssw - writtenw)}")
    readw2 = {a.attr for a in ast.walk(from_s) if isinstance(a, ast.Attribute) and ast.unparse(a.value) == "worker_data"}
    chk.ob("C12.R3", "from_serialized reads every SerializedStepWorkerState field", ssw <= readw2, m=ms, node=from_s, fn=from_s, instance="worker-fields:read", reason=f"not read: {sorted(ssw - readw2)}")


def _enclosing_loop_iter(node: ast.AST) -> ast.AST:
    from ..index import ancestors
    for a in ancestors(node):
        if isinstance(a, (ast.For, ast.AsyncFor)):
            return a.iter
        if isinstance(a, (ast.ListComp, ast.GeneratorExp, ast.SetComp, ast.DictComp)):
            return a.generators[0].iter
    return ast.Constant(value=None)


TWINS = [
    Twin("delivered waiters are not restored while the step has running work", IS_REL, "            for waiter_data in worker_data.collected_waiters:\n", "            for waiter_data in worker_data.collected_waiters:\n                if waiter_data.resolved_event and worker_data.in_progress:\n                    continue\n", "C12.R2"),
    Twin("one replay per step instead of one per restored waiter", IS_REL, '            for waiter in sorted(\n                worker_state.collected_waiters, key=lambda x: x.waiter_id\n            ):\n                if waiter.has_requirements and not waiter.requirements:\n                    commands.append(\n                        TickAddEvent(event=waiter.event, step_name=step_name)\n                    )\n',
         "            pending = [w for w in sorted(worker_state.collected_waiters, key=lambda x: x.waiter_id) if w.has_requirements and not w.requirements]\n            if pending:\n                commands.append(TickAddEvent(event=pending[0].event, step_name=step_name))\n", "C12.R2"),
    Twin("replays de-duplicated by input event", IS_REL, '            for waiter in sorted(\n                worker_state.collected_waiters, key=lambda x: x.waiter_id\n            ):\n                if waiter.has_requirements and not waiter.requirements:\n                    commands.append(\n                        TickAddEvent(event=waiter.event, step_name=step_name)\n                    )\n',
         "            seen = set()\n            for waiter in sorted(worker_state.collected_waiters, key=lambda x: x.waiter_id):\n                if waiter.has_requirements and not waiter.requirements and id(waiter.event) not in seen:\n                    seen.add(id(waiter.event))\n                    commands.append(TickAddEvent(event=waiter.event, step_name=step_name))\n", "C12.R2"),
    Twin("benign: replay loop over a filtered list, loop variable renamed", IS_REL, '            for waiter in sorted(\n                worker_state.collected_waiters, key=lambda x: x.waiter_id\n            ):\n                if waiter.has_requirements and not waiter.requirements:\n                    commands.append(\n                        TickAddEvent(event=waiter.event, step_name=step_name)\n                    )\n',
         "            lost = [w for w in sorted(worker_state.collected_waiters, key=lambda x: x.waiter_id) if w.has_requirements and not w.requirements]\n            for w in lost:\n                commands.append(TickAddEvent(event=w.event, step_name=step_name))\n", None),
    Twin("unattempted queue entries are written without their bookkeeping", "packages/llama-index-workflows/src/workflows/runtime/types/internal_state.py", "                    recovery_counts=dict(attempt.recovery_counts),\n                )\n                for attempt in worker_state.queue", "                    recovery_counts=dict(attempt.recovery_counts),\n                )\n                if attempt.attempts\n                else SerializedEventAttempt(event=serializer.serialize(attempt.event))\n                for attempt in worker_state.queue", "C12.R1"),
    Twin("running invocations equal to a queued one are dropped on restore", "packages/llama-index-workflows/src/workflows/runtime/types/internal_state.py", "            for event_str in worker_data.in_progress:\n                worker.queue.append(", "            already_queued = {attempt.event for attempt in worker_data.queue}\n            for event_str in worker_data.in_progress:\n                if event_str in already_queued:\n                    continue\n                worker.queue.append(", "C12.R2"),
    Twin("queue drops recovery counts", IS_REL, "                    last_failed_at=attempt.last_failed_at,\n                    recovery_counts=dict(attempt.recovery_counts),\n                )\n                for attempt in worker_state.queue", "                    last_failed_at=attempt.last_failed_at,\n                )\n                for attempt in worker_state.queue", "C12.R1"),
    Twin("queue attempts not restored", IS_REL, "                    attempts=attempt.attempts,\n                    first_attempt_at=attempt.first_attempt_at,\n                    last_exception=attempt.last_exception,", "                    attempts=0,\n                    first_attempt_at=attempt.first_attempt_at,\n                    last_exception=attempt.last_exception,", "C12.R1"),
    Twin("resolved event not written", IS_REL, "                    resolved_event=serializer.serialize(waiter.resolved_event)\n                    if waiter.resolved_event\n                    else None,", "                    resolved_event=None,", "C12.R1"),
    Twin("running flag lost", IS_REL, "        base_state.is_running = serialized.is_running\n", "", "C12.R1"),
    Twin("in-progress dropped on load", IS_REL, "            for event_str in worker_data.in_progress:\n                worker.queue.append(", "            for event_str in []:\n                worker.queue.append(", "C12.R2"),
    Twin("in-progress restored as running", IS_REL, "            for event_str in worker_data.in_progress:\n                worker.queue.append(\n                    EventAttempt(\n                        event=serializer.deserialize(event_str),\n                        attempts=0,\n                        first_attempt_at=None,\n                    )\n                )",
         "            for event_str in worker_data.in_progress:\n                worker.in_progress.append(\n                    EventAttempt(\n                        event=serializer.deserialize(event_str),\n                        attempts=0,\n                        first_attempt_at=None,\n                    )\n                )", "C12.R2"),
    Twin("writer bumps version", IS_REL, "            version=1,\n            state={},  # State is filled separately", "            version=2,\n            state={},  # State is filled separately", "C12.R3"),
    Twin("waiters not written", IS_REL, "                collected_events=collected_events,\n                collected_waiters=waiters,\n            )", "                collected_events=collected_events,\n            )", "C12.R3"),
    Twin("benign: queue list built in a loop", IS_REL, "            in_progress = [\n                serializer.serialize(ip.event) for ip in worker_state.in_progress\n            ]", "            in_progress = []\n            for ip in worker_state.in_progress:\n                in_progress.append(serializer.serialize(ip.event))", None),
]
