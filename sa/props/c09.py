"""C09 — collect_events returns each full set once without losing events.

Decided: (R1) stale-snapshot validation on every snapshot-dependent result of the optimistic
scheme: the reducer branch that *adds* to the buffer and the branch that *consumes* it (delete)
must compare the invocation's snapshot with the live buffer before mutating it; consumption only
when the step completed; (R2) `InternalContext.collect_events` evaluated from its AST on all
buffers/expected lists over 3 event types with multiplicity <= 2 (exhaustive in that bound):
returns a list exactly when buffer+event covers `expected`, ordered as `expected`, each buffered
event used once; otherwise emits AddCollectedEvent iff the event's type is still missing;
(R3) the stale re-run path refreshes the snapshot and re-issues the worker on the same slot.
Also (R1) completion: no path completes the run (CommandCompleteRun in the step-result reducer) without a loop clearing
`collected_events` of every worker — a half-filled set must not survive into the next run on the same Context.
Not decided: arrival orders as such (serialised by the reducer; R1 is order independent).
"""

from __future__ import annotations

import ast
import itertools
from collections import Counter, defaultdict

from ..absint import Interp, Raised, Record, Unsupported
from ..astx import call_name, enclosing_stmt, expand, facts_at, has_fact, kwarg, last
from ..cfg import CFG
from ..index import AnchorError
from ..selftest import Twin
from ._engine import CL, CL_REL, branch_for

EXPLANATION = __doc__.split("\n\n", 1)[1]
TECHNIQUE = 'static analysis: sibling agreement of snapshot validation between add/consume branches, exhaustive AST evaluation of collect_events on small buffers'
TRUSTED = ["CPython ast", "collections.Counter / defaultdict semantics"]
IC = "workflows.context.internal_context"
IC_REL = "packages/llama-index-workflows/src/workflows/context/internal_context.py"


def _body_nodes(br: ast.If):
    return [x for s in br.body for x in ast.walk(s)]


def run(chk) -> None:
    repo = chk.repo
    from ._engine import engine_view
    chk.extra["helpers_inlined"] = engine_view(repo)
    mc, sr = repo.func(f"{CL}:_process_step_result_tick")
    loop = next((n for n in ast.walk(sr) if isinstance(n, ast.For) and ast.unparse(n.iter).endswith(".result")), None)
    if loop is None:
        raise AnchorError("C09.R1: result loop not found")
    rv = ast.unparse(loop.target)
    cfg = CFG(sr)

    def compares_snapshot(nodes) -> bool:
        """a comparison whose operands derive from the live buffer and from the invocation's snapshot"""
        for n in nodes:
            if isinstance(n, ast.Compare):
                txt = ast.unparse(expand(n, n, depth=3, provenance=True))
                if "shared_state.collected_events" in txt and (".collected_events" in txt.replace("shared_state.collected_events", "")):
                    return True
        return False

    # ---- completion: when the reducer completes the run (a StopEvent was returned), every step's collect buffer is emptied with
    # it, or a half-filled set survives in the Context and the next run on it "collects" an event it never received
    completes = [c for c in ast.walk(sr) if isinstance(c, ast.Call) and last(call_name(c)) == "CommandCompleteRun"]
    chk.floor("C09.R1", "run completions issued by the step-result reducer", len(completes), 1)

    def _clears_all(lp: ast.AST) -> bool:
        if not (isinstance(lp, ast.For) and isinstance(lp.target, (ast.Name, ast.Tuple))):
            return False
        it = ast.unparse(lp.iter)
        if not (it.endswith(".workers.values()") or it.endswith(".workers.items()")):
            return False
        names = {n.id for n in ast.walk(lp.target) if isinstance(n, ast.Name)}
        done = []
        for x in ast.walk(lp):
            if isinstance(x, ast.Call) and isinstance(x.func, ast.Attribute) and x.func.attr == "clear" and isinstance(x.func.value, ast.Attribute) and x.func.value.attr == "collected_events" \
                    and isinstance(x.func.value.value, ast.Name) and x.func.value.value.id in names:
                done.append(x)
            if isinstance(x, ast.Assign) and any(isinstance(t, ast.Attribute) and t.attr == "collected_events" and isinstance(t.value, ast.Name) and t.value.id in names for t in x.targets) \
                    and ((isinstance(x.value, ast.Dict) and not x.value.keys) or (isinstance(x.value, ast.Call) and call_name(x.value) == "dict" and not x.value.args and not x.value.keywords)):
                done.append(x)
        from ..astx import iteration_can_skip
        return bool(done) and not iteration_can_skip(cfg, lp, done)

    clear_loops = [lp for lp in ast.walk(sr) if _clears_all(lp)]
    clear_nodes = [n for lp in clear_loops for n in cfg.nodes if n.kind == "iter" and n.ast is lp]
    for c in completes:
        cn = cfg.nodes_of(enclosing_stmt(c))
        # a path entry → completion → return that never runs a clear-all loop
        before = cfg.reach([cfg.entry], blocked=clear_nodes)
        leak = [n for n in cn if n in before and cfg.exit in cfg.reach([n], blocked=clear_nodes, labels_excluded=("exc", "cancel"))]
        chk.ob("C09.R1", "completing the run empties every step's collect buffer (a later run on the same context starts collecting from nothing)", not leak, m=mc, node=c, fn=sr,
               instance="completion:buffers-cleared", reason="a path completes the run (CommandCompleteRun) without clearing `collected_events` of every worker: a partially collected set survives the run "
               "and is handed to the next run's collect_events together with that run's events (an event is returned that this collection never received, and a received one is dropped)")

    # ---- add branch
    add = branch_for(sr, rv, "AddCollectedEvent")
    bn = _body_nodes(add)
    appends = [c for c in bn if isinstance(c, ast.Call) and isinstance(c.func, ast.Attribute) and c.func.attr == "append" and c.args and ast.unparse(c.args[0]) == f"{rv}.event"]
    chk.floor("C09.R1", "buffer appends in the AddCollectedEvent branch", len(appends), 1)
    chk.ob("C09.R1", "adding to the collect buffer is validated against the invocation's snapshot", compares_snapshot(bn), m=mc, node=add, fn=sr, instance="stale-check:add",
           reason="the add branch mutates the live buffer without comparing it with the snapshot the invocation saw")
    for c in appends:
        for n in cfg.nodes_of(enclosing_stmt(c)):
            gs = [t for t, lab in cfg.guards(n) if t.kind == "test" and any(t.ast is x for x in bn)]
            chk.ob("C09.R1", "the event is appended only on the not-stale side of the comparison", bool(gs) and compares_snapshot([x for g in gs for x in ast.walk(expand(g.ast.test, g.ast, depth=2, provenance=True))]), m=mc, node=c, fn=sr,
                   instance="stale-check:add-guards-append", reason="append not controlled by the snapshot comparison")
    # ---- the snapshot the comparison uses is the invocation's *current* one: the re-run arm re-binds <execution>.shared_state, so a
    # local captured from it earlier (before the result loop, or before the re-binding in the same iteration) is stale afterwards
    from ..astx import stale_alias_reads
    stale = stale_alias_reads(cfg, "shared_state")
    rebinds_ss = [s_ for s_ in ast.walk(sr) if isinstance(s_, ast.Assign) and any(isinstance(t, ast.Attribute) and t.attr == "shared_state" for t in s_.targets)]
    chk.extra["shared_state_rebindings"] = len(rebinds_ss)  # (that the re-run refreshes the snapshot at all is C09.R3's obligation)
    chk.ob("C09.R1", "every read of the invocation's snapshot sees the snapshot as refreshed by an earlier re-run in the same tick", not stale, m=mc, node=stale[0][2] if stale else add, fn=sr,
           instance="stale-check:snapshot-current",
           reason=(f"`{ast.unparse(stale[0][0])[:70]}` is bound before `{ast.unparse(stale[0][1])[:60]}` and read again afterwards: a second stale buffer in the same tick is compared with the "
                   f"old snapshot and re-runs the same invocation once more (two invocations on one worker slot)") if stale else "")
    # ---- delete (consumption) branch
    dele = branch_for(sr, rv, "DeleteCollectedEvent")
    bd = _body_nodes(dele)
    pops = [c for c in bd if isinstance(c, ast.Call) and isinstance(c.func, ast.Attribute) and c.func.attr in ("pop", "clear") and "collected_events" in ast.unparse(c.func.value)] + \
           [d for d in bd if isinstance(d, ast.Delete) and "collected_events" in ast.unparse(d)]
    chk.floor("C09.R1", "buffer consumption sites in the DeleteCollectedEvent branch", len(pops), 1)
    chk.ob("C09.R1", "consuming the collect buffer is validated against the invocation's snapshot", compares_snapshot(bd), m=mc, node=dele, fn=sr, instance="stale-check:delete",
           reason="two overlapping invocations that saw the same buffered event both complete and both consume it: the same event is returned in two lists (the add branch checks staleness, the delete branch does not)")
    for c in pops:
        st = enclosing_stmt(c)
        for n in cfg.nodes_of(st):
            f = facts_at(cfg, n, expand_locals=False)
            chk.ob("C09.R1", "the buffer is consumed only when the step completed (a failed attempt keeps the events for its retry)", ("did_complete_step", True) in f, m=mc, node=c, fn=sr,
                   instance="consume:only-on-completion", reason=f"guards: {sorted(f)[:5]}")
        key = c.args[0] if isinstance(c, ast.Call) and c.args else None
        chk.ob("C09.R1", "only the invocation's own buffer id is consumed", key is not None and ast.unparse(key) == f"{rv}.event_id", m=mc, node=c, fn=sr, instance="consume:own-buffer", reason=f"consumes `{ast.unparse(c)[:60]}`")
    dcs = expand(ast.Name(id="did_complete_step", ctx=ast.Load()), dele, depth=1)
    chk.ob("C09.R1", "`did_complete_step` means the tick carries a StepWorkerResult", "StepWorkerResult" in ast.unparse(dcs) and "isinstance" in ast.unparse(dcs), m=mc, node=dele, fn=sr, instance="consume:completion-flag", reason=f"did_complete_step = {ast.unparse(dcs)[:80]}")

    # ---- R3 stale re-run
    reruns = [c for c in bn if isinstance(c, ast.Call) and last(call_name(c)) == "CommandRunWorker"]
    chk.floor("C09.R3", "re-run commands on the stale path", len(reruns), 1)
    for c in reruns:
        ev = kwarg(c, "event")
        chk.ob("C09.R3", "the stale invocation is re-run with its own event", ev is not None and ast.unparse(ev) in (f"{rv}.event", "tick.event", "this_execution.event"), m=mc, node=c, fn=sr, instance="rerun:event", reason=f"event={ast.unparse(ev) if ev is not None else None}")
        refreshed = [s for s in bn if isinstance(s, ast.Assign) and ast.unparse(s.targets[0]).endswith(".shared_state")]
        from ..astx import dep_slice
        sl_ = dep_slice(sr, refreshed[0].value, stop=("this_execution",)) if refreshed else None
        # some `<live>.collected_events` flows into the new snapshot, <live> being the step's worker state in the reducer's state
        # (`state.workers[…]`, directly or through a local bound to it) and not the invocation's own snapshot
        def _live(base: ast.AST) -> bool:
            t_ = ast.unparse(base)
            if "shared_state" in t_:
                return False
            if ".workers[" in t_:
                return True
            return isinstance(base, ast.Name) and ".workers[" in ast.unparse(expand(base, refreshed[0], depth=3))
        fresh = bool(refreshed) and any(isinstance(a_, ast.Attribute) and a_.attr == "collected_events" and _live(a_.value) for e_ in sl_.exprs for a_ in ast.walk(e_))
        chk.ob("C09.R3", "the re-run sees the live buffer (snapshot refreshed from the reducer state)", bool(fresh), m=mc, node=c, fn=sr, instance="rerun:fresh-snapshot", reason="shared_state is not refreshed from the live collected_events")
        # … and *all* of the step's buffers: the re-run executes the whole step again, so a snapshot holding only the buffer that was
        # stale makes every other collect_events of the step start from nothing (its events are added a second time)
        def _whole_map(e_: ast.AST) -> bool:
            def live_map(x: ast.AST) -> bool:
                while isinstance(x, ast.Call) and isinstance(x.func, ast.Attribute) and x.func.attr in ("items", "keys", "values", "copy") and not x.args:
                    x = x.func.value
                if isinstance(x, ast.Name):        # the live map itself held in a local (`step_collected = state.workers[…].collected_events`)
                    x = expand(x, refreshed[0], depth=3, provenance=True)
                return isinstance(x, ast.Attribute) and x.attr == "collected_events" and _live(x.value)
            for n_ in ast.walk(e_):
                if isinstance(n_, ast.comprehension) and live_map(n_.iter):
                    return True
                if isinstance(n_, ast.Call) and last(call_name(n_) or "") in ("deepcopy", "dict", "copy") and n_.args and live_map(n_.args[0]):
                    return True
                if live_map(n_) and isinstance(n_, ast.Call):        # `.items()` of the live map used as a loop source
                    return True
            return False
        whole = bool(refreshed) and any(_whole_map(e_) for e_ in sl_.exprs)
        chk.ob("C09.R3", "the refreshed snapshot holds every buffer of the step (built by going over the whole live collected_events map)", whole, m=mc, node=c, fn=sr, instance="rerun:whole-snapshot",
               reason="the snapshot handed to the re-run is not built from the whole live `collected_events` map (a literal with selected buffer ids): the step's other collect buffers look empty "
                      "to the re-run, which adds their events again — an event ends up in two returned sets")

    # ---------------------------------------------------------------- R2 collect_events on all small buffers
    mi, ce = repo.func(f"{IC}:InternalContext.collect_events")
    types = ("A", "B", "C")
    expected_lists = [list(p) for n in (1, 2, 3) for p in itertools.product(("A", "B"), repeat=n) if max(Counter(p).values()) <= 2]
    cases = 0
    bad = ""
    samples = []
    try:
        for exp in expected_lists:
            need = Counter(exp)
            # buffers: sub-multisets of expected (what the engine can have buffered), as lists with identities
            subs = set()
            for k in range(0, len(exp)):
                for comb in itertools.combinations(range(len(exp)), k):
                    subs.add(tuple(sorted(exp[i] for i in comb)))
            for sub in sorted(subs):
                buf = [Record(t, _id=f"{t}{i}") for i, t in enumerate(sub)]
                for et in types:
                    ev = Record(et, _id=f"{et}new")
                    rets = Record("Returns", return_values=[])
                    ctx = Record("StepWorkerContext", state=Record("StepWorkerState", collected_events={"default": list(buf)}), returns=rets)
                    hooks = {
                        "self._get_step_ctx": lambda fn=None: ctx,
                        "type": lambda r: r._cls,
                        "Counter": Counter,
                        "defaultdict": defaultdict,
                        "AddCollectedEvent": lambda **kw: Record("AddCollectedEvent", **kw),
                        "DeleteCollectedEvent": lambda **kw: Record("DeleteCollectedEvent", **kw),
                    }
                    cases += 1
                    try:
                        out = Interp(hooks=hooks).call_function(ce, {"self": Record("InternalContext"), "ev": ev, "expected": list(exp), "buffer_id": None})
                    except Raised as r:
                        bad = bad or f"expected={exp}, buffer={list(sub)}, event {et}: collect_events raises {r}"
                        continue
                    have = Counter(b._cls for b in buf)
                    full = have + Counter([et]) == need
                    adds = [r for r in rets.return_values if r._cls == "AddCollectedEvent"]
                    dels = [r for r in rets.return_values if r._cls == "DeleteCollectedEvent"]
                    if full:
                        ok = isinstance(out, list) and [o._cls for o in out] == exp and len({id(o) for o in out}) == len(out) and set(map(id, out)) == set(map(id, buf + [ev])) and len(dels) == 1 and not adds
                    else:
                        missing = (need - have)[et] > 0
                        ok = out is None and not dels and (len(adds) == 1 and adds[0].event is ev and adds[0].event_id == "default" if missing else not adds)
                    if len(samples) < 5:
                        samples.append({"expected": exp, "buffer": list(sub), "event": et, "returns": None if out is None else [o._id for o in out], "adds": len(adds), "deletes": len(dels)})
                    if not ok:
                        bad = bad or f"expected={exp}, buffer={list(sub)}, event {et}: returned {None if out is None else [o._id for o in out]}, adds={len(adds)}, deletes={len(dels)}"
        out = Interp(hooks={"self._get_step_ctx": lambda fn=None: Record("x")}).call_function(ce, {"self": Record("InternalContext"), "ev": Record("A"), "expected": [], "buffer_id": None})
        if out != []:
            bad = bad or "an empty expected list does not return [] immediately"
    except Unsupported as e:
        raise AnchorError(f"C09.R2: cannot evaluate collect_events: {e}")
    chk.ob("C09.R2", f"collect_events returns a list exactly when buffer+event covers `expected`, ordered as expected, each event once ({cases} buffer/event/expected cases, exhaustive for <=3 expected over 2 types + a foreign type)", not bad,
           m=mi, node=ce, fn=ce, instance="collect:semantics", reason=bad)
    chk.extra["collect_cases"] = {"cases": cases, "samples": samples}
    chk.exhaustive = True


TWINS = [
    Twin("benign: live buffer map held in a local, snapshot filled by a loop over it", CL_REL, "                updated_state = replace(\n                    this_execution.shared_state,\n                    collected_events={\n                        x: list(y)\n                        for x, y in state.workers[\n                            tick.step_name\n                        ].collected_events.items()\n                    },\n                )\n",
         "                _live_map = state.workers[tick.step_name].collected_events\n                _fresh2: dict = {}\n                for _bid, _evs in _live_map.items():\n                    _fresh2[_bid] = list(_evs)\n                updated_state = replace(\n                    this_execution.shared_state,\n                    collected_events=_fresh2,\n                )\n", None),
    Twin("re-run snapshot holds only the stale buffer", CL_REL, "                    collected_events={\n                        x: list(y)\n                        for x, y in state.workers[\n                            tick.step_name\n                        ].collected_events.items()\n                    },\n",
         "                    collected_events={result.event_id: list(collected_events)},\n", "C09.R3"),
    Twin("benign: re-run snapshot filled by a loop over the live map", CL_REL, "                updated_state = replace(\n                    this_execution.shared_state,\n                    collected_events={\n                        x: list(y)\n                        for x, y in state.workers[\n                            tick.step_name\n                        ].collected_events.items()\n                    },\n                )\n",
         "                _fresh: dict = {}\n                for _bid, _evs in worker_state.collected_events.items():\n                    _fresh[_bid] = list(_evs)\n                updated_state = replace(\n                    this_execution.shared_state,\n                    collected_events=_fresh,\n                )\n", None),
    Twin("run completion keeps the collect buffers", CL_REL, "                    worker.collected_events.clear()\n", "", "C09.R1"),
    Twin("buffers cleared only for the completing step", CL_REL, "                for worker in state.workers.values():\n                    worker.collected_events.clear()\n                    worker.collected_waiters.clear()\n",
         "                worker_state.collected_events.clear()\n                for worker in state.workers.values():\n                    worker.collected_waiters.clear()\n", "C09.R1"),
    Twin("benign: buffers reset by assignment, in a loop of their own", CL_REL, "                for worker in state.workers.values():\n                    worker.collected_events.clear()\n                    worker.collected_waiters.clear()\n",
         "                for _name, _ws in state.workers.items():\n                    _ws.collected_events = {}\n                for worker in state.workers.values():\n                    worker.collected_waiters.clear()\n", None),
    Twin("add without stale check", CL_REL, "            if len(collected_events) > len(sent_events):", "            if False:", "C09.R1"),
    Twin("delete even on failure", CL_REL, "            if did_complete_step:  # allow retries to grab the events", "            if True:  # allow retries to grab the events", "C09.R1"),
    Twin("delete drops all buffers", CL_REL, "                state.workers[tick.step_name].collected_events.pop(\n                    result.event_id, None\n                )", "                state.workers[tick.step_name].collected_events.clear()", "C09.R1"),
    Twin("rerun with stale snapshot", CL_REL, "                this_execution.shared_state = updated_state\n", "", "C09.R3"),
    Twin("collect ignores multiplicity", IC_REL, "        remaining_event_types = Counter(expected) - Counter(\n            [type(e) for e in collected_events]\n        )", "        remaining_event_types = Counter(set(expected)) - Counter(\n            [type(e) for e in collected_events]\n        )", "C09.R2"),
    Twin("collect returns arrival order", IC_REL, "        for e_type in expected:\n            total.append(by_type[e_type].pop(0))", "        for e in collected_events + [ev]:\n            total.append(e)", "C09.R2"),
    Twin("collect re-adds duplicates", IC_REL, "            if type(ev) in remaining_event_types:\n                step_ctx.returns", "            if type(ev) in expected:\n                step_ctx.returns", "C09.R2"),
    Twin("collect forgets delete", IC_REL, "        step_ctx.returns.return_values.append(DeleteCollectedEvent(event_id=buffer_id))\n", "", "C09.R2"),
    Twin("benign: stale test reversed", CL_REL, "            if len(collected_events) > len(sent_events):", "            if len(sent_events) < len(collected_events):", None),
    Twin("benign: collect ordering via comprehension", IC_REL, "        for e_type in expected:\n            total.append(by_type[e_type].pop(0))", "        total = [by_type[e_type].pop(0) for e_type in expected]", None),
]
