"""C37 — llamactl never activates a profile the user did not pick in that environment.

The active profile is stored *by name only* (`settings.current_profile`), the environment by url
(`settings.current_environment_api_url`); `get_current_profile` resolves the stored name inside whatever
environment is current.  So every change of the current environment must be paired with a clear of the
profile pointer, the name must be resolved inside the caller's own environment, and only services bound
to the current environment may move the pointer.

What counts as a clear (R1): only a statement after which *no* name is stored whatever was stored before.  A delete
restricted by the stored value or by the profiles table ("clear it if it is one of the removed profiles") leaves a
dangling name (renamed / already deleted profile) in place, and the fall-back environment then resolves it.

Who may write the pointer (R5): a bare name identifies a profile only together with the environment it is resolved in,
so a name may be stored only by the one primitive (whose callers R3 vets) and only when it was looked up or created
inside the writing service's own environment.  A writer keyed on a profile *name* alone (e.g. "rewrite the setting
from the old to the new name when a profile is renamed") moves the pointer of the current environment on behalf of a
profile of any environment.  Clears (DELETE) are always allowed: "no active profile" satisfies the statement.

Which environment a pointer-moving service is bound to (R6): R3 lets only the service handed out by
`EnvService.current_auth_service()` move the pointer, because it is bound to `get_current_environment()`.  That is only
worth something if the binding is read from the settings row *at the time of the call*.  A value computed from the stored
current environment and kept across calls (object attribute, module global, memoising decorator) must therefore be dropped
by every method that can change the current environment — including the indirect ones: `delete_environment` only
delegates, and the callee falls back to the default environment when the deleted one was current.  Decided: the set of
functions whose result derives from the settings row (data flow through locals, attributes and globals), the set of
methods that can change it (call graph), the kept values, and, per (kept value, changing method), that no normal path
through the change reaches the exit without a reset.  On the confirmed tree nothing is kept (3 readers recompute per
call; 5 changing methods inventoried).
"""

from __future__ import annotations

import ast
import re
from pathlib import Path

from ..astx import call_name, calls_named, dep_slice, dotted, enclosing_stmt, expand, kwarg, last, reaching_def
from ..cfg import CFG
from ..index import AnchorError, FuncNode, _baseline_helpers, _set_parents, enclosing_class, enclosing_function, parent, qualname_of
from ..inline import Inliner
from ..selftest import Twin
from .c17 import _multi

EXPLANATION = (
    "R1 (pairing, CFG): every site that changes the current environment — a call of `set_settings_current_environment` anywhere in the "
    "llamactl package, or an SQL statement writing the settings key `current_environment_api_url` outside that primitive — lies on no "
    "normal path entry -> site -> exit that avoids an *unconditional* clear of the profile pointer: `set_settings_current_profile(None)`, or an SQL DELETE on settings "
    "whose WHERE clause only selects the row by its key (`key = 'current_profile'`, `key IN (…)`, or no WHERE). A DELETE with any further conjunct (on the stored `value`, a sub-select over "
    "profiles, a bound parameter) removes the name only for some stored values and does not count as the pairing clear — a stale or dangling name would survive the change of environment "
    "and be resolved in the new one; a Python test around the clear is seen by the path search itself. This covers the ConfigManager primitive level too: delete_environment's fall-back to the "
    "default environment is an env-change site (SQL write of the key), and the DELETE inside `set_settings_current_profile` (on which every call-level pairing relies) must itself be unconditional "
    "(primitive-clear-unconditional). A WHERE clause the reader cannot split into such conjuncts (OR, non-literal key) is an analysis error. SQL texts (literals, or concatenations of literals, straight-line locals, module-level constants bound once — themselves possibly assembled from other constants — and class-level constants read through self / cls / the class) are read "
    "with a small statement reader (kind, table, quoted keys, WHERE conjuncts); private static helpers that are new with respect to the confirmed tree are folded into their callers first. "
    "R2: the stored name is resolved inside the asking environment: AuthService.get_current_profile passes `self.env.api_url`, "
    "ConfigManager.get_current_profile forwards it to get_profile, whose SELECT filters on both `name = ?` and `api_url = ?` bound to "
    "those parameters in that order. "
    "R3 (who may move the pointer): non-None writes of the pointer happen only inside AuthService; AuthService objects are built only in "
    "EnvService.current_auth_service (bound to get_current_environment()) or as local probes that never call a pointer-moving method and "
    "never escape; every caller of a pointer-moving AuthService method obtained its receiver from current_auth_service(). "
    "R4: `set_settings_current_environment(u)` is reached only after `u` was created or looked up successfully; delete_environment deletes "
    "the environment's profiles and, on every path after deleting the row, tests whether it was current and resets to DEFAULT_ENVIRONMENT (the branch that holds the reset must imply `stored url == deleted url`: read through and / or / not / != on the false side / bool() and through a local that holds the test result; the stored url is recognised by data flow from the SELECT of the settings row, whatever the locals are called and wherever the SQL text is kept). "
    "R5 (who may write the stored name): inventory of every SQL statement of the package that writes the settings table with key `current_profile` "
    "(keys read through literals, concatenations and module constants; a settings write whose key cannot be read is an analysis error). "
    "Statements that only DELETE are clears and allowed anywhere. A statement that *stores* a name (INSERT/REPLACE/UPDATE) must be the one inside the primitive "
    "`set_settings_current_profile`, and there every bound parameter is the primitive's own argument — so the call inventory of R3 is the complete list of name writers; "
    "any other storing statement is keyed at best on a profile name, which does not identify a profile across environments. "
    "Inside AuthService the name handed to the primitive is, on every assignment that can reach it, either a parameter of the method (explicit selection; internal `self.<method>(…)` callers are followed) "
    "or taken from a lookup/creation restricted to the service's environment (a config-manager call that receives `self.env.api_url`, or a method of the service all of whose results are such calls); "
    "a name taken from an environment-blind lookup (by id, a literal, …) is reported. "
    "R6 (the service that moves the pointer is bound to the environment that is current now): the functions whose result is computed from the stored current environment are found by data flow "
    "(the SELECT of the settings row; a function is a reader when a returned value may depend — through locals, `self` attributes, module globals — on that SELECT or on a call of a reader): today "
    "ConfigManager.get_current_environment, EnvService.get_current_environment, EnvService.current_auth_service. The methods that can change the current environment are found on the call graph "
    "(own write of the settings key, or a call of such a method; receivers are typed through the annotations the code gives — `Callable[[], ConfigManager]`, return annotations — and matched by name otherwise): today "
    "ConfigManager.set_settings_current_environment / delete_environment and EnvService.switch_environment / create_or_update_environment / delete_environment (the last only through its callee's fall-back to the default environment). "
    "A *kept value* is an attribute / module global that flows into a reader's result and is either assigned a value computed from the current environment, or assigned outside __init__ and returned as a value; or the result of a reader under "
    "functools.cache / lru_cache / cached_property. For every kept value and every changing method of its holder, no normal path entry -> change -> exit may avoid a reset: assignment of a constant / empty container or of a value not computed from "
    "an environment read, `del`, `.clear()`, `.cache_clear()`, a call of a method of the same class that always resets; a re-computation from the settings row counts only after the change. A reset under a test is not evaluated and is reported. "
    "Today nothing is kept: each reader carries an obligation `recomputed-per-call`. A kept value whose holder has no changing method cannot be dropped at all and is reported. "
    "Not decided by R6: several EnvService / ConfigManager objects in one process (a reset reaches only the object it is written on), code outside the three anchored modules that changes the environment without going through EnvService, "
    "a refill of the kept value between an early reset and the change, removal of the database file (destroy_database). "
    "Not decided: interactive CLI flows (which profile the user is offered), concurrent llamactl processes, crash between the two settings writes."
)
TRUSTED = ["CPython ast", "sqlite3 executes the literal statements as written"]
LEVEL_NOTE = "necessary conditions on the shape of the settings writers/readers; histories are covered inductively (each operation preserves the pairing)"
TECHNIQUE = "CFG must-pass pairing over settings-key writers; mini SQL reader; who-may-call inventory; call-graph inventory of environment changers x data-flow inventory of kept environment-derived values"

PKG = "llama_agents.cli"
CFGMOD = "llama_agents.cli.config._config"
ENVMOD = "llama_agents.cli.config.env_service"
AUTHMOD = "llama_agents.cli.config.auth_service"
ENV_KEY = "current_environment_api_url"
PROFILE_KEY = "current_profile"
SET_ENV = "set_settings_current_environment"
SET_PROFILE = "set_settings_current_profile"
FIXTURE = "fixtures/c37/planted.py"
NOEXC = ("exc", "cancel")
COND_FLOOR = "environment changes whose only clear is value-dependent"
FIXTURE6 = "fixtures/c37/stale_cache.py"
# obligation of R6 on the fixture -> expected verdict
FIX6_EXPECT = {
    "kept-value-dropped:ConfigManager._current@set_settings_current_environment": True,
    "kept-value-dropped:ConfigManager._current@delete_environment": True,  # reset inside the fall-back branch, after the write: on every path through the change
    "kept-value-dropped:EnvService._auth_service@switch_environment": True,
    "kept-value-dropped:EnvService._auth_service@create_or_update_environment": False,  # reset under `if env.requires_auth`
    "kept-value-dropped:EnvService._auth_service@delete_environment": False,  # the seed's form: the change happens in the callee
    "kept-value-dropped:EnvService.get_current_environment()@switch_environment": False,  # lru_cache never cleared
    "kept-value-dropped:EnvService.get_current_environment()@create_or_update_environment": False,
    "kept-value-dropped:EnvService.get_current_environment()@delete_environment": False,
}


# ------------------------------------------------------------------------------ mini SQL reader
class Sql:
    def __init__(self, text: str):
        self.text = " ".join(text.split())
        low = self.text.lower()
        toks = re.findall(r"'[^']*'|[a-z_][a-z_0-9]*|\?|[=(),*]|\S", low)
        self.toks = toks
        self.kind = toks[0] if toks else ""
        if self.kind == "insert" and "replace" in toks[:4]:
            self.kind = "insert"
        self.table = ""
        for kw in ("into", "update", "from"):
            if kw in toks:
                i = toks.index(kw)
                if kw == "update" and i != 0:
                    continue
                if i + 1 < len(toks):
                    self.table = toks[i + 1]
                    break
        self.quoted = [t[1:-1] for t in toks if t.startswith("'")]
        self.is_write = self.kind in ("insert", "replace", "update", "delete")

    def where(self) -> list[tuple[str, str]]:
        """[(column, rhs token)] of the top-level AND-conjuncts `col = rhs` of the WHERE clause."""
        if "where" not in self.toks:
            return []
        rest = self.toks[self.toks.index("where") + 1:]
        for stop in ("order", "limit", "group"):
            if stop in rest:
                rest = rest[: rest.index(stop)]
        out = []
        cur: list[str] = []
        for t in rest + ["and"]:
            if t == "and":
                if len(cur) == 3 and cur[1] == "=":
                    out.append((cur[0], cur[2]))
                else:
                    out.append(("?complex", " ".join(cur)))
                cur = []
            else:
                cur.append(t)
        return out

    def conjuncts(self) -> list[list[str]]:
        """Top-level AND-conjuncts (token lists) of the statement's own WHERE clause; parentheses (sub-selects, IN lists)
        are kept inside their conjunct.  [] when there is no WHERE."""
        if "where" not in self.toks:
            return []
        out: list[list[str]] = []
        cur: list[str] = []
        depth = 0
        for t in self.toks[self.toks.index("where") + 1:]:
            if t == "(":
                depth += 1
            elif t == ")":
                depth -= 1
            if depth == 0 and t in ("order", "limit", "group", "returning", ";"):
                break
            if depth == 0 and t == "and":
                out.append(cur)
                cur = []
            else:
                cur.append(t)
        out.append(cur)
        return out

    def placeholders_before_where(self) -> int:
        if "where" not in self.toks:
            return self.toks.count("?")
        return self.toks[: self.toks.index("where")].count("?")


def _scope_root(node: ast.AST) -> ast.AST:
    root = node
    while parent(root) is not None:
        root = parent(root)
    return root


def _scope_stores(body: list[ast.stmt]) -> dict[str, list[ast.AST | None]]:
    """name -> the values it is bound to by the statements of one scope (module body / class body), nested blocks (if / try /
    with / loops) included, function and class bodies excluded.  A binding whose value cannot be named (loop target, import,
    augmented assignment, unpacking, def / class of that name) is recorded as None."""
    seen: dict[str, list[ast.AST | None]] = {}
    stack: list[ast.AST] = list(body)
    while stack:
        st = stack.pop()
        if isinstance(st, FuncNode + (ast.ClassDef,)):
            seen.setdefault(st.name, []).append(None)
            continue
        if isinstance(st, ast.Assign):
            for t in st.targets:
                if isinstance(t, ast.Name):
                    seen.setdefault(t.id, []).append(st.value)
                else:
                    for n in ast.walk(t):
                        if isinstance(n, ast.Name) and isinstance(n.ctx, ast.Store):
                            seen.setdefault(n.id, []).append(None)
            continue
        if isinstance(st, ast.AnnAssign) and isinstance(st.target, ast.Name):
            if st.value is not None:
                seen.setdefault(st.target.id, []).append(st.value)
            continue
        if isinstance(st, (ast.Import, ast.ImportFrom)):
            for a in st.names:
                seen.setdefault((a.asname or a.name).split(".")[0], []).append(None)
            continue
        for n in ast.iter_child_nodes(st):
            if isinstance(n, ast.Name) and isinstance(n.ctx, (ast.Store, ast.Del)):
                seen.setdefault(n.id, []).append(None)
            elif isinstance(n, ast.AST):
                stack.append(n)
    return seen


def _module_consts(node: ast.AST) -> dict[str, ast.AST]:
    """Module-level names of the module that contains `node` that are bound exactly once (by a plain assignment at module
    level, possibly annotated) and are never rebound from inside a function through a `global` declaration: name -> value
    expression.  Whether the value is a string the reader can read off is const_text's business (a literal, implicit or
    explicit concatenation, another constant)."""
    root = _scope_root(node)
    cache = root.__dict__.get("_c37_consts")
    if cache is None:
        rebound = {n for g in ast.walk(root) if isinstance(g, ast.Global) for n in g.names}
        cache = {k: v[0] for k, v in _scope_stores(getattr(root, "body", [])).items() if len(v) == 1 and v[0] is not None and k not in rebound}
        root.__dict__["_c37_consts"] = cache
    return cache


def _class_const(e: ast.Attribute) -> ast.AST | None:
    """`self.X` / `cls.X` / `K.X` where X is bound exactly once in the body of the class (the enclosing one for self / cls, the
    module-level class K otherwise) and no statement of the module stores or deletes an attribute named X: the value expression."""
    if not isinstance(e.value, ast.Name) or not isinstance(e.ctx, ast.Load):
        return None
    root = _scope_root(e)
    if root is e:
        return None
    if e.value.id in ("self", "cls"):
        k = enclosing_class(e)
    else:
        k = next((st for st in getattr(root, "body", []) if isinstance(st, ast.ClassDef) and st.name == e.value.id), None)
    if k is None:
        return None
    vals = _scope_stores(k.body).get(e.attr)
    if not vals or len(vals) != 1 or vals[0] is None:
        return None
    if any(isinstance(o, ast.ClassDef) and o is not k and e.attr in _scope_stores(o.body) for o in ast.walk(root)):
        return None  # a subclass / sibling class of the module binds the same attribute: which one `self` sees is not read off
    if any(isinstance(a, ast.Attribute) and a.attr == e.attr and isinstance(a.ctx, (ast.Store, ast.Del)) for a in ast.walk(root)):
        return None
    if any(isinstance(c, ast.Call) and isinstance(c.func, ast.Name) and c.func.id == "setattr" for c in ast.walk(root)):
        return None
    return vals[0]


def const_text(e: ast.AST, depth: int = 6) -> str | None:
    """The string an expression always evaluates to: a literal, a concatenation / f-string of such, a local bound to
    one by a straight-line assignment, a module-level constant (bound once, never rebound through `global`; its value is
    read the same way, so a constant may be assembled from other constants), or a class-level constant read as
    `self.X` / `cls.X` / `K.X`.  None when that cannot be read off."""
    if depth <= 0:
        return None
    if isinstance(e, ast.Constant):
        return e.value if isinstance(e.value, str) else None
    if isinstance(e, ast.BinOp) and isinstance(e.op, ast.Add):
        l, r = const_text(e.left, depth - 1), const_text(e.right, depth - 1)
        return None if l is None or r is None else l + r
    if isinstance(e, ast.JoinedStr):
        parts = []
        for v in e.values:
            if isinstance(v, ast.FormattedValue):
                if v.format_spec is not None or v.conversion != -1:
                    return None
                v = v.value
            t = const_text(v, depth - 1)
            if t is None:
                return None
            parts.append(t)
        return "".join(parts)
    if isinstance(e, ast.Name) and isinstance(e.ctx, ast.Load) and parent(e) is not None:
        fn = enclosing_function(e)
        local = fn is not None and any((isinstance(n, ast.Name) and n.id == e.id and isinstance(n.ctx, ast.Store)) or (isinstance(n, ast.arg) and n.arg == e.id) for n in ast.walk(fn))
        if local:
            d = reaching_def(e.id, e)
            return const_text(d, depth - 1) if d is not None else None
        v = _module_consts(e).get(e.id)
        return const_text(v, depth - 1) if v is not None else None
    if isinstance(e, ast.Attribute):
        v = _class_const(e)
        return const_text(v, depth - 1) if v is not None else None
    return None


def sql_of(call: ast.Call) -> Sql | None:
    """The SQL text of an `X.execute(<text>, params)` call (literal, or assembled from literals and string constants)."""
    if not (isinstance(call.func, ast.Attribute) and call.func.attr in ("execute", "executemany", "executescript")):
        return None
    if not call.args:
        return None
    a = call.args[0]
    txt = const_text(a)
    if txt is not None:
        return Sql(txt)
    if isinstance(a, ast.JoinedStr):
        raise AnchorError(f"SQL built with an f-string over non-constant parts at line {call.lineno}: the statement reader needs constant SQL")
    return None


def sql_params(call: ast.Call) -> ast.AST | None:
    """The parameter tuple of an execute call, through a straight-line local."""
    prm = call.args[1] if len(call.args) > 1 else kwarg(call, "parameters")
    if isinstance(prm, ast.Name):
        prm = expand(prm, enclosing_stmt(call), depth=2)
    return prm


def settings_writes(fn: ast.AST) -> list[tuple[ast.Call, Sql]]:
    out = []
    for c in ast.walk(fn):
        if isinstance(c, ast.Call):
            s = sql_of(c)
            if s is not None and s.is_write and s.table == "settings":
                if not any(k in (ENV_KEY, PROFILE_KEY) for k in s.quoted):
                    if s.kind == "delete" and "where" not in s.toks:
                        out.append((c, s))  # wipes every key, including both pointers
                        continue
                    raise AnchorError(f"settings write with a non-literal key at line {c.lineno}: cannot tell which pointer it moves")
                out.append((c, s))
    return out


def is_none(e: ast.AST | None) -> bool:
    return isinstance(e, ast.Constant) and e.value is None


# ------------------------------------------------------------------------------ R1
def env_change_sites(fn: ast.AST, *, primitive: bool) -> list[tuple[ast.AST, str]]:
    sites: list[tuple[ast.AST, str]] = []
    for c in calls_named(fn, SET_ENV):
        sites.append((c, "call"))
    if not primitive:
        for c, s in settings_writes(fn):
            if ENV_KEY in s.quoted or (s.kind == "delete" and "where" not in s.toks):
                sites.append((c, "sql"))
    return sites


def clear_scope(s: Sql) -> tuple[str, str]:
    """How much a `DELETE FROM settings …` that mentions the key current_profile removes:
    ('full', '')            the row of the key whatever name it holds (no WHERE at all, or every conjunct only selects
                            the row by its key: `key = 'current_profile'` / `key IN (… 'current_profile' …)`);
    ('conditional', text)   some conjunct restricts the delete by anything else (the stored `value`, a sub-select over
                            another table, a bound parameter): for some stored names the row survives.
    A WHERE clause that is neither (an OR, a key compared with something that is not a literal) is an analysis error."""
    if s.kind != "delete" or s.table != "settings":
        raise AnchorError(f"C37.R1: `{s.text}` is not a DELETE on settings")
    extra = []
    selects_key = "where" not in s.toks
    for cj in s.conjuncts():
        while len(cj) >= 2 and cj[0] == "(" and cj[-1] == ")" and "(" not in cj[1:-1]:
            cj = cj[1:-1]
        q = f"'{PROFILE_KEY}'"
        if len(cj) == 3 and cj[1] == "=" and sorted((cj[0], cj[2]), key=lambda t: t.startswith("'")) == ["key", q]:
            selects_key = True
        elif len(cj) >= 5 and cj[0] == "key" and cj[1] == "in" and cj[2] == "(" and cj[-1] == ")" and all(t == "," or t.startswith("'") for t in cj[3:-1]) and q in cj[3:-1]:
            selects_key = True
        elif "or" in cj or not cj:
            raise AnchorError(f"C37.R1: cannot read the WHERE clause of `{s.text}` (which stored names survive the delete?)")
        else:
            extra.append(" ".join(cj))
    if not selects_key:
        raise AnchorError(f"C37.R1: `{s.text}` mentions {PROFILE_KEY} but does not select the row by its key")
    return ("conditional", " AND ".join(extra)) if extra else ("full", "")


def pointer_deletes(fn: ast.AST) -> list[tuple[ast.Call, Sql, str, str]]:
    """(call, statement, scope, restricting conjuncts) of every SQL DELETE in fn that removes (or may remove) the stored name."""
    out = []
    for c, s in settings_writes(fn):
        if s.kind == "delete" and (PROFILE_KEY in s.quoted or "where" not in s.toks):
            scope, extra = clear_scope(s)
            out.append((c, s, scope, extra))
    return out


def profile_clears(fn: ast.AST) -> list[ast.AST]:
    """Statements after which no active-profile name is stored, whatever was stored before: `set_settings_current_profile(None)`
    and SQL deletes of the row that are not restricted by the stored value or anything else (clear_scope 'full')."""
    out: list[ast.AST] = []
    for c in calls_named(fn, SET_PROFILE):
        a = kwarg(c, "name", 0)
        if is_none(a):
            out.append(c)
    for c, _s, scope, _x in pointer_deletes(fn):
        if scope == "full":
            out.append(c)
    return out


def unpaired(fn: ast.AST, site: ast.AST, clears: list[ast.AST]) -> list[str] | None:
    """A normal path entry -> site -> exit avoiding every clear, or None."""
    cfg = CFG(fn)
    snodes = cfg.node_of_containing(site)
    if not snodes:
        raise AnchorError(f"site at line {site.lineno} has no CFG node")
    cnodes = [n for c in clears for n in cfg.node_of_containing(c)]
    for sn in snodes:
        if sn in cnodes:
            continue
        before = cfg.reach([cfg.entry], blocked=cnodes, labels_excluded=NOEXC)
        after = cfg.reach([sn], blocked=cnodes, labels_excluded=NOEXC, include_starts=False)
        if sn in before and cfg.exit in after:
            p1 = cfg.path(cfg.entry, sn, blocked=cnodes, labels_excluded=NOEXC)
            p2 = cfg.path(sn, cfg.exit, blocked=cnodes, labels_excluded=NOEXC)
            return cfg.describe_path(p1 + p2[1:])
    return None


# ------------------------------------------------------------------------------ R2 helpers
def check_lookup_sql(fn: ast.AST, name_param: str, env_param: str) -> tuple[bool, str, ast.AST]:
    """get_profile: SELECT on profiles filtered by name and api_url bound to the two parameters."""
    for c in ast.walk(fn):
        if isinstance(c, ast.Call):
            s = sql_of(c)
            if s is None or s.kind != "select" or s.table != "profiles":
                continue
            conj = s.where()
            cols = [col for col, _r in conj]
            if "name" not in cols:
                continue
            if "api_url" not in cols:
                return False, f"profile lookup filters on {cols} only — the stored name is resolved across environments", c
            params = sql_params(c)
            if not isinstance(params, (ast.Tuple, ast.List)):
                raise AnchorError(f"parameters of the profile lookup at line {c.lineno} are not a literal tuple")
            skip = s.placeholders_before_where()
            bound = {}
            i = skip
            for col, rhs in conj:
                if rhs == "?":
                    if i >= len(params.elts):
                        raise AnchorError("fewer parameters than placeholders in the profile lookup")
                    bound[col] = dotted(params.elts[i])
                    i += 1
            ok = bound.get("name") == name_param and bound.get("api_url") == env_param
            return ok, "" if ok else f"placeholders are bound as {bound}, expected name<-{name_param}, api_url<-{env_param}", c
    raise AnchorError("no SELECT on profiles filtered by name found in get_profile")


def param_names(fn: ast.AST) -> list[str]:
    return [a.arg for a in fn.args.posonlyargs + fn.args.args if a.arg not in ("self", "cls")]


# ------------------------------------------------------------------------------ R3 helpers
def pointer_movers(cls: ast.ClassDef) -> set[str]:
    """Methods of AuthService that (transitively through self.<method>()) write a non-None profile pointer."""
    methods = {n.name: n for n in cls.body if isinstance(n, FuncNode)}
    direct = set()
    for name, fn in methods.items():
        for c in calls_named(fn, SET_PROFILE, shallow=False):
            if not is_none(kwarg(c, "name", 0)):
                direct.add(name)
    changed = True
    while changed:
        changed = False
        for name, fn in methods.items():
            if name in direct:
                continue
            for c in ast.walk(fn):
                if isinstance(c, ast.Call) and isinstance(c.func, ast.Attribute) and dotted(c.func.value) == "self" and c.func.attr in direct:
                    direct.add(name)
                    changed = True
                    break
    return direct


def receiver_origin(call: ast.Call, fn: ast.AST, module_tree: ast.AST, depth: int = 0) -> tuple[str, str]:
    """('current' | 'foreign' | 'param-unused' | 'unknown', detail) for the receiver of an AuthService method call."""
    recv = call.func.value
    if isinstance(recv, ast.Call) and last(call_name(recv)) == "current_auth_service":
        return "current", "direct"
    if isinstance(recv, ast.Name):
        d = expand(recv, enclosing_stmt(call), depth=2)
        if isinstance(d, ast.Call) and last(call_name(d)) == "current_auth_service":
            return "current", "local"
        if isinstance(d, ast.Call) and last(call_name(d)) == "AuthService":
            return "foreign", "constructed here"
        params = [a.arg for a in fn.args.posonlyargs + fn.args.args + fn.args.kwonlyargs]
        if isinstance(d, ast.Name) and d.id in params and depth < 2:
            idx = params.index(d.id)
            sites = [c for c in ast.walk(module_tree) if isinstance(c, ast.Call) and isinstance(c.func, ast.Name) and c.func.id == fn.name]
            if not sites:
                return "param-unused", f"{fn.name} has no caller in its module"
            for c in sites:
                arg = kwarg(c, d.id, idx)
                if arg is None:
                    return "unknown", f"caller at line {c.lineno} passes no `{d.id}`"
                fake = ast.Call(func=ast.Attribute(value=arg, attr="x", ctx=ast.Load()), args=[], keywords=[])
                ast.copy_location(fake, c)
                fake._parent = parent(c)  # type: ignore[attr-defined]
                arg_parent = parent(arg)
                kind, det = receiver_origin(fake, enclosing_function(c) or fn, module_tree, depth + 1)
                arg._parent = arg_parent  # type: ignore[attr-defined]
                if kind != "current":
                    return kind, det
            return "current", "through parameter"
    if isinstance(recv, ast.Attribute) and dotted(recv) == "self":
        return "current", "self"
    return "unknown", ast.unparse(recv)


# ------------------------------------------------------------------------------ R5 helpers
def pointer_stores(fn: ast.AST) -> list[tuple[ast.Call, Sql]]:
    """SQL statements directly in fn that store a value under the key current_profile (every write that is not a DELETE)."""
    return [(c, s) for c, s in settings_writes(fn) if PROFILE_KEY in s.quoted and s.kind != "delete" and enclosing_function(c) is fn]


def describe_store(s: Sql) -> str:
    cols = [col for col, _r in s.where() if col != "key"]
    if "value" in cols:
        return ("it rewrites the stored name wherever it equals a given name; a bare name does not identify a profile (same-named profiles of other environments), "
                "so an operation on a profile of another environment moves the pointer of the current one")
    return "it stores a name without passing the primitive, outside the inventory of pointer writers bound to the current environment"


def env_bound_methods(cls: ast.ClassDef) -> set[str]:
    """Methods of AuthService every result of which is a config-manager call restricted to self.env.api_url."""
    out = set()
    for fn in cls.body:
        if not isinstance(fn, FuncNode):
            continue
        rets = [r for r in ast.walk(fn) if isinstance(r, ast.Return) and r.value is not None and not is_none(r.value) and enclosing_function(r) is fn]
        if rets and all(_env_bound_call(expand(r.value, r), set()) for r in rets):
            out.add(fn.name)
    return out


def _env_bound_call(c: ast.AST, bound: set[str]) -> bool:
    if not (isinstance(c, ast.Call) and isinstance(c.func, ast.Attribute)):
        return False
    recv = dotted(c.func.value)
    if recv == "self":
        return c.func.attr in bound
    if recv is not None and last(recv) in ("config_manager",) and recv.startswith("self"):
        return any(dotted(a) == "self.env.api_url" for a in list(c.args) + [k.value for k in c.keywords])
    return False


def name_sources(e: ast.AST, fn: ast.AST, bound: set[str], seen: frozenset = frozenset()) -> list[tuple[str, str]]:
    """Flow-insensitive provenance of a profile name inside method fn: [(kind, text)] with kind in
    'param' (a parameter of fn), 'env' (result of an environment-restricted lookup/creation), 'blind' (anything else that
    can be named: an environment-blind call, a literal).  Unreadable binding forms raise AnchorError."""
    if isinstance(e, (ast.Attribute, ast.Subscript, ast.Starred)):
        return name_sources(e.value, fn, bound, seen)
    if isinstance(e, ast.Await):
        return name_sources(e.value, fn, bound, seen)
    if isinstance(e, ast.IfExp):
        return name_sources(e.body, fn, bound, seen) + name_sources(e.orelse, fn, bound, seen)
    if isinstance(e, ast.BoolOp):
        return [x for v in e.values for x in name_sources(v, fn, bound, seen)]
    if isinstance(e, ast.NamedExpr):
        return name_sources(e.value, fn, bound, seen)
    if isinstance(e, ast.Constant):
        return [] if e.value is None else [("blind", f"the literal {e.value!r}")]
    if isinstance(e, ast.Call):
        if _env_bound_call(e, bound):
            return [("env", ast.unparse(e.func))]
        return [("blind", f"`{ast.unparse(e.func)}(…)`, which is not restricted to the service's environment")]
    if isinstance(e, ast.Name):
        if e.id in seen:
            return []
        seen = seen | {e.id}
        out: list[tuple[str, str]] = []
        params = [a.arg for a in fn.args.posonlyargs + fn.args.args + fn.args.kwonlyargs]
        found = False
        for st in ast.walk(fn):
            if enclosing_function(st) is not fn and st is not fn:
                continue
            if isinstance(st, ast.Assign):
                for t in st.targets:
                    if isinstance(t, ast.Name) and t.id == e.id:
                        found = True
                        out += name_sources(st.value, fn, bound, seen)
                    elif any(isinstance(n, ast.Name) and n.id == e.id for n in ast.walk(t)) and not isinstance(t, (ast.Attribute, ast.Subscript)):
                        raise AnchorError(f"C37.R5: `{e.id}` is bound by unpacking at line {st.lineno}")
            elif isinstance(st, ast.AnnAssign) and isinstance(st.target, ast.Name) and st.target.id == e.id and st.value is not None:
                found = True
                out += name_sources(st.value, fn, bound, seen)
            elif isinstance(st, (ast.For, ast.AsyncFor)) and any(isinstance(n, ast.Name) and n.id == e.id for n in ast.walk(st.target)):
                found = True
                out += name_sources(st.iter, fn, bound, seen)
            elif isinstance(st, ast.comprehension) and any(isinstance(n, ast.Name) and n.id == e.id for n in ast.walk(st.target)):
                found = True
                out += name_sources(st.iter, fn, bound, seen)
            elif isinstance(st, ast.NamedExpr) and st.target.id == e.id:
                found = True
                out += name_sources(st.value, fn, bound, seen)
            elif isinstance(st, (ast.With, ast.AsyncWith)) and any(i.optional_vars is not None and any(isinstance(n, ast.Name) and n.id == e.id for n in ast.walk(i.optional_vars)) for i in st.items):
                raise AnchorError(f"C37.R5: `{e.id}` is bound by a with statement at line {st.lineno}")
        if e.id in params:
            out.append(("param", e.id))
        elif not found:
            raise AnchorError(f"C37.R5: cannot tell where the name `{e.id}` written to the profile pointer comes from")
        return out
    raise AnchorError(f"C37.R5: unreadable source `{ast.unparse(e)}` of a name written to the profile pointer")


# ------------------------------------------------------------------------------ R4 helpers
def implied_equalities(test: ast.AST, at: ast.AST, positive: bool, depth: int = 6) -> list[tuple[ast.AST, ast.AST, ast.AST]]:
    """(left, right, statement) of every comparison `left == right` that necessarily held when `test`, evaluated at statement
    `at`, came out `positive`: operands of `and` on the true side, of `or` on the false side, `not`, `!=` on the false side,
    `bool(x)`, and a local that holds the result of a test (`t = a and b == c` … `if t:`) followed to its straight-line
    definition — the comparison is then reported together with the statement that evaluated it, where its operands have to be read."""
    if depth <= 0:
        return []
    if isinstance(test, ast.BoolOp):
        if isinstance(test.op, ast.And) == positive:
            return [x for v in test.values for x in implied_equalities(v, at, positive, depth)]
        return []
    if isinstance(test, ast.UnaryOp) and isinstance(test.op, ast.Not):
        return implied_equalities(test.operand, at, not positive, depth)
    if isinstance(test, ast.Compare) and len(test.ops) == 1:
        if isinstance(test.ops[0], ast.Eq if positive else ast.NotEq):
            return [(test.left, test.comparators[0], at)]
        return []
    if isinstance(test, ast.NamedExpr):
        return implied_equalities(test.value, at, positive, depth)
    if isinstance(test, ast.Call) and isinstance(test.func, ast.Name) and test.func.id == "bool" and len(test.args) == 1 and not test.keywords:
        return implied_equalities(test.args[0], at, positive, depth)
    if isinstance(test, ast.Name) and isinstance(test.ctx, ast.Load):
        d = reaching_def(test.id, at)
        if d is not None and parent(d) is not None:
            return implied_equalities(d, enclosing_stmt(d) or at, positive, depth - 1)
    return []


def is_name_of(e: ast.AST, at: ast.AST, name: str, depth: int = 3) -> bool:
    """e is the variable `name`, possibly through straight-line local aliases."""
    if dotted(e) == name:
        return True
    if isinstance(e, ast.Name) and depth > 0:
        d = reaching_def(e.id, at)
        return d is not None and parent(d) is not None and is_name_of(d, enclosing_stmt(d) or at, name, depth - 1)
    return False


def read_from_env_row(e: ast.AST, at: ast.AST, depth: int = 6) -> bool:
    """The value of e (read at statement `at`) is taken from the SELECT of the settings row `current_environment_api_url`:
    some call inside e, or inside the straight-line definition of a local e mentions, executes that statement."""
    if depth <= 0:
        return False
    for n in ast.walk(e):
        if isinstance(n, ast.Call):
            s = sql_of(n)
            if s is not None and s.kind == "select" and s.table == "settings" and ENV_KEY in s.quoted:
                return True
        elif isinstance(n, ast.Name) and isinstance(n.ctx, ast.Load):
            d = reaching_def(n.id, at)
            if d is not None and parent(d) is not None and read_from_env_row(d, enclosing_stmt(d) or at, depth - 1):
                return True
    return False


# ------------------------------------------------------------------------------ the rules on a set of modules
def eval_rules(mods: dict[str, tuple[object, ast.AST]], all_mods: list[tuple[object, ast.AST]]):
    """mods: role -> (module-like, tree) for 'config', 'env', 'auth'; all_mods: every module of the package.
    Yields ('ob', rule, instance, desc, ok, module, node, fn, reason, path) and ('floor', rule, what, n)."""
    cm, ctree = mods["config"]
    em, etree = mods["env"]
    am, atree = mods["auth"]

    def cls_of(tree: ast.AST, name: str) -> ast.ClassDef:
        for n in ast.walk(tree):
            if isinstance(n, ast.ClassDef) and n.name == name:
                return n
        raise AnchorError(f"class `{name}` not found")

    def method(c: ast.ClassDef, name: str) -> ast.AST:
        for n in c.body:
            if isinstance(n, FuncNode) and n.name == name:
                return n
        raise AnchorError(f"method `{c.name}.{name}` not found")

    CM = cls_of(ctree, "ConfigManager")
    ES = cls_of(etree, "EnvService")
    AS = cls_of(atree, "AuthService")
    prim_env = method(CM, SET_ENV)
    prim_prof = method(CM, SET_PROFILE)
    # the primitives really are the writers of the two keys
    if not any(ENV_KEY in s.quoted for _c, s in settings_writes(prim_env)):
        raise AnchorError(f"`{SET_ENV}` no longer writes the key {ENV_KEY}")
    if not any(PROFILE_KEY in s.quoted and s.kind == "delete" for _c, s in settings_writes(prim_prof)):
        raise AnchorError(f"`{SET_PROFILE}` no longer deletes the key {PROFILE_KEY} for None")

    # ---------------------------------------------------------------- R1
    # the clear every paired site relies on: the primitive called with None removes the row whatever name it holds
    n_del = 0
    for c, s, scope, extra in pointer_deletes(prim_prof):
        n_del += 1
        yield ("ob", "C37.R1", "primitive-clear-unconditional", f"`{SET_PROFILE}(None)` deletes the stored active-profile name whatever it is (the DELETE selects the row by its key only)",
               scope == "full", cm, c, prim_prof,
               f"the clear is restricted by `{extra}`: for a stored name outside that restriction `{SET_PROFILE}(None)` leaves the name in place, so every environment change that relies on it keeps the old name", [])
    nsites = n_cond = 0
    for m, tree in all_mods:
        for fn in [n for n in ast.walk(tree) if isinstance(n, FuncNode)]:
            sites = env_change_sites(fn, primitive=fn is prim_env)
            sites = [(s, k) for s, k in sites if enclosing_function(s) is fn]
            if not sites:
                continue
            clears = [c for c in profile_clears(fn) if enclosing_function(c) is fn]
            dels = [d for d in pointer_deletes(fn) if enclosing_function(d[0]) is fn] if fn is not prim_prof else []
            n_del += len(dels)
            partial = [(c, extra) for c, _s, scope, extra in dels if scope == "conditional"]
            for i, (site, kind) in enumerate(sites):
                nsites += 1
                path = unpaired(fn, site, clears)
                why = "the current environment changes while settings.current_profile keeps a name chosen in the previous environment; a same-named profile of the new environment becomes active without having been picked"
                if path is not None and partial:
                    n_cond += 1
                    why = ("the only clear on this path is " + "; ".join(f"the DELETE at line {c.lineno} restricted by `{x}`" for c, x in partial) + ": it removes the stored name only when that restriction holds "
                           "(a stale or dangling name, e.g. of a renamed or already deleted profile, survives). The clear must not depend on the stored value or on the profiles table. " + why)
                yield ("ob", "C37.R1", f"env-change:{kind}" + (f"#{i}" if len(sites) > 1 else ""),
                       f"the change of the current environment ({kind}) is paired with an unconditional clear of the profile pointer on every normal path",
                       path is None, m, site, fn, why, path or [])
    yield ("floor", "C37.R1", "sites that change the current environment", nsites)
    yield ("floor", "C37.R1", "SQL deletes of the key current_profile read and classified (full / value-dependent)", n_del)
    yield ("floor", "C37.R1", COND_FLOOR, n_cond)

    # ---------------------------------------------------------------- R2
    a_get = method(AS, "get_current_profile")
    calls = [c for c in calls_named(a_get, "get_current_profile") if isinstance(c.func, ast.Attribute) and dotted(c.func.value) != "self"]
    if not calls:
        raise AnchorError("AuthService.get_current_profile no longer delegates to the config manager")
    for c in calls:
        arg = kwarg(c, "env_url", 0)
        d = dotted(expand(arg, enclosing_stmt(c))) if arg is not None else None
        ok = d == "self.env.api_url"
        yield ("ob", "C37.R2", "auth-service-passes-own-env", "AuthService.get_current_profile resolves the stored name in its own environment (self.env.api_url)",
               ok, am, c, a_get, f"environment argument is `{d}`", [])
    c_get = method(CM, "get_current_profile")
    env_p = param_names(c_get)
    if not env_p:
        raise AnchorError("ConfigManager.get_current_profile takes no environment parameter")
    rets = [r for r in ast.walk(c_get) if isinstance(r, ast.Return) and r.value is not None and not is_none(r.value)]
    if not rets:
        raise AnchorError("ConfigManager.get_current_profile returns nothing")
    for r in rets:
        v = expand(r.value, r)
        ok = isinstance(v, ast.Call) and last(call_name(v)) == "get_profile"
        reason = "the returned profile does not come from get_profile(name, env)"
        if ok:
            a_env = kwarg(v, "env_url", 1)
            a_name = kwarg(v, "name", 0)
            a_name_x = expand(a_name, r) if a_name is not None else None
            ok = dotted(a_env) == env_p[0] and isinstance(a_name_x, ast.Call) and last(call_name(a_name_x)) == "get_settings_current_profile_name"
            reason = f"get_profile is called with name=`{ast.unparse(a_name_x) if a_name_x is not None else None}`, env=`{dotted(a_env)}`"
        yield ("ob", "C37.R2", "manager-resolves-in-env", "ConfigManager.get_current_profile looks the stored name up inside the environment it was given", ok, cm, r, c_get, reason, [])
    g = method(CM, "get_profile")
    gp = param_names(g)
    if len(gp) < 2:
        raise AnchorError("ConfigManager.get_profile(name, env_url) signature changed")
    ok, reason, node = check_lookup_sql(g, gp[0], gp[1])
    yield ("ob", "C37.R2", "profile-lookup-filters-env", "get_profile selects by name AND api_url, bound to its parameters", ok, cm, node, g, reason, [])

    # ---------------------------------------------------------------- R3
    movers = pointer_movers(AS)
    if not movers:
        raise AnchorError("no AuthService method moves the profile pointer")
    n_writes = 0
    for m, tree in all_mods:
        for c in calls_named(tree, SET_PROFILE, shallow=False):
            if not isinstance(c.func, ast.Attribute):
                continue
            if is_none(kwarg(c, "name", 0)):
                continue
            n_writes += 1
            fn = enclosing_function(c)
            k = enclosing_class(c)
            ok = k is not None and k.name == "AuthService" and m is am
            yield ("ob", "C37.R3", "pointer-write-owner", "a non-None write of settings.current_profile happens only inside AuthService (bound to one environment)", ok, m, c, fn,
                   f"pointer written from {qualname_of(fn) if fn is not None else '<module>'}", [])
    yield ("floor", "C37.R3", "non-None writes of the profile pointer", n_writes)
    n_ctor = 0
    for m, tree in all_mods:
        for c in calls_named(tree, "AuthService", shallow=False):
            if not isinstance(c.func, ast.Name):
                continue
            fn = enclosing_function(c)
            if fn is None:
                continue
            n_ctor += 1
            env_arg = kwarg(c, "env", 1)
            st = enclosing_stmt(c)
            env_x = expand(env_arg, st) if env_arg is not None else None
            bound_current = isinstance(env_x, ast.Call) and last(call_name(env_x)) == "get_current_environment"
            if bound_current:
                yield ("ob", "C37.R3", "service-bound-to-current", "an AuthService handed out is bound to get_current_environment()", True, m, c, fn, "", [])
                continue
            # a probe: local variable, never escapes, never calls a mover
            ok, reason = True, ""
            tgt = st.targets[0].id if isinstance(st, ast.Assign) and len(st.targets) == 1 and isinstance(st.targets[0], ast.Name) and st.value is c else None
            if tgt is None:
                ok, reason = False, "an AuthService for a non-current environment is not kept in a plain local (it is returned, passed on or stored)"
            else:
                for n in ast.walk(fn):
                    if isinstance(n, ast.Name) and n.id == tgt and isinstance(n.ctx, ast.Load):
                        p = parent(n)
                        if isinstance(p, ast.Attribute) and isinstance(parent(p), ast.Call) and parent(p).func is p:
                            if p.attr in movers:
                                ok, reason = False, f"`{tgt}.{p.attr}()` moves the profile pointer from a service bound to a non-current environment"
                        elif isinstance(p, ast.Attribute):
                            pass  # attribute read
                        else:
                            ok, reason = False, f"`{tgt}` (a service for a non-current environment) escapes at line {n.lineno}"
            yield ("ob", "C37.R3", f"probe-service:{qualname_of(fn).split('.')[-1]}", "an AuthService built for probing never moves the profile pointer and never escapes", ok, m, c, fn, reason, [])
    yield ("floor", "C37.R3", "AuthService constructions", n_ctor)
    n_callers = 0
    seen_inst: dict = {}
    for m, tree in all_mods:
        for c in ast.walk(tree):
            if isinstance(c, ast.Call) and isinstance(c.func, ast.Attribute) and c.func.attr in movers:
                fn = enclosing_function(c)
                if fn is None:
                    continue
                k = enclosing_class(c)
                if k is AS:
                    continue
                # only receivers that can be an AuthService: skip obviously unrelated objects is impossible by name;
                # mover names are specific (set_current_profile, select_any_profile, create_profile_from_token, ...)
                n_callers += 1
                kind, det = receiver_origin(c, fn, tree)
                if kind == "unknown":
                    raise AnchorError(f"C37.R3: cannot tell where the receiver `{det}` of `{c.func.attr}` at {getattr(m, 'rel', '?')}:{c.lineno} comes from")
                ikey = (id(fn), c.func.attr)
                seen_inst[ikey] = seen_inst.get(ikey, 0) + 1
                inst = f"mover-caller:{c.func.attr}" + (f"#{seen_inst[ikey]}" if seen_inst[ikey] > 1 else "")
                yield ("ob", "C37.R3", inst, "a pointer-moving AuthService method is called on a service obtained from current_auth_service()",
                       kind in ("current", "param-unused"), m, c, fn, f"receiver is {kind} ({det})", [])
    yield ("floor", "C37.R3", "callers of pointer-moving AuthService methods", n_callers)

    # ---------------------------------------------------------------- R4
    n_known = 0
    for m, tree in all_mods:
        for fn in [n for n in ast.walk(tree) if isinstance(n, FuncNode)]:
            for c in calls_named(fn, SET_ENV):
                if enclosing_function(c) is not fn:
                    continue
                n_known += 1
                url = kwarg(c, "api_url", 0)
                utxt = ast.unparse(url) if url is not None else "?"
                cfg = CFG(fn)
                witnesses = []
                for w in ast.walk(fn):
                    if isinstance(w, ast.Call) and last(call_name(w)) == "create_or_update_environment" and w.args and ast.unparse(w.args[0]) == utxt:
                        witnesses += cfg.node_of_containing(w)
                # lookup guard: `x = get_environment(u)` followed by `if not x: raise`
                for t in cfg.nodes:
                    if t.kind == "test" and isinstance(t.ast, ast.If):
                        test = t.ast.test
                        neg = isinstance(test, ast.UnaryOp) and isinstance(test.op, ast.Not)
                        name = test.operand if neg else test
                        if isinstance(name, ast.Compare) and len(name.ops) == 1 and isinstance(name.ops[0], (ast.Is, ast.IsNot)) and is_none(name.comparators[0]):
                            neg = isinstance(name.ops[0], ast.Is)
                            name = name.left
                        if isinstance(name, ast.Name):
                            d = expand(name, t.ast)
                            if isinstance(d, ast.Call) and last(call_name(d)) == "get_environment" and d.args and ast.unparse(d.args[0]) == utxt:
                                # the branch on which the environment is missing must not reach the site
                                miss = "T" if neg else "F"
                                tgt = [n for lab, n in cfg.succ[t] if lab == miss]
                                sn = cfg.node_of_containing(c)
                                if not any(x in cfg.reach(tgt, labels_excluded=NOEXC) for x in sn):
                                    witnesses.append(t)
                sn = cfg.node_of_containing(c)
                ok = bool(witnesses) and not any(x in cfg.reach([cfg.entry], blocked=witnesses, labels_excluded=NOEXC) for x in sn)
                yield ("ob", "C37.R4", "switch-to-known-env", "the current environment is only ever set to a url that was just created or successfully looked up", ok, m, c, fn,
                       f"`{utxt}` is made current without a dominating create_or_update_environment / get_environment check", [])
    yield ("floor", "C37.R4", "calls that set the current environment", n_known)
    d_env = method(CM, "delete_environment")
    dp = param_names(d_env)
    if not dp:
        raise AnchorError("delete_environment takes no url")
    cfg = CFG(d_env)
    del_env = del_prof = None
    reset = None
    for c in ast.walk(d_env):
        if isinstance(c, ast.Call):
            s = sql_of(c)
            if s is None:
                continue
            if s.kind == "delete" and s.table == "environments":
                del_env = c
            if s.kind == "delete" and s.table == "profiles" and ("api_url", "?") in s.where():
                prm = sql_params(c)
                if isinstance(prm, (ast.Tuple, ast.List)) and len(prm.elts) == 1 and dotted(prm.elts[0]) == dp[0]:
                    del_prof = c
            if s.is_write and s.table == "settings" and ENV_KEY in s.quoted and s.kind != "delete":
                reset = c
    if del_env is None:
        raise AnchorError("delete_environment no longer deletes from `environments`")
    yield ("ob", "C37.R4", "delete-removes-profiles", "delete_environment deletes the profiles of exactly the environment it removes", del_prof is not None, cm, del_env, d_env,
           "no `DELETE FROM profiles WHERE api_url = ?` bound to the deleted url", [])
    ok, reason = False, "no reset of the current environment in delete_environment"
    if reset is not None:
        prm = sql_params(reset)
        val = dotted(prm.elts[0]) if isinstance(prm, (ast.Tuple, ast.List)) and prm.elts else None
        to_default = val == "DEFAULT_ENVIRONMENT.api_url"
        rn = cfg.node_of_containing(reset)
        guards = [(t, lab) for n in rn for t, lab in cfg.guards(n) if t.kind == "test"]
        cmp_ok = False
        tests = []
        for t, lab in guards:
            if lab not in ("T", "F") or not hasattr(t.ast, "test"):
                continue
            # what the branch taken at this test says: equalities that hold on it (through and / or / not / a local holding the test)
            for left, right, at in implied_equalities(t.ast.test, t.ast, lab == "T"):
                for me, other in ((left, right), (right, left)):
                    if is_name_of(me, at, dp[0]) and not is_name_of(other, at, dp[0]) and read_from_env_row(other, at):
                        cmp_ok = True
                        if t not in tests:
                            tests.append(t)
        dn = cfg.node_of_containing(del_env)
        skipped = bool(tests) and any(cfg.exit in cfg.reach([n], blocked=tests, labels_excluded=NOEXC, include_starts=False) for n in dn)
        ok = to_default and cmp_ok and not skipped
        reason = f"reset value `{val}`, compares stored url with the deleted one: {cmp_ok}, a path after the row delete skips the test: {skipped}"
    yield ("ob", "C37.R4", "delete-resets-current", "after deleting the row, delete_environment tests whether it was current and resets to DEFAULT_ENVIRONMENT", ok, cm, reset or del_env, d_env, reason, [])

    # ---------------------------------------------------------------- R5
    n_sql = n_store = 0
    for m, tree in all_mods:
        for fn in [n for n in ast.walk(tree) if isinstance(n, FuncNode)]:
            for c, s in settings_writes(fn):
                if enclosing_function(c) is fn and (PROFILE_KEY in s.quoted or (s.kind == "delete" and "where" not in s.toks)):
                    n_sql += 1
            stores = pointer_stores(fn)
            for i, (c, s) in enumerate(stores):
                n_store += 1
                yield ("ob", "C37.R5", f"pointer-sql-store:{s.kind}" + (f"#{i}" if len(stores) > 1 else ""),
                       "an SQL statement that stores a name under settings.current_profile is the one inside the primitive set_settings_current_profile",
                       fn is prim_prof, m, c, fn,
                       f"`{s.text}` writes the active-profile name outside the primitive: " + describe_store(s), [])
    yield ("floor", "C37.R5", "SQL writers of the key current_profile (stores and clears)", n_sql)
    yield ("floor", "C37.R5", "SQL statements storing a name under current_profile", n_store)
    pp = param_names(prim_prof)
    if not pp:
        raise AnchorError(f"`{SET_PROFILE}` takes no name")
    pstores = pointer_stores(prim_prof)
    if not pstores:
        raise AnchorError(f"`{SET_PROFILE}` no longer stores the key {PROFILE_KEY}")
    for c, s in pstores:
        prm = sql_params(c)
        if not isinstance(prm, (ast.Tuple, ast.List)):
            raise AnchorError(f"parameters of the pointer write at line {c.lineno} are not a literal tuple")
        got = [dotted(expand(x, enclosing_stmt(c))) for x in prm.elts]
        ok = bool(got) and all(g == pp[0] for g in got) and len(got) == s.toks.count("?")
        yield ("ob", "C37.R5", "primitive-stores-its-argument", "the primitive stores exactly the name it was given (so its callers are the complete list of name writers)", ok, cm, c, prim_prof,
               f"the statement binds {[ast.unparse(x) for x in prm.elts]}, expected only `{pp[0]}`", [])
    bound = env_bound_methods(AS)
    as_methods = {n.name: n for n in AS.body if isinstance(n, FuncNode)}
    n_names = 0

    def sources_through_params(arg: ast.AST, fn: ast.AST, depth: int = 0) -> list[tuple[str, str]]:
        out = []
        for kind, txt in name_sources(arg, fn, bound):
            if kind != "param" or depth >= 3:
                out.append((kind, txt))
                continue
            out.append((kind, txt))
            plist = [a.arg for a in fn.args.posonlyargs + fn.args.args if a.arg != "self"]
            for g in as_methods.values():
                for c2 in ast.walk(g):
                    if isinstance(c2, ast.Call) and isinstance(c2.func, ast.Attribute) and dotted(c2.func.value) == "self" and c2.func.attr == fn.name and as_methods.get(fn.name) is fn:
                        a2 = kwarg(c2, txt, plist.index(txt) if txt in plist else None)
                        if a2 is None:
                            raise AnchorError(f"C37.R5: internal caller of `{fn.name}` at line {c2.lineno} passes no `{txt}`")
                        out += sources_through_params(a2, enclosing_function(c2) or g, depth + 1)
        return out

    seen5: dict = {}
    for fn in [n for n in ast.walk(AS) if isinstance(n, FuncNode)]:
        for c in calls_named(fn, SET_PROFILE):
            if enclosing_function(c) is not fn or not isinstance(c.func, ast.Attribute):
                continue
            arg = kwarg(c, "name", 0)
            if arg is None or is_none(arg):
                continue
            n_names += 1
            src = sources_through_params(arg, fn)
            blind = [t for k, t in src if k == "blind"]
            seen5[fn.name] = seen5.get(fn.name, 0) + 1
            yield ("ob", "C37.R5", f"written-name-from-own-env:{fn.name}" + (f"#{seen5[fn.name]}" if seen5[fn.name] > 1 else ""),
                   "the name an AuthService stores as active is an explicit selection or was looked up / created inside the service's own environment",
                   not blind and bool(src), am, c, fn,
                   "the stored name comes from " + "; ".join(blind or ["nothing readable"]) + " — a profile of another environment can lend its name, and the same-named profile of the current environment becomes active unpicked", [])
    yield ("floor", "C37.R5", "names handed to the primitive inside AuthService", n_names)


# ------------------------------------------------------------------------------ R6: nothing computed from the current environment outlives a change of it
MEMO_DECORATORS = ("cache", "lru_cache", "cached_property")
_FILLS = ("append", "add", "update", "setdefault", "insert", "extend", "appendleft", "__setitem__")
READ_FLOOR = "functions whose result is computed from the stored current environment (settings row -> get_current_environment -> current_auth_service)"
CHG_FLOOR = "methods of ConfigManager / EnvService that can change the current environment (own settings write, or through a callee)"
SLOT_FLOOR = "values computed from the current environment and kept across calls (attribute, module global, memoising decorator)"


class _F:
    """A module-level function, or a method of a module-level class, of the anchored modules."""

    def __init__(self, m, tree: ast.AST, cls: ast.ClassDef | None, fn: ast.AST):
        self.m, self.tree, self.cls, self.fn = m, tree, cls, fn
        self.qn = f"{cls.name}.{fn.name}" if cls is not None else fn.name


class _Slot:
    def __init__(self, kind: str, key: tuple, holder: ast.AST, name: str, m, filled: str):
        self.kind, self.key, self.holder, self.name, self.m, self.filled = kind, key, holder, name, m, filled
        self.deco = self.fname = ""
        self.label = f"{holder.name}.{name}" if isinstance(holder, ast.ClassDef) else name


def _self_attr(e: ast.AST, attr: str | None = None) -> bool:
    return isinstance(e, ast.Attribute) and isinstance(e.value, ast.Name) and e.value.id == "self" and (attr is None or e.attr == attr)


def _pairs(target: ast.AST, value: ast.AST) -> list[tuple[ast.AST, ast.AST]]:
    if isinstance(target, (ast.Tuple, ast.List)):
        if isinstance(value, (ast.Tuple, ast.List)) and len(value.elts) == len(target.elts):
            return [p for t, v in zip(target.elts, value.elts) for p in _pairs(t, v)]
        return [p for t in target.elts for p in _pairs(t, value)]
    return [(target, value)]


def _fresh_constant(e: ast.AST) -> bool:
    """A value that carries nothing of any environment: a literal, an empty container."""
    if isinstance(e, ast.Constant):
        return True
    if isinstance(e, (ast.List, ast.Tuple, ast.Set)) and not e.elts:
        return True
    if isinstance(e, ast.Dict) and not e.keys:
        return True
    return isinstance(e, ast.Call) and isinstance(e.func, ast.Name) and e.func.id in ("dict", "list", "set", "tuple", "OrderedDict") and not e.args and not e.keywords


class Freshness:
    """Call graph (receivers typed through annotations where the code gives them, by name otherwise), the functions that
    can change the stored current environment, the functions whose result is computed from it, and the places where such a
    result is kept across calls."""

    def __init__(self, mods: list[tuple[object, ast.AST]]):
        self.fns: list[_F] = []
        self.classes: dict[str, ast.ClassDef] = {}
        self.globals_decl: dict[int, set[str]] = {}
        self.module_insts: dict[int, dict[str, str]] = {}
        seen: set[int] = set()
        for m, tree in mods:
            if id(tree) in seen:
                continue
            seen.add(id(tree))
            for st in getattr(tree, "body", []):
                if isinstance(st, FuncNode):
                    self.fns.append(_F(m, tree, None, st))
                elif isinstance(st, ast.ClassDef):
                    self.classes.setdefault(st.name, st)
                    for s2 in st.body:
                        if isinstance(s2, FuncNode):
                            self.fns.append(_F(m, tree, st, s2))
            self.globals_decl[id(tree)] = {n for g in ast.walk(tree) if isinstance(g, ast.Global) for n in g.names}
        for m, tree in mods:
            insts = self.module_insts.setdefault(id(tree), {})
            for st in getattr(tree, "body", []):
                if isinstance(st, ast.Assign) and len(st.targets) == 1 and isinstance(st.targets[0], ast.Name) and isinstance(st.value, ast.Call) \
                        and isinstance(st.value.func, ast.Name) and st.value.func.id in self.classes:
                    insts[st.targets[0].id] = st.value.func.id
        self.by_name: dict[str, list[_F]] = {}
        for f in self.fns:
            self.by_name.setdefault(f.fn.name, []).append(f)
        self._stores: dict[tuple, list] = {}
        self._find_changers()
        self._find_readers()
        self._find_slots()

    # ---------------------------------------------------------------- receivers
    def methods(self, cls: ast.ClassDef) -> list[_F]:
        return [f for f in self.fns if f.cls is cls]

    def _ann(self, ann: ast.AST | None) -> tuple[str, str] | None:
        """('inst' | 'factory', class) read off an annotation: K, "K", K | None, Optional[K], Callable[[...], K]."""
        if ann is None:
            return None
        if isinstance(ann, ast.Constant) and isinstance(ann.value, str):
            try:
                ann = ast.parse(ann.value, mode="eval").body
            except SyntaxError:
                return None
        if isinstance(ann, (ast.Name, ast.Attribute)):
            n = last(dotted(ann))
            return ("inst", n) if n in self.classes else None
        if isinstance(ann, ast.BinOp) and isinstance(ann.op, ast.BitOr):
            return self._ann(ann.left) or self._ann(ann.right)
        if isinstance(ann, ast.Subscript):
            head = last(dotted(ann.value))
            if head == "Optional":
                return self._ann(ann.slice)
            if head == "Callable" and isinstance(ann.slice, ast.Tuple) and len(ann.slice.elts) == 2:
                r = self._ann(ann.slice.elts[1])
                return ("factory", r[1]) if r is not None and r[0] == "inst" else None
        return None

    def _param_ann(self, fn: ast.AST, name: str) -> tuple[str, str] | None:
        for a in fn.args.posonlyargs + fn.args.args + fn.args.kwonlyargs:
            if a.arg == name:
                return self._ann(a.annotation)
        return None

    def _attr_type(self, cls: ast.ClassDef, attr: str) -> tuple[str, str] | None:
        for g, val, st, whole in self.stores(("attr", cls.name, attr)):
            if not whole:
                continue
            if isinstance(st, ast.AnnAssign):
                r = self._ann(st.annotation)
                if r is not None:
                    return r
            if isinstance(val, ast.Name):
                r = self._param_ann(g.fn, val.id)
                if r is not None:
                    return r
            if isinstance(val, ast.Call) and isinstance(val.func, ast.Name) and val.func.id in self.classes:
                return ("inst", val.func.id)
        return None

    def _type(self, e: ast.AST, f: _F, depth: int = 0) -> tuple[str, str] | None:
        """What an expression inside f denotes, as far as the code says: ('inst', K) an object of class K,
        ('factory', K) a callable returning one.  None when it does not say."""
        if depth > 4:
            return None
        if isinstance(e, ast.Name):
            if e.id in ("self", "cls") and f.cls is not None:
                return ("inst", f.cls.name)
            if parent(e) is not None:
                st = enclosing_stmt(e)
                d = expand(e, st, depth=3) if st is not None else e
                if d is not e and not (isinstance(d, ast.Name) and d.id == e.id):
                    return self._type(d, f, depth + 1)
            r = self._param_ann(f.fn, e.id)
            if r is not None:
                return r
            if e.id in self.module_insts.get(id(f.tree), {}):
                return ("inst", self.module_insts[id(f.tree)][e.id])
            for g in self.by_name.get(e.id, []):
                if g.cls is None:
                    r = self._ann(g.fn.returns)
                    if r is not None and r[0] == "inst":
                        return ("factory", r[1])
            if e.id in self.classes:
                return ("factory", e.id)
            return None
        if isinstance(e, ast.Attribute):
            if _self_attr(e) and f.cls is not None:
                return self._attr_type(f.cls, e.attr)
            return None
        if isinstance(e, ast.Call):
            t = self._type(e.func, f, depth + 1)
            if t is not None and t[0] == "factory":
                return ("inst", t[1])
            if isinstance(e.func, ast.Attribute):
                rc = self._type(e.func.value, f, depth + 1)
                if rc is not None and rc[0] == "inst" and rc[1] in self.classes:
                    for g in self.methods(self.classes[rc[1]]):
                        if g.fn.name == e.func.attr:
                            return self._ann(g.fn.returns)
            return None
        return None

    def resolve(self, call: ast.Call, f: _F) -> list[_F]:
        """The functions of the anchored modules a call may run.  A receiver whose class the code states selects that
        class's method; an unstated receiver selects every method of that name (over-approximation)."""
        fn = call.func
        if isinstance(fn, ast.Name):
            return [g for g in self.by_name.get(fn.id, []) if g.cls is None]
        if isinstance(fn, ast.Attribute):
            cands = [g for g in self.by_name.get(fn.attr, []) if g.cls is not None]
            if not cands:
                return []
            rc = self._type(fn.value, f)
            if rc is not None and rc[0] == "inst":
                return [g for g in cands if g.cls.name == rc[1]]
            return cands
        return []

    # ---------------------------------------------------------------- who changes the current environment
    def _find_changers(self) -> None:
        self.sites: dict[int, list[tuple[ast.AST, _F | None]]] = {}
        for f in self.fns:
            own = [(c, None) for c, s in settings_writes(f.fn) if enclosing_function(c) is f.fn and (ENV_KEY in s.quoted or (s.kind == "delete" and "where" not in s.toks))]
            if own:
                self.sites[id(f.fn)] = own
        changed = True
        while changed:
            changed = False
            for f in self.fns:
                have = {id(c) for c, _t in self.sites.get(id(f.fn), [])}
                for c in ast.walk(f.fn):
                    if isinstance(c, ast.Call) and id(c) not in have and enclosing_function(c) is f.fn:
                        for t in self.resolve(c, f):
                            if t is not f and id(t.fn) in self.sites:
                                self.sites.setdefault(id(f.fn), []).append((c, t))
                                changed = True
                                break

    def is_changer(self, f: _F) -> bool:
        return id(f.fn) in self.sites

    def why_changer(self, f: _F, depth: int = 0) -> str:
        c, t = self.sites[id(f.fn)][0]
        if t is None:
            return f"writes the settings key {ENV_KEY} itself (line {c.lineno})"
        return f"calls {t.qn}" + (", which " + self.why_changer(t, depth + 1) if depth < 4 else "")

    # ---------------------------------------------------------------- whose result is computed from it
    def stores(self, key: tuple) -> list[tuple[_F, ast.AST, ast.AST, bool]]:
        """(function, value, statement, whole) for every statement that puts a value into the slot: whole=True when the
        statement rebinds it, False when it fills a container held by it."""
        if key in self._stores:
            return self._stores[key]
        kind, where, name = key
        out: list[tuple[_F, ast.AST, ast.AST, bool]] = []

        def hit(e: ast.AST, g: _F) -> bool:
            if kind == "attr":
                return _self_attr(e, name)
            return isinstance(e, ast.Name) and e.id == name and any(isinstance(x, ast.Global) and name in x.names for x in ast.walk(g.fn))

        pool = self.methods(self.classes[where]) if kind == "attr" else [g for g in self.fns if id(g.tree) == where]
        for g in pool:
            for st in ast.walk(g.fn):
                if isinstance(st, ast.Assign):
                    for t in st.targets:
                        for tgt, val in _pairs(t, st.value):
                            if hit(tgt, g):
                                out.append((g, val, st, True))
                            elif isinstance(tgt, ast.Subscript) and hit(tgt.value, g):
                                out.append((g, val, st, False))
                elif isinstance(st, (ast.AnnAssign, ast.AugAssign)) and st.value is not None and hit(st.target, g):
                    out.append((g, st.value, st, isinstance(st, ast.AnnAssign)))
                elif isinstance(st, ast.Call) and isinstance(st.func, ast.Attribute) and st.func.attr in _FILLS and hit(st.func.value, g):
                    for a in list(st.args) + [k.value for k in st.keywords]:
                        out.append((g, a, st, False))
        self._stores[key] = out
        return out

    def key_of_load(self, a: ast.AST, f: _F) -> tuple | None:
        if f.cls is not None and _self_attr(a) and isinstance(a.ctx, ast.Load) and not any(g.fn.name == a.attr for g in self.methods(f.cls)):
            return ("attr", f.cls.name, a.attr)
        if isinstance(a, ast.Name) and isinstance(a.ctx, ast.Load) and a.id in self.globals_decl.get(id(f.tree), ()):
            return ("global", id(f.tree), a.id)
        return None

    def value_slice(self, expr: ast.AST, f: _F, seen: set | None = None) -> list[tuple[_F, ast.AST]]:
        """Every expression that may flow into expr: through locals of f (astx.dep_slice) and through the object
        attributes / module globals it reads, into whatever any function stores there."""
        seen = set() if seen is None else seen
        sl = dep_slice(f.fn, expr)
        out = [(f, e) for e in sl.exprs]
        for e in sl.exprs:
            for a in ast.walk(e):
                key = self.key_of_load(a, f)
                if key is None or key in seen:
                    continue
                seen.add(key)
                for g, val, _st, _w in self.stores(key):
                    out += self.value_slice(val, g, seen)
        return out

    def alternatives(self, e: ast.AST, f: _F, seen: frozenset = frozenset()) -> list[ast.AST]:
        """The expressions one of which is the value of e: operands of and/or, arms of a conditional expression, the
        assignments of a local."""
        if isinstance(e, ast.BoolOp):
            return [x for v in e.values for x in self.alternatives(v, f, seen)]
        if isinstance(e, ast.IfExp):
            return self.alternatives(e.body, f, seen) + self.alternatives(e.orelse, f, seen)
        if isinstance(e, ast.NamedExpr):
            return self.alternatives(e.value, f, seen)
        if isinstance(e, ast.Name) and e.id not in seen:
            defs = [st.value for st in ast.walk(f.fn) if isinstance(st, (ast.Assign, ast.AnnAssign, ast.NamedExpr)) and getattr(st, "value", None) is not None
                    and any(isinstance(t, ast.Name) and t.id == e.id for t in (st.targets if isinstance(st, ast.Assign) else [st.target]))]
            if defs:
                return [x for d in defs for x in self.alternatives(d, f, seen | {e.id})]
        return [e]

    def reads_env_directly(self, e: ast.AST, f: _F) -> list[ast.Call]:
        """Calls inside e that read the stored current environment: the SELECT of the settings row, or a call of a reader."""
        out = []
        for c in ast.walk(e):
            if isinstance(c, ast.Call):
                s = sql_of(c)
                if s is not None and s.kind == "select" and s.table == "settings" and ENV_KEY in s.quoted:
                    out.append(c)
                elif any(id(t.fn) in self.readers for t in self.resolve(c, f)):
                    out.append(c)
        return out

    def reader_calls(self, expr: ast.AST, f: _F) -> list[ast.Call]:
        return [c for g, e in self.value_slice(expr, f) for c in self.reads_env_directly(e, g)]

    def returns(self, f: _F) -> list[ast.AST]:
        return [r.value for r in ast.walk(f.fn) if isinstance(r, ast.Return) and r.value is not None and enclosing_function(r) is f.fn]

    def _find_readers(self) -> None:
        self.readers: dict[int, _F] = {}
        changed = True
        while changed:
            changed = False
            for f in self.fns:
                if id(f.fn) not in self.readers and any(self.reader_calls(v, f) for v in self.returns(f)):
                    self.readers[id(f.fn)] = f
                    changed = True

    # ---------------------------------------------------------------- where such a result is kept
    def _find_slots(self) -> None:
        self.slots: dict[tuple, _Slot] = {}
        self.feeds: dict[int, list[_Slot]] = {}
        loads: dict[tuple, list[_F]] = {}    # slots read anywhere in what flows into a reader's result
        instead: dict[tuple, list[_F]] = {}  # slots a reader returns as a value *in place of* a read of the settings row
        for f in self.readers.values():
            for v in self.returns(f):
                for g, e in self.value_slice(v, f):
                    for a in ast.walk(e):
                        key = self.key_of_load(a, g)
                        if key is not None and f not in loads.setdefault(key, []):
                            loads[key].append(f)
                for alt in self.alternatives(v, f):
                    if self.reads_env_directly(alt, f):
                        continue
                    for a in ast.walk(alt):
                        key = self.key_of_load(a, f)
                        if key is None:
                            continue
                        p = parent(a)
                        receiver = (isinstance(p, ast.Call) and p.func is a) or (isinstance(p, ast.Attribute) and isinstance(parent(p), ast.Call) and parent(p).func is p)
                        if not receiver and f not in instead.setdefault(key, []):
                            instead[key].append(f)
        for key, uses in loads.items():
            st = self.stores(key)
            derived = [(g, val, s) for g, val, s, _w in st if self.reader_calls(val, g)]
            outside = [g for g, _v, _s, _w in st if g.fn.name != "__init__"]
            if not (derived or (outside and instead.get(key))):
                continue
            kind, where, name = key
            holder = self.classes[where] if kind == "attr" else next(g.tree for g in self.fns if id(g.tree) == where)
            if derived:
                g, val, s = derived[0]
                filled = f"filled in {g.qn} (line {s.lineno}) from `{ast.unparse(self.reader_calls(val, g)[0].func)}()`"
            else:
                filled = f"written in {outside[0].qn} and returned by {instead[key][0].qn} in place of a read of the stored current environment"
            slot = _Slot(kind, key, holder, name, st[0][0].m, filled)
            self.slots[key] = slot
            for f in uses:
                if slot not in self.feeds.setdefault(id(f.fn), []):
                    self.feeds[id(f.fn)].append(slot)
        for f in self.readers.values():
            for d in f.fn.decorator_list:
                n = last(dotted(d.func if isinstance(d, ast.Call) else d))
                if n in MEMO_DECORATORS:
                    holder = f.cls if f.cls is not None else f.tree
                    slot = _Slot("memo", ("memo", id(holder), f.fn.name), holder, f.fn.name + "()", f.m, f"the result of {f.qn} is memoised by @{n}")
                    slot.deco = n
                    slot.fname = f.fn.name
                    self.slots[slot.key] = slot
                    self.feeds.setdefault(id(f.fn), []).append(slot)

    def responsible(self, slot: _Slot) -> list[_F]:
        if isinstance(slot.holder, ast.ClassDef):
            return [g for g in self.methods(slot.holder) if self.is_changer(g)]
        return [g for g in self.fns if g.tree is slot.holder and self.is_changer(g)]

    # ---------------------------------------------------------------- what a function does to a slot
    def classify(self, val: ast.AST, g: _F) -> str:
        """drop: afterwards the slot holds nothing computed from an environment read earlier; refresh: it is recomputed
        from the stored current environment in this very statement; stale: it (still) holds a value read earlier."""
        if _fresh_constant(val):
            return "drop"
        if self.reads_env_directly(val, g):
            return "refresh"
        sl = self.value_slice(val, g)
        if any(self.reads_env_directly(e, h) for h, e in sl) or any(self.key_of_load(a, h) in self.slots for h, e in sl for a in ast.walk(e)):
            return "stale"
        return "drop"

    def effects(self, g: _F, slot: _Slot, depth: int = 0) -> list[tuple[ast.AST, str]]:
        out: list[tuple[ast.AST, str]] = []
        if slot.kind in ("attr", "global"):
            for h, val, st, whole in self.stores(slot.key):
                if h is g and whole:
                    out.append((st, self.classify(val, g)))
            name = slot.key[2]
            hit = (lambda e: _self_attr(e, name)) if slot.kind == "attr" else (lambda e: isinstance(e, ast.Name) and e.id == name)
            for n in ast.walk(g.fn):
                if isinstance(n, ast.Delete) and any(hit(t) for t in n.targets):
                    out.append((n, "drop"))
                elif isinstance(n, ast.Call) and isinstance(n.func, ast.Attribute) and n.func.attr == "clear" and hit(n.func.value):
                    out.append((n, "drop"))
        else:
            for n in ast.walk(g.fn):
                if isinstance(n, ast.Call) and isinstance(n.func, ast.Attribute) and n.func.attr == "cache_clear" and last(dotted(n.func.value)) == slot.fname:
                    out.append((n, "drop"))
                elif isinstance(n, ast.Delete) and any(_self_attr(t, slot.fname) for t in n.targets):
                    out.append((n, "drop"))
                elif isinstance(n, ast.Call) and isinstance(n.func, ast.Attribute) and n.func.attr == "pop" and dotted(n.func.value) == "self.__dict__" \
                        and n.args and isinstance(n.args[0], ast.Constant) and n.args[0].value == slot.fname:
                    out.append((n, "drop"))
        if g.cls is not None and depth < 2:
            for n in ast.walk(g.fn):
                if isinstance(n, ast.Call) and _self_attr(n.func):
                    for b in self.methods(g.cls):
                        if b.fn.name == n.func.attr and b is not g:
                            eff = [(x, k) for x, k in self.effects(b, slot, depth + 1) if k != "stale"]
                            if eff and self.always(b, eff):
                                out.append((n, "drop" if all(k == "drop" for _x, k in eff) else "refresh"))
        return out

    def always(self, b: _F, eff: list[tuple[ast.AST, str]]) -> bool:
        cfg = CFG(b.fn)
        nodes = [n for x, _k in eff for n in cfg.node_of_containing(x)]
        return cfg.exit not in cfg.reach([cfg.entry], blocked=nodes, labels_excluded=NOEXC)

    def kept_after(self, g: _F, site: ast.AST, slot: _Slot) -> tuple[list[str], list[ast.AST]] | None:
        """A normal path entry -> site -> exit of g on which the slot is neither dropped (anywhere) nor recomputed (after the
        site), with the guarded resets of g that the path avoids; None when there is no such path."""
        cfg = CFG(g.fn)
        snodes = cfg.node_of_containing(site)
        if not snodes:
            raise AnchorError(f"C37.R6: the environment change at line {site.lineno} of {g.qn} has no CFG node")
        eff = self.effects(g, slot)
        drops = [n for x, k in eff if k == "drop" for n in cfg.node_of_containing(x)]
        fresh = [n for x, k in eff if k == "refresh" for n in cfg.node_of_containing(x)]
        for sn in snodes:
            if sn in drops:
                continue
            before = cfg.reach([cfg.entry], blocked=drops, labels_excluded=NOEXC)
            after = cfg.reach([sn], blocked=drops + fresh, labels_excluded=NOEXC, include_starts=False)
            if sn in before and cfg.exit in after:
                p1 = cfg.path(cfg.entry, sn, blocked=drops, labels_excluded=NOEXC)
                p2 = cfg.path(sn, cfg.exit, blocked=drops + fresh, labels_excluded=NOEXC)
                return cfg.describe_path(p1 + p2[1:]), [x for x, k in eff if k != "stale"]
        return None


def eval_fresh(mods: list[tuple[object, ast.AST]]):
    """R6 on the anchored modules; yields the same items as eval_rules."""
    fr = Freshness(mods)
    readers = sorted(fr.readers.values(), key=lambda f: f.qn)
    holders = {f.cls.name for f in readers if f.cls is not None}
    changers = [f for f in fr.fns if fr.is_changer(f) and f.cls is not None and f.cls.name in holders]
    yield ("floor", "C37.R6", READ_FLOOR, len(readers))
    yield ("floor", "C37.R6", CHG_FLOOR, len(changers))
    yield ("floor", "C37.R6", SLOT_FLOOR, len(fr.slots))
    desc = ("a value computed from the stored current environment is not kept across a change of the current environment: "
            "every method that can change it (directly or through a callee) drops the kept value on every normal path")
    for f in readers:
        if not fr.feeds.get(id(f.fn)):
            yield ("ob", "C37.R6", f"recomputed-per-call:{f.qn}", f"{f.qn} derives its result from the stored current environment on every call (nothing it returns is kept on the object, in a module global or by a memoising decorator)",
                   True, f.m, f.fn, f.fn, "", [])
    for slot in fr.slots.values():
        resp = fr.responsible(slot)
        if not resp:
            g0 = next(f for f in readers if slot in fr.feeds.get(id(f.fn), []))
            yield ("ob", "C37.R6", f"kept-value-droppable:{slot.label}", desc, False, slot.m, g0.fn, g0.fn,
                   f"`{slot.label}` keeps a value computed from the current environment ({slot.filled}) but no function of its holder can change the environment, so nothing ever drops it: "
                   "after any switch / create / delete of an environment it still describes the previous one", [])
            continue
        for g in resp:
            sites = fr.sites[id(g.fn)]
            for i, (site, _t) in enumerate(sites):
                got = fr.kept_after(g, site, slot)
                reason = ""
                if got is not None:
                    guarded = got[1]
                    reason = (f"`{slot.label}` keeps a value computed from the current environment ({slot.filled}). {g.qn} can change the current environment — it {fr.why_changer(g)} — "
                              + ("and returns without dropping it" if not guarded else
                                 "and its only reset of it (line " + ", ".join(str(x.lineno) for x in guarded) + ") is not on every path (it is under a test, or recomputes the value before the change); the rule does not evaluate such a test")
                              + ". The kept value then still describes the previous environment (for a delete: one that no longer exists): current_auth_service() hands out a service bound to it, a login through that service "
                              "stores the profile under the old url and writes its bare name into settings.current_profile, which the now-current environment resolves to a same-named profile nobody picked there. "
                              f"Drop `{slot.label}` in {g.qn} (as the other environment-changing methods do), or do not keep it.")
                yield ("ob", "C37.R6", f"kept-value-dropped:{slot.label}@{g.fn.name}" + (f"#{i}" if len(sites) > 1 else ""), desc, got is None, g.m, site, g.fn, reason, got[0] if got else [])


# ------------------------------------------------------------------------------ new private static helpers folded into their callers
class _StaticInliner(Inliner):
    """sa/inline.py folds new private helpers into their callers but leaves decorated functions alone. A private
    `@staticmethod` called as `self.f(…)` / `cls.f(…)` / `ClassName.f(…)` is a plain function in a class namespace: it is
    folded the same way (no receiver parameter to drop)."""

    def helper_for(self, call: ast.Call, cls: ast.ClassDef | None):
        got = super().helper_for(call, cls)
        if got is not None or cls is None:
            return got
        f = call.func
        if not (isinstance(f, ast.Attribute) and isinstance(f.value, ast.Name) and f.value.id in ("self", "cls", cls.name)):
            return None
        h = self.mod.functions.get(f"{qualname_of(cls)}.{f.attr}")
        if h is None or f.attr in self.protected or not f.attr.startswith("_") or f.attr.startswith("__"):
            return None
        if len(h.decorator_list) != 1 or dotted(h.decorator_list[0]) != "staticmethod":
            return None
        if any(isinstance(n, (ast.Yield, ast.YieldFrom)) for n in ast.walk(h)) or h.args.vararg or h.args.kwarg:
            return None
        if any(isinstance(n, ast.Call) and n is not call and isinstance(n.func, (ast.Name, ast.Attribute)) and (getattr(n.func, "id", None) == f.attr or getattr(n.func, "attr", None) == f.attr) for n in ast.walk(h)):
            return None  # recursive
        return h, False


def _own_words() -> set[str]:
    return set(re.findall(r"[A-Za-z_][A-Za-z0-9_]*", Path(__file__).read_text(encoding="utf-8")))


def _fold_static_helpers(repo, m):
    """View of module m in which private static helpers that are new with respect to the confirmed tree (sa/baseline_helpers.json)
    and are not anchors of this module are folded into their callers; m itself when there is none."""
    base = _baseline_helpers().get(m.rel, ())
    words = getattr(repo, "_auto_words", None) or _own_words()
    privates = {q.split(".")[-1] for q in m.functions if q.split(".")[-1].startswith("_") and not q.split(".")[-1].startswith("__")}
    new_static = {q.split(".")[-1] for q, f in m.functions.items() if q.split(".")[-1] in privates and q.split(".")[-1] not in base and q.split(".")[-1] not in words
                  and len(f.decorator_list) == 1 and dotted(f.decorator_list[0]) == "staticmethod"}
    if not new_static:
        return m
    inl = _StaticInliner(m, privates - new_static)
    view = inl.run()
    return view if inl.inlined_calls else m


class _FixMod:
    def __init__(self, name: str, rel: str, tree: ast.AST):
        self.name, self.rel, self.tree = name, rel, tree


def run(chk) -> None:
    repo = chk.repo
    pkg = [m for m in repo.by_rel.values() if m.name == PKG or m.name.startswith(PKG + ".")]
    for m in pkg:
        repo.consulted.add(m.rel)
    pkg = [_fold_static_helpers(repo, m) for m in pkg]
    by_name = {m.name: m for m in pkg}
    for need in (CFGMOD, ENVMOD, AUTHMOD):
        repo.module(need)  # AnchorError when missing
    cm, em, am = by_name[CFGMOD], by_name[ENVMOD], by_name[AUTHMOD]
    mods = {"config": (cm, cm.tree), "env": (em, em.tree), "auth": (am, am.tree)}
    floors_min = {
        ("C37.R1", "sites that change the current environment"): 3,
        ("C37.R1", "SQL deletes of the key current_profile read and classified (full / value-dependent)"): 1,  # the primitive's (today 2: + delete_environment's, whose absence is a violation of the pairing, not a floor error)
        ("C37.R3", "non-None writes of the profile pointer"): 3,
        ("C37.R3", "AuthService constructions"): 3,
        ("C37.R3", "callers of pointer-moving AuthService methods"): 6,
        ("C37.R4", "calls that set the current environment"): 2,
        ("C37.R5", "SQL writers of the key current_profile (stores and clears)"): 2,  # the two statements of the primitive; clears elsewhere are R1's business
        ("C37.R5", "SQL statements storing a name under current_profile"): 1,
        ("C37.R5", "names handed to the primitive inside AuthService"): 3,
    }
    for item in eval_rules(mods, [(m, m.tree) for m in pkg]):
        if item[0] == "floor":
            _k, rule, what, n = item
            if what == COND_FLOOR:
                continue  # zero expected on the repo; the planted example below must be counted
            chk.floor(rule, what, n, floors_min[(rule, what)])
        else:
            _k, rule, inst, desc, ok, m, node, fn, reason, path = item
            chk.ob(rule, desc, ok, m=m, node=node, fn=fn, instance=inst, reason=reason, path=path)

    # planted fixture: R2, R3, R4 and R5 expect zero findings on the repo; each must report its planted defect
    fpath = Path(__file__).resolve().parents[2] / FIXTURE
    if not fpath.is_file():
        raise AnchorError(f"fixture {FIXTURE} missing")
    tree = ast.parse(fpath.read_text())
    _set_parents(tree)
    fm = _FixMod("fixture.c37", FIXTURE, tree)
    fmods = {"config": (fm, tree), "env": (fm, tree), "auth": (fm, tree)}
    bad: dict[str, int] = {}
    for item in eval_rules(fmods, [(fm, tree)]):
        if item[0] == "ob" and not item[4]:
            bad[item[1]] = bad.get(item[1], 0) + 1
        if item[0] == "floor" and item[2] == COND_FLOOR:
            chk.floor("C37.R1", "planted value-dependent clear (fixture purge_environment) not accepted as the pairing clear", item[3], 1)
    for rule in ("C37.R1", "C37.R2", "C37.R3", "C37.R4", "C37.R5"):
        chk.floor(rule, "planted defects reported in the fixture", bad.get(rule, 0), 1)
    # R6: nothing computed from the current environment is kept across a change of it
    floors6 = {READ_FLOOR: 3, CHG_FLOOR: 5, SLOT_FLOOR: 0}  # zero kept values expected on the repo; the planted ones below must be found
    for item in eval_fresh([(cm, cm.tree), (em, em.tree), (am, am.tree)]):
        if item[0] == "floor":
            chk.floor(item[1], item[2], item[3], floors6[item[2]])
        else:
            _k, rule, inst, desc, ok, m, node, fn, reason, path = item
            chk.ob(rule, desc, ok, m=m, node=node, fn=fn, instance=inst, reason=reason, path=path)
    f6 = Path(__file__).resolve().parents[2] / FIXTURE6
    if not f6.is_file():
        raise AnchorError(f"fixture {FIXTURE6} missing")
    tree6 = ast.parse(f6.read_text())
    _set_parents(tree6)
    fm6 = _FixMod("fixture.c37.stale_cache", FIXTURE6, tree6)
    got6 = {it[2]: it[4] for it in eval_fresh([(fm6, tree6)]) if it[0] == "ob"}
    chk.floor("C37.R6", "planted stale kept values reported in the fixture (forgotten by a delegating changer, dropped only under a test, memoised and never cleared)",
              sum(1 for k, ok in FIX6_EXPECT.items() if not ok and got6.get(k) is False), sum(1 for ok in FIX6_EXPECT.values() if not ok))
    chk.floor("C37.R6", "planted kept values that every changer drops accepted in the fixture (negative control)",
              sum(1 for k, ok in FIX6_EXPECT.items() if ok and got6.get(k) is True), sum(1 for ok in FIX6_EXPECT.values() if ok))
    if set(got6) != set(FIX6_EXPECT):
        raise AnchorError(f"C37.R6: the fixture yields obligations {sorted(set(got6) ^ set(FIX6_EXPECT))} that differ from the expected inventory")
    chk.observe("delete_profile clears the pointer whenever the deleted profile's *name* equals the stored name, even if it belongs to another environment: the active profile becomes none (allowed by the statement)")
    chk.observe("the two settings writes of a switch are separate transactions; a crash between them is outside the statement")


_C = "packages/llamactl/src/llama_agents/cli/config/_config.py"
_E = "packages/llamactl/src/llama_agents/cli/config/env_service.py"
_A = "packages/llamactl/src/llama_agents/cli/config/auth_service.py"
_SW = '        self.config_manager().set_settings_current_environment(api_url)\n        self.config_manager().set_settings_current_profile(None)\n        return env'
_CU = '        self.config_manager().set_settings_current_environment(env.api_url)\n        self.config_manager().set_settings_current_profile(None)\n'
_SEL = '                "SELECT id, name, api_url, project_id, api_key, api_key_id, device_oidc FROM profiles WHERE name = ? AND api_url = ?",\n                (name, env_url),'
_GCP = '        if current_name:\n            return self.get_profile(current_name, env_url)\n        return None'
_CHK = "        if not env:\n            raise ValueError(\n                f\"Environment '{api_url}' not found. Add it with 'llamactl auth env add <API_URL>'\"\n            )\n"
_GP = ('        with sqlite3.connect(self.db_path) as conn:\n            row = conn.execute(\n' + _SEL + '\n            ).fetchone()\n            if row:\n                return _to_auth(row)\n        return None\n')
_COLS = ("def _to_auth(row: Any) -> Auth:", '_COLS = "id, name, api_url, project_id, api_key, api_key_id, device_oidc"\n\n\ndef _to_auth(row: Any) -> Auth:')
# helper names are assembled so that they are not words of this file (a word of this file is an anchor and is never folded)
_H1 = "_one" + "_profile_row"
_H2 = "_point" + "_at_default"


def _gp_helper(where: str, params: str) -> str:
    return ('        with sqlite3.connect(self.db_path) as conn:\n            return self.' + _H1 + '(conn, "' + where + '", ' + params + ')\n\n'
            '    @staticmethod\n    def ' + _H1 + '(conn: sqlite3.Connection, where: str, params: tuple[Any, ...]) -> Auth | None:\n'
            '        query = "SELECT " + _COLS + " FROM profiles WHERE " + where\n        row = conn.execute(query, params).fetchone()\n        if not row:\n            return None\n        return _to_auth(row)\n')


_RST = ('                conn.execute(\n                    "INSERT OR REPLACE INTO settings (key, value) VALUES (\'current_environment_api_url\', ?)",\n                    (DEFAULT_ENVIRONMENT.api_url,),\n                )\n'
        '                # The active profile is stored by name only: a same-named profile of\n                # the default environment must not become active without being picked.\n'
        '                conn.execute("DELETE FROM settings WHERE key = \'current_profile\'")\n\n            conn.commit()\n            return True\n')


def _rst_helper(clear: bool) -> str:
    return ('                self.' + _H2 + '(conn)\n\n            conn.commit()\n            return True\n\n    @staticmethod\n    def ' + _H2 + '(conn: sqlite3.Connection) -> None:\n'
            '        conn.execute(\n            "INSERT OR REPLACE INTO settings (key, value) VALUES (\'current_environment_api_url\', ?)",\n            (DEFAULT_ENVIRONMENT.api_url,),\n        )\n'
            + ('        conn.execute("DELETE FROM settings WHERE key = \'current_profile\'")\n' if clear else ""))

_UPD = '    def update_profile(self, profile: Auth) -> None:\n        """Update a profile"""\n        with sqlite3.connect(self.db_path) as conn:\n'
_REN_SQL = ('            previous = conn.execute(\n                "SELECT name FROM profiles WHERE id = ?", (profile.id,)\n            ).fetchone()\n            if previous and previous[0] != profile.name:\n'
            '                conn.execute(\n                    "UPDATE settings SET value = ? WHERE key = \'current_profile\' AND value = ?",\n                    (profile.name, previous[0]),\n                )\n')
_PTR = ("def _to_auth(row: Any) -> Auth:", '_ACTIVE = "current_profile"\n\n\ndef _to_auth(row: Any) -> Auth:')
_REN_CONST = ('            was = conn.execute("SELECT name FROM profiles WHERE id = ?", (profile.id,)).fetchone()\n            now = conn.execute("SELECT value FROM settings WHERE key = \'" + _ACTIVE + "\'").fetchone()\n'
              '            if was and now and was[0] == now[0]:\n                conn.execute(f"INSERT OR REPLACE INTO settings (key, value) VALUES (\'{_ACTIVE}\', ?)", (profile.name,))\n')


_CLR = '                conn.execute("DELETE FROM settings WHERE key = \'current_profile\'")\n\n            conn.commit()\n            return True\n'
_DELP = '            # Delete profiles tied to this environment\n'
_PRIM_CLR = '            if name is None:\n                conn.execute("DELETE FROM settings WHERE key = \'current_profile\'")\n'


def _clr(stmt: str) -> str:
    return _CLR.replace('conn.execute("DELETE FROM settings WHERE key = \'current_profile\'")', stmt)


# ---- R6: values computed from the current environment kept on the service
_EI = "        self.config_manager = config_manager\n"
_CAS = "        return AuthService(self.config_manager(), self.get_current_environment())\n"
_GCE = "        return self.config_manager().get_current_environment()\n"
_DEL = "        return self.config_manager().delete_environment(api_url)\n"
_IMP = "from dataclasses import replace\n"
_SVC = "service = EnvService(config_manager)"
_KEPT = "self._auth_service"
_KEPT_FILL = ("        if " + _KEPT + " is None:\n            " + _KEPT + " = AuthService(\n                self.config_manager(), self.get_current_environment()\n            )\n        return " + _KEPT + "\n")
# assembled so that it is not a word of this file (a word of this file is an anchor and is never folded)
_H3 = "_forget" + "_bound_service"


def _kept_service(delete: str | None = None, *, switch: str | None = None, create: str | None = None, fill: str = _KEPT_FILL, extra: list[tuple[str, str]] = ()) -> tuple[str, str]:
    """The seeded shape: current_auth_service() keeps its AuthService on the EnvService; `switch` / `create` / `delete` are the
    reset statements put into the three environment-changing methods (default: switch and create reset, delete does not)."""
    rs = "        " + _KEPT + " = None\n"
    switch = rs if switch is None else switch
    create = rs if create is None else create
    edits = [(_EI, _EI + "        " + _KEPT + ": AuthService | None = None\n"),
             (_SW, _SW.replace("        return env", switch + "        return env")),
             (_CU, _CU + create),
             (_CAS, fill)]
    if delete is not None:
        edits.append((_DEL, delete))
    return _multi(_E, edits + list(extra))


_KEPT_ENV = [(_EI, _EI + "        self._current_env: Environment | None = None\n"),
             (_GCE, "        if self._current_env is None:\n            self._current_env = self.config_manager().get_current_environment()\n        return self._current_env\n"),
             (_SW, _SW.replace("        return env", "        self._current_env = None\n        return env")),
             (_CU, _CU + "        self._current_env = None\n")]
_WRITE_THROUGH = [(_EI, _EI + "        self._selected: Environment | None = None\n"),
                  (_GCE, "        return self._selected or self.config_manager().get_current_environment()\n"),
                  (_SW, _SW.replace("        return env", "        self._selected = env\n        return env")),
                  (_CU, _CU + "        self._selected = env\n")]


def _memo(clear_in_delete: bool) -> list[tuple[str, str]]:
    cl = "        self.current_auth_service.cache_clear()\n"
    return [(_IMP, "import functools\n" + _IMP),
            ("    def current_auth_service(self) -> AuthService:\n", "    @functools.cache\n    def current_auth_service(self) -> AuthService:\n"),
            (_SW, _SW.replace("        return env", cl + "        return env")),
            (_CU, _CU + cl)] + ([(_DEL, cl + _DEL)] if clear_in_delete else [])


def _global_slot(reset_in_delete: bool) -> list[tuple[str, str]]:
    rs = "        global _bound\n        _bound = None\n"
    return [("class EnvService:\n", "_bound: AuthService | None = None\n\n\nclass EnvService:\n"),
            (_CAS, "        global _bound\n        if _bound is None:\n            _bound = AuthService(self.config_manager(), self.get_current_environment())\n        return _bound\n"),
            (_SW, _SW.replace("        return env", rs + "        return env")),
            (_CU, _CU + rs)] + ([(_DEL, rs + _DEL)] if reset_in_delete else [])


# ---- SQL texts held in module / class constants; the was-current test held in a local
_HEAD = "def _to_auth(row: Any) -> Auth:"
_LIT_SET = '"INSERT OR REPLACE INTO settings (key, value) VALUES (\'current_environment_api_url\', ?)"'
_LIT_GET = '"SELECT value FROM settings WHERE key = \'current_environment_api_url\'"'
_ROWTEST = "            row = setting_cursor.fetchone()\n            if row and row[0] == api_url:\n"
_K_SET = "_SET_ENV" + "_STATEMENT"
_K_GET = "_GET_ENV" + "_STATEMENT"
_K_KEY = "_ENV" + "_SETTING"
_CONST_SET = (_HEAD, _K_SET + ' = (\n    "INSERT OR REPLACE INTO settings (key, value) "\n    "VALUES (\'current_environment_api_url\', ?)"\n)\n\n\n' + _HEAD)
_CONST_NESTED = (_HEAD, _K_KEY + ' = "current_environment_api_url"\n' + _K_SET + ' = "INSERT OR REPLACE INTO settings (key, value) VALUES (\'" + ' + _K_KEY + ' + "\', ?)"\n'
                 + _K_GET + ': str = "SELECT value FROM settings WHERE key = \'" + ' + _K_KEY + ' + "\'"\n\n\n' + _HEAD)
_CLS_HEAD = '    """Manages profiles and configuration using SQLite"""\n'
_CONST_CLASS = (_CLS_HEAD, _CLS_HEAD + "\n    " + _K_SET + ' = "INSERT OR REPLACE INTO settings (key, value) " "VALUES (\'current_environment_api_url\', ?)"\n')
_GETENV_DEF = "    def get_environment(self, api_url: str) -> Environment | None:"


def _was_current(expr: str, test: str = "was_current") -> tuple[str, str]:
    return (_ROWTEST, "            current_row = setting_cursor.fetchone()\n            was_current = " + expr + "\n            if " + test + ":\n")


def _extra_writer(stmt: str) -> tuple[str, str]:
    return (_GETENV_DEF, "    def reset_environment(self) -> None:\n        with sqlite3.connect(self.db_path) as conn:\n            conn.execute(" + stmt + ", (DEFAULT_ENVIRONMENT.api_url,))\n            conn.commit()\n\n" + _GETENV_DEF)



TWINS: list[Twin] = [
    # ---- SQL texts in constants (module level, assembled from other constants, class level); a test result held in a local
    Twin("benign: settings upsert in a module constant shared by the primitive and the fall-back; was-current test through a local", _C, *_multi(_C, [
        _CONST_SET, (_LIT_SET, _K_SET), (_LIT_SET, _K_SET), _was_current("bool(current_row) and current_row[0] == api_url")]), None),
    Twin("benign: upsert and SELECT assembled from a key constant; was-current test negated through a local", _C, *_multi(_C, [
        _CONST_NESTED, (_LIT_SET, _K_SET), (_LIT_SET, _K_SET), (_LIT_GET, _K_GET), (_LIT_GET, _K_GET),
        _was_current("not current_row or current_row[0] != api_url", "not was_current")]), None),
    Twin("benign: upsert in a class constant read through self", _C, *_multi(_C, [_CONST_CLASS, (_LIT_SET, "self." + _K_SET), (_LIT_SET, "self." + _K_SET)]), None),
    Twin("local holds the inverted was-current test", _C, *_multi(_C, [_was_current("bool(current_row) and current_row[0] != api_url")]), "C37.R4"),
    Twin("local holds a was-current test under the wrong polarity", _C, *_multi(_C, [_was_current("bool(current_row) and current_row[0] == api_url", "not was_current")]), "C37.R4"),
    Twin("local compares the stored url with the default instead of the deleted one", _C, *_multi(_C, [_was_current("bool(current_row) and current_row[0] == DEFAULT_ENVIRONMENT.api_url")]), "C37.R4"),
    Twin("was-current test reads the other settings key through a constant", _C, *_multi(_C, [
        (_HEAD, _K_GET + ' = "SELECT value FROM settings WHERE key = \'current_profile\'"\n\n\n' + _HEAD),
        ('            setting_cursor = conn.execute(\n                ' + _LIT_GET + '\n            )\n            row = setting_cursor.fetchone()', '            setting_cursor = conn.execute(' + _K_GET + ')\n            row = setting_cursor.fetchone()')]), "C37.R4"),
    Twin("extra environment writer through a constant assembled from a key constant, no clear", _C, *_multi(_C, [_CONST_NESTED, (_LIT_SET, _K_SET), (_LIT_SET, _K_SET), _extra_writer(_K_SET)]), "C37.R1"),
    Twin("extra environment writer through a class constant, no clear", _C, *_multi(_C, [_CONST_CLASS, (_LIT_SET, "self." + _K_SET), (_LIT_SET, "self." + _K_SET), _extra_writer("self." + _K_SET)]), "C37.R1"),
    # ---- R6 breaking: a value computed from the current environment survives a change of it
    Twin("current_auth_service() keeps its service; delete_environment (which falls back to the default through its callee) forgets it (the seed's form)", _E, *_kept_service(), "C37.R6"),
    Twin("get_current_environment() keeps the Environment; reset on switch/create, not on delete", _E, *_multi(_E, _KEPT_ENV), "C37.R6"),
    Twin("write-through: the selected Environment is returned in place of a settings read; delete never touches it", _E, *_multi(_E, _WRITE_THROUGH), "C37.R6"),
    Twin("current_auth_service memoised by functools.cache; cleared on switch/create only", _E, *_multi(_E, _memo(False)), "C37.R6"),
    Twin("service kept in a module global; reset on switch/create only", _E, *_multi(_E, _global_slot(False)), "C37.R6"),
    Twin("kept service dropped on create only for authenticated environments", _E, *_kept_service("        " + _KEPT + " = None\n" + _DEL, create="        if env.requires_auth:\n            " + _KEPT + " = None\n"), "C37.R6"),
    Twin("kept service re-read before the delete instead of after it", _E, *_kept_service("        " + _KEPT + " = AuthService(self.config_manager(), self.get_current_environment())\n" + _DEL), "C37.R6"),
    Twin("kept service dropped by delete only when nothing was deleted", _E, *_kept_service("        deleted = self.config_manager().delete_environment(api_url)\n        if not deleted:\n            " + _KEPT + " = None\n        return deleted\n"), "C37.R6"),
    # ---- R6 benign: the same cache with every changer dropping it; things kept that are not computed from the environment
    Twin("benign: kept service dropped by all three changers (after the delete, result through a local)", _E, *_kept_service("        deleted = self.config_manager().delete_environment(api_url)\n        " + _KEPT + " = None\n        return deleted\n"), None),
    Twin("benign: kept service dropped before each change", _E, *_kept_service("        " + _KEPT + " = None\n" + _DEL, switch="", create="", extra=[
        ("        self.config_manager().set_settings_current_environment(api_url)\n", "        " + _KEPT + " = None\n        self.config_manager().set_settings_current_environment(api_url)\n"),
        ("        self.config_manager().set_settings_current_environment(env.api_url)\n", "        " + _KEPT + " = None\n        self.config_manager().set_settings_current_environment(env.api_url)\n")]), None),
    Twin("benign: kept service dropped through one private method called by all three changers", _E, *_kept_service("        self." + _H3 + "()\n" + _DEL, switch="        self." + _H3 + "()\n", create="        self." + _H3 + "()\n", extra=[
        ("    def current_auth_service(self) -> AuthService:\n", "    def " + _H3 + "(self) -> None:\n        " + _KEPT + " = None\n\n    def current_auth_service(self) -> AuthService:\n")]), None),
    Twin("benign: kept service recomputed after each change", _E, *_kept_service("        deleted = self.config_manager().delete_environment(api_url)\n        " + _KEPT + " = AuthService(self.config_manager(), self.get_current_environment())\n        return deleted\n"), None),
    Twin("benign: functools.cache cleared by all three changers", _E, *_multi(_E, _memo(True)), None),
    Twin("benign: module-global service reset by all three changers", _E, *_multi(_E, _global_slot(True)), None),
    Twin("benign: the ConfigManager (not computed from the environment) is kept on the service", _E, *_multi(_E, [
        (_EI, _EI + "        self._manager: ConfigManager | None = None\n"),
        (_CAS, "        if self._manager is None:\n            self._manager = self.config_manager()\n        return AuthService(self._manager, self.get_current_environment())\n")]), None),
    Twin("benign: Environment kept by get_current_environment, dropped by all three changers", _E, *_multi(_E, _KEPT_ENV + [(_DEL, "        self._current_env = None\n" + _DEL)]), None),
    # ---- R1: the clear that pairs an environment change must not depend on the stored name or on the profiles table
    Twin("delete_environment clears the pointer only if it names a profile of the removed environment", _C, *_multi(_C, [
        (_CLR, "\n            conn.commit()\n            return True\n"),
        (_DELP, '            conn.execute(\n                "DELETE FROM settings WHERE key = \'current_profile\' AND value IN "\n                "(SELECT name FROM profiles WHERE api_url = ?)",\n                (api_url,),\n            )\n' + _DELP)]), "C37.R1"),
    Twin("fall-back clears the pointer only when the name is dangling everywhere", _C, _CLR,
         _clr('conn.execute("DELETE FROM settings WHERE key = \'current_profile\' AND value NOT IN (SELECT name FROM profiles)")'), "C37.R1"),
    Twin("fall-back clears the pointer under a Python test of the stored name", _C, _CLR,
         _clr('active = conn.execute("SELECT value FROM settings WHERE key = \'current_profile\'").fetchone()\n                if active and active[0] in removed:\n'
              '                    conn.execute("DELETE FROM settings WHERE key = \'current_profile\'")').replace("active[0] in removed", "conn.execute(\"SELECT 1 FROM profiles WHERE name = ?\", (active[0],)).fetchone() is None"), "C37.R1"),
    Twin("the primitive drops only names that exist as profiles", _C, _PRIM_CLR,
         '            if name is None:\n                conn.execute("DELETE FROM settings WHERE key = \'current_profile\' AND value IN (SELECT name FROM profiles)")\n', "C37.R1"),
    Twin("benign: clear spelled with key IN (...)", _C, _CLR, _clr('conn.execute("DELETE FROM settings WHERE key IN (\'current_profile\')")'), None),
    Twin("benign: clear with the literal on the left, parenthesised", _C, _CLR, _clr('conn.execute("DELETE FROM settings WHERE (\'current_profile\' = key)")'), None),
    Twin("benign: clear before the reset inside the same branch", _C, *_multi(_C, [
        (_CLR, "\n            conn.commit()\n            return True\n"),
        ("            if row and row[0] == api_url:\n", '            if row and row[0] == api_url:\n                conn.execute("DELETE FROM settings WHERE key = \'current_profile\'")\n')]), None),
    # ---- SQL assembled from a shared column constant; single-row lookup / reset block behind a private static helper
    Twin("benign: lookup through a static helper over a column constant", _C, *_multi(_C, [_COLS, (_GP, _gp_helper("name = ? AND api_url = ?", "(name, env_url)"))]), None),
    Twin("static helper lookup filters on the name only", _C, *_multi(_C, [_COLS, (_GP, _gp_helper("name = ?", "(name,)"))]), "C37.R2"),
    Twin("static helper lookup binds the parameters swapped", _C, *_multi(_C, [_COLS, (_GP, _gp_helper("name = ? AND api_url = ?", "(env_url, name)"))]), "C37.R2"),
    Twin("benign: SELECT concatenated with a column constant", _C, *_multi(_C, [_COLS, (_SEL, _SEL.replace('"SELECT id, name, api_url, project_id, api_key, api_key_id, device_oidc FROM', '"SELECT " + _COLS + " FROM'))]), None),
    Twin("concatenated SELECT loses the environment filter", _C, *_multi(_C, [_COLS, (_SEL, _SEL.replace('"SELECT id, name, api_url, project_id, api_key, api_key_id, device_oidc FROM', '"SELECT " + _COLS + " FROM').replace(" AND api_url = ?", "").replace("(name, env_url)", "(name,)"))]), "C37.R2"),
    Twin("benign: reset block of delete_environment in a static helper", _C, _RST, _rst_helper(True), None),
    Twin("extracted reset block forgets to clear the profile pointer", _C, _RST, _rst_helper(False), "C37.R1"),
    # ---- R1 breaking
    Twin("switch keeps the profile pointer", _E, _SW, '        self.config_manager().set_settings_current_environment(api_url)\n        return env', "C37.R1"),
    Twin("clear only for authenticated environments", _E, _CU, '        self.config_manager().set_settings_current_environment(env.api_url)\n        if env.requires_auth:\n            self.config_manager().set_settings_current_profile(None)\n', "C37.R1"),
    Twin("extra environment writer in AuthService", _A, "        profiles = self.list_profiles()\n        if profiles:", "        self.config_manager.set_settings_current_environment(self.env.api_url)\n        profiles = self.list_profiles()\n        if profiles:", "C37.R1"),
    Twin("destroy-style reset writes the url inline in a new method", _C, "    def get_environment(self, api_url: str) -> Environment | None:", "    def reset_environment(self) -> None:\n        with sqlite3.connect(self.db_path) as conn:\n            conn.execute(\"UPDATE settings SET value = ? WHERE key = 'current_environment_api_url'\", (DEFAULT_ENVIRONMENT.api_url,))\n            conn.commit()\n\n    def get_environment(self, api_url: str) -> Environment | None:", "C37.R1"),
    # ---- R1 benign
    Twin("benign: clear before switching", _E, _SW, '        self.config_manager().set_settings_current_profile(None)\n        self.config_manager().set_settings_current_environment(api_url)\n        return env', None),
    Twin("benign: manager in a local", _E, _CU, '        cm = self.config_manager()\n        cm.set_settings_current_environment(env.api_url)\n        cm.set_settings_current_profile(name=None)\n', None),
    Twin("benign: repaired delete_environment", _C, "                    (DEFAULT_ENVIRONMENT.api_url,),\n                )\n", "                    (DEFAULT_ENVIRONMENT.api_url,),\n                )\n                conn.execute(\"DELETE FROM settings WHERE key = 'current_profile'\")\n", None),
    # ---- R2 breaking
    Twin("lookup by name across environments", _C, _SEL, _SEL.replace(" AND api_url = ?", "").replace("(name, env_url)", "(name,)"), "C37.R2"),
    Twin("lookup parameters swapped", _C, _SEL, _SEL.replace("(name, env_url)", "(env_url, name)"), "C37.R2"),
    Twin("service asks with the current environment instead of its own", _A, "return self.config_manager.get_current_profile(self.env.api_url)", "return self.config_manager.get_current_profile(self.config_manager.get_current_environment().api_url)", "C37.R2"),
    Twin("manager falls back to lookup by id-less name", _C, _GCP, '        if current_name:\n            return self.get_profile(current_name, env_url) or self.get_profile_by_api_key(env_url, current_name)\n        return None', "C37.R2"),
    # ---- R2 benign
    Twin("benign: where clause reordered", _C, _SEL, _SEL.replace("WHERE name = ? AND api_url = ?", "WHERE api_url = ? AND name = ?").replace("(name, env_url)", "(env_url, name)"), None),
    Twin("benign: early return", _C, _GCP, '        if not current_name:\n            return None\n        return self.get_profile(current_name, env_url)', None),
    Twin("benign: keyword argument", _A, "return self.config_manager.get_current_profile(self.env.api_url)", "return self.config_manager.get_current_profile(env_url=self.env.api_url)", None),
    # ---- R3
    Twin("probe service selects a profile", _E, "        svc = AuthService(self.config_manager(), env)\n        version = svc.fetch_server_version()", "        svc = AuthService(self.config_manager(), env)\n        svc.select_any_profile()\n        version = svc.fetch_server_version()", "C37.R3"),
    Twin("probe service escapes", _E, "        base_env.capabilities = list(version.capabilities)\n        return base_env", "        base_env.capabilities = list(version.capabilities)\n        self._last_probe = svc\n        return base_env", "C37.R3"),
    Twin("pointer written outside AuthService", _C, "            conn.commit()\n            return cursor.rowcount > 0\n\n    def update_profile", "            conn.commit()\n            if cursor.rowcount > 0:\n                self.set_settings_current_profile(profile_name)\n            return cursor.rowcount > 0\n\n    def update_profile", "C37.R3"),
    Twin("benign: probe local renamed", _E, "        svc = AuthService(self.config_manager(), base_env)\n        version = svc.fetch_server_version()", "        probe = AuthService(self.config_manager(), base_env)\n        version = probe.fetch_server_version()", None),
    Twin("benign: current env in a local", _E, "        return AuthService(self.config_manager(), self.get_current_environment())", "        env = self.get_current_environment()\n        return AuthService(self.config_manager(), env)", None),
    # ---- R5 breaking
    Twin("rename keeps the profile active: pointer rewritten by old name (the seed's form)", _C, _UPD, _UPD + _REN_SQL, "C37.R5"),
    Twin("pointer stored by SQL under a key held in a module constant", _C, *_multi(_C, [_PTR, (_UPD, _UPD + _REN_CONST)]), "C37.R5"),
    Twin("new profile made active by SQL inside set_project", _C, '                (project_id, profile_name, env_url),\n            )\n', '                (project_id, profile_name, env_url),\n            )\n            conn.execute("REPLACE INTO settings (key, value) VALUES (\'current_profile\', ?)", (profile_name,))\n', "C37.R5"),
    Twin("primitive normalises the name it stores", _C, "                    (name,),\n", "                    (name.lower(),),\n", "C37.R5"),
    Twin("profile looked up by id (any environment) made active by name", _A, "    def update_profile(self, profile: Auth) -> None:\n", "    def activate_profile_by_id(self, id: str) -> None:\n        profile = self.get_profile_by_id(id)\n        if profile:\n            self.set_current_profile(profile.name)\n\n    def update_profile(self, profile: Auth) -> None:\n", "C37.R5"),
    Twin("selection falls back to a literal name", _A, "        if profiles:\n            self.set_current_profile(profiles[0].name)", "        self.set_current_profile(profiles[0].name if profiles else \"default\")", "C37.R5"),
    # ---- R5 benign
    Twin("benign: a rename clears the pointer (no active profile is allowed)", _C, _UPD, _UPD + _REN_SQL.replace('"UPDATE settings SET value = ? WHERE key = \'current_profile\' AND value = ?",\n                    (profile.name, previous[0]),', '"DELETE FROM settings WHERE key = \'current_profile\' AND value = ?",\n                    (previous[0],),'), None),
    Twin("benign: primitive's statement in a module constant, value through a local", _C, *_multi(_C, [("def _to_auth(row: Any) -> Auth:", '_SET_PTR = "INSERT OR REPLACE INTO settings (key, value) VALUES (\'current_profile\', ?)"\n\n\ndef _to_auth(row: Any) -> Auth:'), ('                conn.execute(\n                    "INSERT OR REPLACE INTO settings (key, value) VALUES (\'current_profile\', ?)",\n                    (name,),\n                )', '                stored = name\n                conn.execute(_SET_PTR, (stored,))')]), None),
    Twin("benign: first profile picked through locals and a loop", _A, "        if profiles:\n            self.set_current_profile(profiles[0].name)", "        for candidate in profiles:\n            chosen = candidate.name\n            self.set_current_profile(chosen)\n            break", None),
    Twin("benign: renamed active profile of the service's own environment stays active (through the service)", _A, "    def update_profile(self, profile: Auth) -> None:\n        self.config_manager.update_profile(profile)\n", "    def update_profile(self, profile: Auth) -> None:\n        active = self.get_current_profile()\n        self.config_manager.update_profile(profile)\n        if active is not None and active.id == profile.id:\n            self.set_current_profile(self.get_profile(profile.name).name)\n", None),
    # ---- R4
    Twin("switch to an unknown url", _E, _CHK, "", "C37.R4"),
    Twin("reset when it was NOT current", _C, "            if row and row[0] == api_url:", "            if row and row[0] != api_url:", "C37.R4"),
    Twin("profiles of the deleted environment stay", _C, '            conn.execute("DELETE FROM profiles WHERE api_url = ?", (api_url,))\n', "", "C37.R4"),
    Twin("benign: reversed comparison", _C, "            if row and row[0] == api_url:", "            if row is not None and api_url == row[0]:", None),
    Twin("benign: explicit None test on lookup", _E, "        if not env:\n            raise ValueError(", "        if env is None:\n            raise ValueError(", None),
]
