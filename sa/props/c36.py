"""C36 — idle runs are released after the idle timeout and reloaded on demand.

Decided (necessary conditions):
  R1  lifecycle protocol: begin_release is a compare-and-set on an *existing* lifecycle row, rows are inserted only by
      the inserting method(s) of RunLifecycleLock (create), so an inserting method must be called on a path that every
      run started under DBOSIdleReleaseDecorator takes before a release can be attempted; and every abstract method of
      RunLifecycleLock has a caller in src (outside tests);
  R2  in-process ordering: idle event -> marker stored -> deferred timer -> sleep(idle_timeout) -> release only when the
      marker is set and at least idle_timeout old -> run dropped from the active set and aborted; send to a released id
      reloads from persisted ticks with the same run id, clears the marker and then delivers the tick;
  R3  DBOS ordering: idle event -> timer scheduled; received tick -> timer cancelled; timer -> sleep(idle_timeout) ->
      begin_release (stop when it fails) -> TickIdleRelease -> await result -> complete_release -> marker stored;
      send to a released id -> _do_resume with the pending tick folded into the rebuilt state and the same run id;
  R4  liveness of the release timer, per idle mark: every reaction to WorkflowIdleEvent that stamps idle_since (in-process)
      / every WorkflowIdleEvent (DBOS) is followed on every exception-free path by the start of a deferred release, and a
      started deferred release reaches the release check on every exception-free path (no early return) -- or, in-process,
      every outcome of the release check that declines because the marker is younger than idle_timeout starts another timer
      that does.  "Skip when a sleeper for the run already exists" without re-arming on decline leaves the second idle period
      of a run (idle -> event -> idle) without any timer that looks at it after its own idle_timeout.
  R5  typestate of the run_lifecycle row (journal/lifecycle.py, every RunLifecycleLock implementation): the row is the only thing
      that tells a replica whether a run is live (`active`) or must be reloaded (`released`), so every statement that writes its
      `state` column *names the state(s) it leaves*: an UPDATE either carries `AND state = <placeholder>` whose bind parameter
      is a RunLifecycleState member, or sits in a read-modify-write whose guards on the decoded row state admit a strict subset of
      the states; every (source -> target) pair so obtained is an edge of active -> releasing -> released -> active (+ the
      crash-timeout takeover releasing -> active); an INSERT registers `active`; every edge of the cycle has a statement; and the
      implementations agree method by method (sibling cross-check).  `complete_release` without its `state = releasing`
      conjunct is an unconditional write of `released`: a releaser that stalled past the crash timeout and finishes after the
      run was force-resumed elsewhere overwrites the live run's `active` row, and the next event purges the live run's workflow
      and journal and starts a second run under the same run id (the reloaded run does not continue from where it stopped).

Not decided: that the reloaded run continues exactly where it stopped (C12 / C13 / C14), real elapsed time, DBOS and
database semantics, what happens to timers of the released run.
"""

from __future__ import annotations

import ast

from ..astx import atoms, call_name, dotted, enclosing_stmt, expand, facts_at, facts_given, kwarg, last, reaching_def
from ..cfg import CFG, exprs_in_node
from ..index import AnchorError, FuncNode, enclosing_function, qualname_of, walk_shallow
from ..selftest import Twin, multi
from .c26 import (  # shared helpers live in c26.py (the brief forbids new shared files under sa/)
    DBI,
    LIFE,
    SRV,
    _decorator_and_adapter,
    _forward_sends,
    abstract_methods,
    enum_members,
    fn_params,
    lifecycle_impls,
    method,
    need_method,
    sql_statements,
    state_member,
    strip_await,
)

EXPLANATION = (
    "Static necessary-condition rules for release-after-timeout and reload-on-demand on both server stacks. "
    "R1: the SQL of every RunLifecycleLock implementation is read: methods that INSERT a row (today: create) versus methods that only "
    "UPDATE … WHERE (begin_release …); unless begin_release itself inserts, some inserting method must be called — through a receiver "
    "whose value comes from the lifecycle factory — in a function reachable from the run-start hooks of DBOSIdleReleaseDecorator "
    "(its run_workflow override, the methods of the internal adapter it builds, or what they call / spawn); and each abstract method "
    "of RunLifecycleLock has at least one such typed caller under packages/*/src. "
    "R2/R3: control-flow ordering obligations (dominance / must-pass on the statement CFG, exception edges excluded) for the in-process "
    "and DBOS release and reload paths, with the timeout comparison normalised (`elapsed < timeout` must be false at the release act) "
    "and the sleep bound to the decorator's idle_timeout constructor parameter. "
    "R4 (liveness by construction, both stacks): a timer looks at the run for every idle mark.  Decided on the statement CFG without exception / cancellation edges: "
    "(a) in-process, from every statement that stores a non-None idle_since in the internal adapter's write_to_event_stream, every path to the exit starts `_deferred_release` "
    "(outcomes of other tests that contradict the guards of the mark are excluded); DBOS, every path through write_to_event_stream on which the event is a WorkflowIdleEvent "
    "calls `_schedule_deferred_release`; (b) every path through `_deferred_release` from entry to exit evaluates a call of `_release_idle_handler` (directly or through a method "
    "of the decorator that itself always does, two levels) -- a deferred release that returns early because of state left by an earlier mark never examines its own mark; "
    "(c) in-process only, accepted instead of (b): in `_release_idle_handler` every path that leaves through the `elapsed < idle_timeout` (too early) outcome starts / awaits a "
    "method of the decorator that always reaches the release check.  DBOS has no age test in its release check (the timer is cancelled and re-armed per tick), so only (a)+(b) apply. "
    "Not decided by R4: that the re-armed timer sleeps long enough (R2/R3 bind the first sleep), early returns that could be justified by a proof that a newer live timer exists (reported), "
    "whether `_schedule_deferred_release` may keep a live older timer (harmless on DBOS because every received tick cancels it). "
    "R5 (typestate of the run_lifecycle row, every RunLifecycleLock implementation): the SQL of every method is read; each statement that writes the `state` column is a "
    "transition.  For an UPDATE the source states are (a) the RunLifecycleState member bound to the placeholder of the `AND state = <placeholder>` conjunct of its WHERE clause "
    "(a placeholder without a matching bind parameter, or one bound to something that is not a member, names nothing), or (b) when the WHERE clause has no state conjunct, the set "
    "of members for which the statement is reachable, by case analysis of the function's guards over the state decoded from a SELECT of the same run id in the same function.  "
    "Obligations: every UPDATE names a non-empty strict subset of the states and is keyed by the method's run id parameter; every (source -> target) pair is an edge of "
    "active -> releasing -> released -> active or the takeover releasing -> active (so `active`, the live state, is left only towards `releasing`); every INSERT registers `active`; "
    "every edge of the cycle is written by some statement of each implementation; the implementations' transition tables agree method by method.  "
    "Not decided by R5: atomicity of the read-modify-write and the crash-timeout condition of the takeover (C26.R4), that callers call the transitions in order (R1/R3), SQL engine semantics. "
    "Not decided: equality of the resumed execution (C12-C14), timer accuracy, DBOS / database semantics."
)
TRUSTED = ["CPython ast", "asyncio.sleep / task scheduling", "DBOS workflow completion", "SQL semantics of INSERT / UPDATE … WHERE"]
LEVEL_TEXT = "static necessary-condition rules (typestate of the lifecycle row incl. source-state-named transitions, caller liveness of the lifecycle API, CFG ordering)"
LEVEL_NOTE = "A pass means the release / reload paths are wired in the required order; it does not show that the reloaded run continues correctly (C12-C14) or that timers are accurate."
TECHNIQUE = "ast + call graph inside the idle-release modules + CFG dominance / must-pass + small SQL reader + case analysis of guards over the lifecycle enum"


# ======================================================================================= helpers


def _lifecycle_factories(repo) -> set[str]:
    """Names of repo functions whose return annotation mentions RunLifecycleLock."""
    out = set()
    for mod in repo.by_rel.values():
        if "llama_agents" not in mod.name:
            continue
        for q, f in mod.functions.items():
            r = getattr(f, "returns", None)
            if r is not None and "RunLifecycleLock" in ast.unparse(r):
                out.add(q.split(".")[-1])
    return out


def _typed_lifecycle(expr: ast.AST, at: ast.AST, factories: set[str], fn: ast.AST | None, annotated_attrs: set[str]) -> bool:
    e = strip_await(expr)
    if isinstance(e, ast.Call):
        return (last(call_name(e)) or "") in factories
    if isinstance(e, ast.Attribute):
        return e.attr in annotated_attrs
    if isinstance(e, ast.Name):
        if fn is not None:
            for a in fn.args.posonlyargs + fn.args.args + fn.args.kwonlyargs:
                if a.arg == e.id and a.annotation is not None and "RunLifecycleLock" in ast.unparse(a.annotation):
                    return True
        d = reaching_def(e.id, at)
        if d is not None:
            return _typed_lifecycle(d, d, factories, fn, annotated_attrs)
    return False


def _annotated_attrs(mod) -> set[str]:
    out = set()
    for n in ast.walk(mod.tree):
        if isinstance(n, ast.AnnAssign) and isinstance(n.target, ast.Attribute) and "RunLifecycleLock" in ast.unparse(n.annotation):
            out.add(n.target.attr)
    return out


def _typed_calls(repo, names: set[str]) -> dict[str, list[tuple[object, ast.AST, ast.Call]]]:
    factories = _lifecycle_factories(repo)
    if not factories:
        raise AnchorError("C36.R1: no function returning RunLifecycleLock found (cannot type lifecycle receivers)")
    out: dict[str, list] = {n: [] for n in names}
    for mod in repo.by_rel.values():
        if "llama_agents" not in mod.name or mod.name == LIFE:
            continue
        ann = _annotated_attrs(mod)
        for c in ast.walk(mod.tree):
            if isinstance(c, ast.Call) and isinstance(c.func, ast.Attribute) and c.func.attr in names:
                fn = enclosing_function(c)
                if _typed_lifecycle(c.func.value, c, factories, fn, ann):
                    out[c.func.attr].append((mod, fn, c))
                    repo.consulted.add(mod.rel)
    return out


def _reachable(mod, roots: list[ast.AST], classes: list[ast.ClassDef]) -> set[int]:
    """Functions of `classes` (and module functions) reachable from roots by method-name calls, including
    coroutine calls passed to a spawner."""
    by_name: dict[str, list[ast.AST]] = {}
    for c in classes:
        for n in c.body:
            if isinstance(n, FuncNode):
                by_name.setdefault(n.name, []).append(n)
    for q, f in mod.functions.items():
        if "." not in q:
            by_name.setdefault(q, []).append(f)
    seen: set[int] = set()
    work = list(roots)
    while work:
        f = work.pop()
        if id(f) in seen:
            continue
        seen.add(id(f))
        for c in ast.walk(f):
            if isinstance(c, ast.Call):
                nm = last(call_name(c))
                for g in by_name.get(nm or "", []):
                    if id(g) not in seen:
                        work.append(g)
    return seen


def _reassigned_names(fn: ast.AST) -> set[str]:
    from ..astx import assigned_names

    out: set[str] = set()
    for s in walk_shallow(fn):
        if isinstance(s, (ast.Assign, ast.AugAssign, ast.AnnAssign, ast.For, ast.AsyncFor, ast.With, ast.AsyncWith)):
            out |= assigned_names(s)
        elif isinstance(s, ast.NamedExpr) and isinstance(s.target, ast.Name):
            out.add(s.target.id)
    return out


_PURE_TESTS = {"isinstance", "len", "bool"}


def _stable_atoms(test_stmt: ast.AST, positive: bool, reassigned: set[str]) -> set[tuple[str, bool]]:
    """Normalised facts of one outcome of a test, for the test as written and with its straight-line locals substituted
    (`flag = isinstance(…)` … `if flag:`); a form that mentions a name the function re-binds, or that awaits / calls anything but isinstance, len, bool, is not stable and is dropped."""
    out: set[tuple[str, bool]] = set()
    for variant in (test_stmt.test, expand(test_stmt.test, test_stmt)):
        if {x.id for x in ast.walk(variant) if isinstance(x, ast.Name) and isinstance(x.ctx, ast.Load) and x.id not in _PURE_TESTS} & reassigned:
            continue
        if any(isinstance(x, (ast.Await, ast.NamedExpr)) or (isinstance(x, ast.Call) and call_name(x) not in _PURE_TESTS) for x in ast.walk(variant)):
            continue  # two evaluations of an awaited / effectful test need not agree
        out |= set(atoms(variant, positive))
    return out


def _consistent_blocked(cfg: CFG, node, fn: ast.AST) -> list[tuple[object, str]]:
    """Branch edges that contradict the guards of `node`: an outcome of another test that asserts the negation of a fact
    known at `node` (same normalised predicate over names that are never re-assigned in the function, locals that hold a
    test result substituted) cannot lie on a path to `node`."""
    reassigned = _reassigned_names(fn)
    known: set[tuple[str, bool]] = set()
    guard_nodes = set()
    for t, lab in cfg.guards(node):
        if t.kind != "test" or lab not in ("T", "F") or not hasattr(t.ast, "test"):
            continue
        guard_nodes.add(t)
        known |= _stable_atoms(t.ast, lab == "T", reassigned)
    out = []
    if not known:
        return out
    for o in cfg.nodes:
        if o in guard_nodes or o.kind != "test" or not hasattr(o.ast, "test"):
            continue
        for lab in ("T", "F"):
            if any((txt, not pol) in known for txt, pol in _stable_atoms(o.ast, lab == "T", reassigned)):
                out.append((o, lab))
    return out


def _must_precede(cfg: CFG, fn: ast.AST, first: list[ast.AST], then: ast.AST) -> bool:
    """Every exception-free path from entry to statement `then` passes one of the statements `first`."""
    fnodes = [n for s in first for n in cfg.nodes_of(s)]
    ok = True
    for tn in cfg.nodes_of(then):
        blocked_edges = _consistent_blocked(cfg, tn, fn)
        r = cfg.reach([cfg.entry], blocked=fnodes, blocked_edges=blocked_edges, labels_excluded=("exc", "cancel"))
        if tn in r:
            ok = False
    return ok and bool(fnodes)


def _stmt_calls(fn: ast.AST, name: str) -> list[ast.Call]:
    return sorted([c for c in ast.walk(fn) if isinstance(c, ast.Call) and last(call_name(c)) == name], key=lambda c: (c.lineno, c.col_offset))


def _guard_isinstance(cfg: CFG, stmt: ast.AST, cls_name: str) -> bool:
    """`isinstance(<x>, <cls_name>)` is known to be true at `stmt` (path facts: nested if, early return, negated test,
    a local that holds the test result)."""
    for n in cfg.nodes_of(stmt):
        for txt, pol in facts_at(cfg, n):
            if not pol or "isinstance" not in txt:
                continue
            try:
                x = ast.parse(txt, mode="eval").body
            except SyntaxError:
                continue
            if isinstance(x, ast.Call) and call_name(x) == "isinstance" and len(x.args) == 2 and cls_name in ast.unparse(x.args[1]):
                return True
    return False


def _timeout_attr(m, deco: ast.ClassDef) -> str:
    """self.<attr> assigned from the `idle_timeout` constructor parameter."""
    init = need_method(m, deco, "__init__")
    if "idle_timeout" not in fn_params(init):
        raise AnchorError(f"{deco.name}.__init__ has no `idle_timeout` parameter")
    for s in ast.walk(init):
        if isinstance(s, (ast.Assign, ast.AnnAssign)):
            tgt = s.targets[0] if isinstance(s, ast.Assign) else s.target
            if isinstance(tgt, ast.Attribute) and isinstance(s.value, ast.Name) and s.value.id == "idle_timeout":
                return tgt.attr
    raise AnchorError(f"{deco.name}.__init__ does not store `idle_timeout`")


def _sleep_then_release(chk, rule: str, m, deco: ast.ClassDef, stack: str) -> None:
    tattr = _timeout_attr(m, deco)
    dr = need_method(m, deco, "_deferred_release")
    cfg = CFG(dr)
    rel = _stmt_calls(dr, "_release_idle_handler")
    if not rel:
        raise AnchorError(f"{rule}: {deco.name}._deferred_release does not call _release_idle_handler")
    sleeps = [c for c in _stmt_calls(dr, "sleep") if c.args and dotted(expand(c.args[0], c)) == f"self.{tattr}"]
    for c in rel:
        ok = bool(sleeps) and _must_precede(cfg, dr, [enclosing_stmt(s) for s in sleeps], enclosing_stmt(c))
        chk.ob(rule, f"[{stack}] the deferred release waits `self.{tattr}` (= idle_timeout) before it tries to release", ok, m=m, node=c, fn=dr,
               instance="timer:sleep-idle-timeout", reason=f"_release_idle_handler is reachable without `await asyncio.sleep(self.{tattr})` (released earlier than the idle timeout)")


# ======================================================================================= R4 (a timer for every idle mark)

_RELEASE = "_release_idle_handler"
_NORMAL = ("exc", "cancel")


def _examining_nodes(deco: ast.ClassDef, fn: ast.AST, cfg: CFG, depth: int, seen: frozenset) -> list:
    """CFG nodes of `fn` that evaluate a call of the release check, or of a method of `deco` (called, awaited or handed
    as a coroutine to a spawner) every exception-free path of which reaches the release check."""
    out = []
    for n in cfg.nodes:
        for x in exprs_in_node(n):
            if not isinstance(x, ast.Call):
                continue
            nm = last(call_name(x)) or ""
            if nm == _RELEASE:
                out.append(n)
                break
            g = method(deco, nm)
            if g is not None and g is not fn and depth > 0 and _always_examines(deco, g, depth - 1, seen):
                out.append(n)
                break
    return out


def _always_examines(deco: ast.ClassDef, fn: ast.AST, depth: int = 2, seen: frozenset = frozenset()) -> bool:
    """Every exception-free path from the entry of `fn` to its exit evaluates the release check."""
    if id(fn) in seen:
        return False
    seen = seen | {id(fn)}
    cfg = CFG(fn)
    hits = _examining_nodes(deco, fn, cfg, depth, seen)
    return bool(hits) and cfg.exit not in cfg.reach([cfg.entry], blocked=hits, labels_excluded=_NORMAL)


def _decline_rearms(m, deco: ast.ClassDef, tattr: str) -> tuple[int, bool]:
    """(number of too-early outcomes in the release check, every one of them is followed on all exception-free paths to
    the exit by the start of a timer that always reaches the release check)."""
    rel = need_method(m, deco, _RELEASE)
    cfg = CFG(rel)
    edges = []
    for o in cfg.nodes:
        if o.kind != "test" or not hasattr(o.ast, "test"):
            continue
        for lab in ("T", "F"):
            fs = set(atoms(o.ast.test, lab == "T")) | set(atoms(expand(o.ast.test, o.ast), lab == "T"))
            if any((pol and t.endswith(f"< self.{tattr}")) or (not pol and t.startswith(f"self.{tattr} <")) for t, pol in fs):
                edges.append((o, lab))
    rearm = _examining_nodes(deco, rel, cfg, 2, frozenset({id(rel)}))
    rearm = [n for n in rearm if not any(isinstance(x, ast.Call) and last(call_name(x)) == _RELEASE for x in exprs_in_node(n))]
    ok = bool(edges)
    for o, lab in edges:
        starts = [t for l2, t in cfg.succ[o] if l2 == lab]
        if cfg.exit in starts or cfg.exit in cfg.reach(starts, blocked=rearm, labels_excluded=_NORMAL):
            ok = False
    return len(edges), ok


def _spawns_of(fn: ast.AST, name: str) -> list[ast.Call]:
    return [c for c in ast.walk(fn) if isinstance(c, ast.Call) and any(isinstance(a, ast.Call) and last(call_name(a)) == name for a in c.args)]


def _idle_atom(cfg: CFG, stmt: ast.AST) -> str | None:
    """Normalised text of the fact `isinstance(<x>, WorkflowIdleEvent)` known true at `stmt`."""
    for n in cfg.nodes_of(stmt):
        for txt, pol in facts_at(cfg, n):
            if pol and txt.startswith("isinstance(") and "WorkflowIdleEvent" in txt:
                return txt
    return None


def rule_r4(chk) -> None:
    repo = chk.repo
    n_sites = 0
    # ---------------- in-process
    m, deco, _ext, internal = _decorator_and_adapter(repo, SRV, "IdleReleaseDecorator")
    if internal is None:
        raise AnchorError("C36.R4: IdleReleaseDecorator.get_internal_adapter builds no adapter class of its module")
    w = need_method(m, internal, "write_to_event_stream")
    cfg = CFG(w)
    marks = [c for c in _stmt_calls(w, "update_handler_status") if kwarg(c, "idle_since") is not None and not (isinstance(kwarg(c, "idle_since"), ast.Constant) and kwarg(c, "idle_since").value is None)]
    spawns = _spawns_of(w, "_deferred_release")
    if not spawns:
        raise AnchorError(f"C36.R4: {internal.name}.write_to_event_stream does not spawn _deferred_release")
    if not marks:  # nothing to quantify over; C36.R2 (mark-before-timer) reports the missing marker
        n_sites += 1
        chk.observe("C36.R4: write_to_event_stream of the in-process adapter stores no idle marker; see C36.R2")
    spawn_nodes = [n for c in spawns for n in cfg.nodes_of(enclosing_stmt(c))]
    for c in marks:
        n_sites += 1
        ok = True
        for mn in cfg.nodes_of(enclosing_stmt(c)):
            r = cfg.reach([mn], blocked=spawn_nodes, blocked_edges=_consistent_blocked(cfg, mn, w), labels_excluded=_NORMAL, include_starts=False)
            ok = ok and cfg.exit not in r
        chk.ob("C36.R4", "[in-process] every idle mark (idle_since stored on WorkflowIdleEvent) is followed by the start of its own deferred release", ok, m=m, node=c, fn=w,
               instance="idle-mark:timer-follows",
               reason="a path stores idle_since and leaves write_to_event_stream without spawning _deferred_release: when an older sleeper wakes it finds the newer marker too young, "
                      "declines, and no timer is left for this idle period (idle -> event -> idle is never released)")
    tattr = _timeout_attr(m, deco)
    dr = need_method(m, deco, "_deferred_release")
    n_sites += 1
    direct = _always_examines(deco, dr)
    n_decl, rearmed = (0, False) if direct else _decline_rearms(m, deco, tattr)
    chk.ob("C36.R4", "[in-process] a started deferred release always reaches the release check (or a declined check re-arms a timer)", direct or rearmed, m=m, node=dr, fn=dr,
           instance="timer:always-examines",
           reason=f"_deferred_release can return without calling {_RELEASE} (an early return that depends on state left by an earlier idle mark), and the {n_decl} too-early outcome(s) "
                  f"`elapsed < self.{tattr}` of {_RELEASE} return without starting another timer: idle at t0, event at t0+0.3T, idle again -> the new deferred release returns at once, "
                  "the old sleeper wakes at t0+T, sees a marker 0.7T old, declines, and nothing examines the run again: it is never released")
    # ---------------- DBOS
    md, ddeco, _dext, dinternal = _decorator_and_adapter(repo, DBI, "DBOSIdleReleaseDecorator")
    if dinternal is None:
        raise AnchorError("C36.R4: DBOSIdleReleaseDecorator.get_internal_adapter builds no adapter class of its module")
    dw = need_method(md, dinternal, "write_to_event_stream")
    dcfg = CFG(dw)
    sch = _stmt_calls(dw, "_schedule_deferred_release")
    if not sch:
        raise AnchorError(f"C36.R4: {dinternal.name}.write_to_event_stream does not schedule the deferred release")
    idle = next((a for a in (_idle_atom(dcfg, enclosing_stmt(c)) for c in sch) if a), None)
    n_sites += 1
    if idle is None:
        ok = False  # R3 reports the missing isinstance guard; without it there is no "idle path" to quantify over
    else:
        reassigned = _reassigned_names(dw)
        not_idle = [(o, lab) for o in dcfg.nodes if o.kind == "test" and hasattr(o.ast, "test") for lab in ("T", "F") if (idle, False) in _stable_atoms(o.ast, lab == "T", reassigned)]
        r = dcfg.reach([dcfg.entry], blocked=[n for c in sch for n in dcfg.nodes_of(enclosing_stmt(c))], blocked_edges=not_idle, labels_excluded=_NORMAL)
        ok = bool(not_idle) and dcfg.exit not in r
    chk.ob("C36.R4", "[dbos] every WorkflowIdleEvent schedules a deferred release", ok, m=md, node=sch[0], fn=dw, instance="idle-event:always-schedules",
           reason="a path on which the event is a WorkflowIdleEvent leaves write_to_event_stream without _schedule_deferred_release: the previous timer was cancelled by the received tick, so this idle period has no timer")
    ddr = need_method(md, ddeco, "_deferred_release")
    n_sites += 1
    chk.ob("C36.R4", "[dbos] a started deferred release always reaches the release check", _always_examines(ddeco, ddr), m=md, node=ddr, fn=ddr, instance="timer:always-examines",
           reason=f"_deferred_release can return without calling {_RELEASE}: the timer armed for this idle period (the only one: scheduling cancels the previous) never attempts the release")
    chk.floor("C36.R4", "idle marks / deferred-release timers examined (in-process mark, in-process timer, DBOS idle event, DBOS timer)", n_sites, 4)


# ======================================================================================= R1


def rule_r1(chk) -> None:
    repo = chk.repo
    m0, base, impls, _ename, _members = lifecycle_impls(repo)
    abstract = abstract_methods(base)
    chk.floor("C36.R1", "abstract methods of RunLifecycleLock", len(abstract), 4)
    chk.floor("C36.R1", "RunLifecycleLock implementations", len(impls), 2)
    inserting: dict[str, set[str]] = {}
    for ref, m, cls in impls:
        ins = set()
        for name in abstract:
            f = method(cls, name)
            if f is None:
                raise AnchorError(f"C36.R1: {cls.name} does not implement `{name}`")
            sqls = sql_statements(f)
            if not sqls:
                raise AnchorError(f"C36.R1: no SQL statement recognised in {cls.name}.{name}")
            if any(s.verb == "INSERT" for s in sqls):
                ins.add(name)
        inserting[cls.name] = ins
    sets = list(inserting.values())
    if any(s != sets[0] for s in sets):
        raise AnchorError(f"C36.R1: implementations disagree on which methods insert a lifecycle row: {inserting}")
    ins = sets[0]
    if not ins:
        raise AnchorError("C36.R1: no RunLifecycleLock method inserts a row")
    calls = _typed_calls(repo, set(abstract))
    chk.floor("C36.R1", "typed call sites of RunLifecycleLock methods in src", sum(len(v) for v in calls.values()), 1)
    md, deco, _ext, internal = _decorator_and_adapter(repo, DBI, "DBOSIdleReleaseDecorator")
    if internal is None:
        raise AnchorError("C36.R1: DBOSIdleReleaseDecorator.get_internal_adapter builds no adapter class of its module")
    for name in abstract:
        if name in ins:
            continue
        chk.ob("C36.R1", f"RunLifecycleLock.{name} has a caller in src", bool(calls[name]), m=m0, node=method(base, name), fn=method(base, name),
               instance=f"caller:{name}", reason=f"no call of `{name}` on a lifecycle-lock receiver anywhere under packages/*/src: this transition of the state machine never happens")
    # the row must exist before the CAS
    if "begin_release" in ins:
        chk.observe("C36.R1: begin_release itself inserts the lifecycle row (upsert); no separate registration is required")
        return
    rel = need_method(md, deco, "_release_idle_handler")
    br = [c for (_mod, fn, c) in calls["begin_release"] if fn is rel]
    if not br:
        raise AnchorError("C36.R1: DBOSIdleReleaseDecorator._release_idle_handler does not call begin_release on the lifecycle lock")
    roots = [f for f in [method(deco, "run_workflow")] if f is not None] + [n for n in internal.body if isinstance(n, FuncNode) and n.name != "__init__"]
    reach = _reachable(md, roots, [deco, internal])
    creators = [(mod, fn, c) for name in ins for (mod, fn, c) in calls[name]]
    good = [(mod, fn, c) for (mod, fn, c) in creators if mod is md and fn is not None and id(fn) in reach and fn is not rel]
    ok = bool(good)
    if creators and not good:
        reason = (f"`{'/'.join(sorted(ins))}` is called only from {sorted({qualname_of(fn) for _m, fn, _c in creators if fn is not None})}, none of which is reached from "
                  f"{deco.name}.run_workflow or the per-run hooks of {internal.name}")
    else:
        reason = (f"begin_release is `UPDATE … WHERE run_id = ? AND state = 'active'` on an existing row; rows are inserted only by `{'/'.join(sorted(ins))}`, which has no "
                  f"caller under packages/*/src ({deco.name} does not override run_workflow): every begin_release returns False, so a DBOS-backed run is never released")
    chk.ob("C36.R1", "a lifecycle row is inserted for every run started under DBOSIdleReleaseDecorator before begin_release can be attempted", ok,
           m=md, node=br[0], fn=rel, instance="lifecycle-row-created", reason=reason,
           path=[f"{deco.name}.run_workflow (inherited, forwards only)", "WorkflowIdleEvent -> _schedule_deferred_release -> _deferred_release -> _release_idle_handler",
                 "lifecycle.begin_release(run_id): UPDATE matches 0 rows -> False -> return (no TickIdleRelease)"] if not ok else None)


# ======================================================================================= R2 (in-process ordering)


def rule_r2(chk) -> None:
    repo = chk.repo
    m, deco, ext, internal = _decorator_and_adapter(repo, SRV, "IdleReleaseDecorator")
    if internal is None:
        raise AnchorError("C36.R2: IdleReleaseDecorator.get_internal_adapter builds no adapter class of its module")
    n_sites = 0
    # (a) idle event: marker stored, then timer spawned
    w = need_method(m, internal, "write_to_event_stream")
    cfg = CFG(w)
    spawns = [c for c in ast.walk(w) if isinstance(c, ast.Call) and any(isinstance(a, ast.Call) and last(call_name(a)) == "_deferred_release" for a in c.args)]
    marks = [c for c in _stmt_calls(w, "update_handler_status") if kwarg(c, "idle_since") is not None and not (isinstance(kwarg(c, "idle_since"), ast.Constant) and kwarg(c, "idle_since").value is None)]
    if not spawns:
        raise AnchorError(f"C36.R2: {internal.name}.write_to_event_stream does not spawn _deferred_release")
    for c in spawns:
        n_sites += 1
        st = enclosing_stmt(c)
        g = _guard_isinstance(cfg, st, "WorkflowIdleEvent")
        chk.ob("C36.R2", "the deferred release timer is started when (and only when) the run announces WorkflowIdleEvent", g, m=m, node=c, fn=w,
               instance="idle-event:spawn-timer", reason="the spawn is not under isinstance(event, WorkflowIdleEvent)")
        ok = bool(marks) and _must_precede(cfg, w, [enclosing_stmt(x) for x in marks], st)
        chk.ob("C36.R2", "the handler is marked idle (idle_since stored) before the release timer is started", ok, m=m, node=c, fn=w,
               instance="idle-event:mark-before-timer", reason="a path starts the timer without having stored idle_since: the release finds no marker and never releases")
    # (b) timer
    _sleep_then_release(chk, "C36.R2", m, deco, "in-process")
    n_sites += 1
    # (c) release decision
    tattr = _timeout_attr(m, deco)
    rel = need_method(m, deco, "_release_idle_handler")
    rcfg = CFG(rel)
    aborts = _stmt_calls(rel, "_abort_inner_run") + _stmt_calls(rel, "abort")
    if not aborts:
        raise AnchorError("C36.R2: _release_idle_handler has no abort act")
    for c in aborts:
        n_sites += 1
        st = enclosing_stmt(c)
        facts = set()
        for n in rcfg.nodes_of(st):
            facts |= facts_at(rcfg, n)
        old_enough = [t for t, pol in facts if pol is False and t.endswith(f"< self.{tattr}") and "idle_since" in t]
        too_early = [t for t, pol in facts if t.endswith(f"< self.{tattr}") or t.startswith(f"self.{tattr} <")]
        has_marker = any(pol is False and "idle_since" in t and " is " in t and "None" in t for t, pol in facts)
        chk.ob("C36.R2", f"the run is aborted only when idle_since is set and at least self.{tattr} old", bool(old_enough) and has_marker, m=m, node=c, fn=rel,
               instance="release:old-enough",
               reason=f"abort is not dominated by `idle_since is not None` and `not (now - idle_since < self.{tattr})`; timeout facts seen: {sorted(too_early)[:2]}")
        discards = [d for d in ast.walk(rel) if isinstance(d, ast.Call) and isinstance(d.func, ast.Attribute) and d.func.attr in ("discard", "remove") and "_active_run_ids" in ast.unparse(d.func.value)]
        ok = bool(discards) and _must_precede(rcfg, rel, [enclosing_stmt(d) for d in discards], st)
        chk.ob("C36.R2", "the released run id leaves the active set (so the next send reloads it)", ok, m=m, node=c, fn=rel, instance="release:leave-active-set",
               reason="abort without removing the run id from _active_run_ids: later sends go to a dead control loop instead of reloading")
    # (d) reload on demand
    send = need_method(m, ext, "send_event")
    scfg = CFG(send)
    reloads = _stmt_calls(send, "_ensure_active_run_locked") + _stmt_calls(send, "_ensure_active_run")
    fwd = _forward_sends(send)
    if not reloads or not fwd:
        raise AnchorError(f"C36.R2: {ext.name}.send_event has no reload call or no forwarding send")
    for c in reloads:
        n_sites += 1
        st = enclosing_stmt(c)
        released_branch = False
        for n in scfg.nodes_of(st):
            for t, pol in facts_at(scfg, n):
                if pol is False and " in " in t and t.endswith("_active_run_ids"):
                    released_branch = True
        chk.ob("C36.R2", "a send to a run id that is not active reloads the run", released_branch, m=m, node=c, fn=send, instance="reload:on-inactive",
               reason="the reload call is not on the `run_id not in _active_run_ids` branch")
        after = scfg.reach([n for n in scfg.nodes_of(st)], blocked=[n for f in fwd for n in scfg.nodes_of(enclosing_stmt(f))], labels_excluded=("exc", "cancel"), include_starts=False)
        chk.ob("C36.R2", "after the reload the tick is delivered to the reloaded run", scfg.exit not in after, m=m, node=c, fn=send, instance="reload:then-send",
               reason="a path leaves send_event after the reload without forwarding the tick")
    ens = need_method(m, deco, "_ensure_active_run_locked")
    ecfg = CFG(ens)
    runs = [c for c in ast.walk(ens) if isinstance(c, ast.Call) and isinstance(c.func, ast.Attribute) and c.func.attr == "run" and kwarg(c, "run_id") is not None]
    if not runs:
        raise AnchorError("C36.R2: _ensure_active_run_locked does not call workflow.run(run_id=…)")
    for c in runs:
        n_sites += 1
        rid = kwarg(c, "run_id")
        same = isinstance(rid, ast.Name) and rid.id == fn_params(ens)[1]
        ctx = kwarg(c, "ctx")
        from_ticks = ctx is not None and "context_from_ticks" in ast.unparse(_deep_expand(ctx, c))
        chk.ob("C36.R2", "the reload restarts the same run id from the context rebuilt out of persisted ticks", same and from_ticks, m=m, node=c, fn=ens, instance="reload:from-ticks",
               reason=f"workflow.run is given run_id=`{ast.unparse(rid) if rid is not None else None}` / ctx not derived from context_from_ticks")
        clears = [x for x in _stmt_calls(ens, "update_handler_status") if isinstance(kwarg(x, "idle_since"), ast.Constant) and kwarg(x, "idle_since").value is None]
        after = ecfg.reach([n for n in ecfg.nodes_of(enclosing_stmt(c))], blocked=[n for x in clears for n in ecfg.nodes_of(enclosing_stmt(x))], labels_excluded=("exc", "cancel"), include_starts=False)
        chk.ob("C36.R2", "the reload clears the idle marker", bool(clears) and ecfg.exit not in after, m=m, node=c, fn=ens, instance="reload:clear-marker",
               reason="the reloaded handler keeps its old idle_since: the next release check sees a run that has been `idle` for long and aborts it at once")
    chk.floor("C36.R2", "in-process release / reload sites", n_sites, 5)


def _deep_expand(e: ast.AST, at: ast.AST, depth: int = 4) -> ast.AST:
    """expand(), but also through awaited definitions (x = await f(…) -> f(…)).  Works on a re-parsed copy (the
    indexed tree carries parent pointers and must not be deep-copied or mutated)."""
    e2 = ast.parse(ast.unparse(expand(e, at)), mode="eval").body

    class Sub(ast.NodeTransformer):
        def visit_Await(self, node):
            return self.visit(node.value)

        def visit_Name(self, node):
            if isinstance(node.ctx, ast.Load) and depth > 0:
                d = reaching_def(node.id, at)
                if isinstance(d, ast.Await):
                    return _deep_expand(d.value, d, depth - 1)
            return node

    return ast.fix_missing_locations(Sub().visit(e2))


# ======================================================================================= R3 (DBOS ordering)


def rule_r3(chk) -> None:
    repo = chk.repo
    m, deco, ext, internal = _decorator_and_adapter(repo, DBI, "DBOSIdleReleaseDecorator")
    if internal is None:
        raise AnchorError("C36.R3: DBOSIdleReleaseDecorator.get_internal_adapter builds no adapter class of its module")
    n_sites = 0
    w = need_method(m, internal, "write_to_event_stream")
    cfg = CFG(w)
    sch = _stmt_calls(w, "_schedule_deferred_release")
    if not sch:
        raise AnchorError(f"C36.R3: {internal.name}.write_to_event_stream does not schedule the deferred release")
    for c in sch:
        n_sites += 1
        chk.ob("C36.R3", "the DBOS release timer is scheduled on WorkflowIdleEvent", _guard_isinstance(cfg, enclosing_stmt(c), "WorkflowIdleEvent"), m=m, node=c, fn=w,
               instance="idle-event:schedule", reason="_schedule_deferred_release is not under isinstance(event, WorkflowIdleEvent)")
    wr = need_method(m, internal, "wait_receive")
    wcfg = CFG(wr)
    can = _stmt_calls(wr, "_cancel_deferred_release")
    chk.ob("C36.R3", "a received tick cancels the pending release timer", bool(can) and all(_guard_isinstance(wcfg, enclosing_stmt(c), "WaitResultTick") for c in can), m=m,
           node=can[0] if can else wr, fn=wr, instance="tick:cancel-timer", reason="wait_receive does not cancel the deferred release when a tick arrives")
    n_sites += 1
    sd = need_method(m, deco, "_schedule_deferred_release")
    keep = any(isinstance(s, ast.Assign) and isinstance(s.targets[0], ast.Subscript) and "_deferred_release_tasks" in ast.unparse(s.targets[0]) for s in ast.walk(sd))
    spawn = any(isinstance(c, ast.Call) and any(isinstance(a, ast.Call) and last(call_name(a)) == "_deferred_release" for a in c.args) for c in ast.walk(sd))
    chk.ob("C36.R3", "scheduling spawns _deferred_release and remembers the task so that it can be cancelled", keep and spawn, m=m, node=sd, fn=sd, instance="schedule:spawn-and-keep",
           reason="the timer task is not spawned or not stored under the run id")
    n_sites += 1
    _sleep_then_release(chk, "C36.R3", m, deco, "dbos")
    n_sites += 1
    # release: CAS gate -> TickIdleRelease -> completion watcher
    rel = need_method(m, deco, "_release_idle_handler")
    rcfg = CFG(rel)
    sends = [c for c in _stmt_calls(rel, "send_event") if c.args and isinstance(c.args[0], ast.Call) and last(call_name(c.args[0])) == "TickIdleRelease"]
    if not sends:
        raise AnchorError("C36.R3: _release_idle_handler does not send TickIdleRelease")
    for c in sends:
        n_sites += 1
        gated = False
        for n in rcfg.nodes_of(enclosing_stmt(c)):
            for t, lab in rcfg.guards(n):
                if t.kind == "test":
                    for text, pol in atoms(_deep_expand(t.ast.test, t.ast), lab == "T"):
                        if pol and "begin_release(" in text:
                            gated = True
        chk.ob("C36.R3", "TickIdleRelease is sent only by the caller whose begin_release succeeded", gated, m=m, node=c, fn=rel, instance="release:cas-gate",
               reason="the send is not dominated by a true outcome of lifecycle.begin_release(run_id)")
        watchers = [x for x in ast.walk(rel) if isinstance(x, ast.Call) and any(isinstance(a, ast.Call) and last(call_name(a)) == "_await_and_mark_released" for a in x.args)]
        after = rcfg.reach(rcfg.nodes_of(enclosing_stmt(c)), blocked=[n for x in watchers for n in rcfg.nodes_of(enclosing_stmt(x))], labels_excluded=("exc", "cancel"), include_starts=False)
        chk.ob("C36.R3", "after TickIdleRelease the completion watcher is started (releasing -> released, handler marked idle)", bool(watchers) and rcfg.exit not in after,
               m=m, node=c, fn=rel, instance="release:watcher", reason="a path sends TickIdleRelease and returns without spawning _await_and_mark_released: the row stays `releasing`")
    am = need_method(m, deco, "_await_and_mark_released")
    acfg = CFG(am)
    gr, cr = _stmt_calls(am, "get_result"), _stmt_calls(am, "complete_release")
    mk = [c for c in _stmt_calls(am, "update_handler_status") if kwarg(c, "idle_since") is not None and not (isinstance(kwarg(c, "idle_since"), ast.Constant) and kwarg(c, "idle_since").value is None)]
    if not cr:
        raise AnchorError("C36.R3: _await_and_mark_released does not call complete_release")
    for c in cr:
        n_sites += 1
        ok = bool(gr) and _must_precede(acfg, am, [enclosing_stmt(x) for x in gr], enclosing_stmt(c))
        chk.ob("C36.R3", "complete_release happens only after the old workflow's result has been awaited", ok, m=m, node=c, fn=am, instance="watcher:await-then-complete",
               reason="complete_release is reachable without awaiting external.get_result(): a resumer may start a second control loop while the first still runs")
        after = acfg.reach(acfg.nodes_of(enclosing_stmt(c)), blocked=[n for x in mk for n in acfg.nodes_of(enclosing_stmt(x))], labels_excluded=("exc", "cancel"), include_starts=False)
        chk.ob("C36.R3", "after complete_release the handler is marked idle (idle_since stored)", bool(mk) and acfg.exit not in after, m=m, node=c, fn=am, instance="watcher:mark-idle",
               reason="the released handler is never marked idle")
    # resume on demand
    send = need_method(m, ext, "send_event")
    res_calls = _stmt_calls(send, "_do_resume")
    if not res_calls:
        raise AnchorError(f"C36.R3: {ext.name}.send_event never calls _do_resume")
    tick = fn_params(send)[1]
    for c in res_calls:
        n_sites += 1
        pt = kwarg(c, "pending_tick", 1)
        chk.ob("C36.R3", "the tick that triggered the resume is handed to _do_resume", isinstance(pt, ast.Name) and pt.id == tick, m=m, node=c, fn=send, instance="resume:pending-tick",
               reason="_do_resume is called without the pending tick: the event that woke the run is lost")
    res = need_method(m, deco, "_do_resume")
    starts = _stmt_calls(res, "run_workflow")
    if not starts:
        raise AnchorError("C36.R3: _do_resume does not call run_workflow")
    for c in starts:
        n_sites += 1
        st_arg = c.args[2] if len(c.args) > 2 else kwarg(c, "init_state")
        # the state passed on every path includes the pending tick when there is one: the (conditional) fold assigns the same name
        folds = [s for s in ast.walk(res) if isinstance(s, ast.Assign) and isinstance(s.value, ast.Call) and last(call_name(s.value)) in ("rebuild_state_from_ticks", "_reduce_tick")
                 and any("pending_tick" in ast.unparse(a) for a in s.value.args) and isinstance(s.targets[0], ast.Name)]
        ok = isinstance(st_arg, ast.Name) and any(f.targets[0].id == st_arg.id and f.value.args and isinstance(f.value.args[0], ast.Name) and f.value.args[0].id == st_arg.id for f in folds)
        if ok:
            rc = CFG(res)
            for f in folds:
                guarded = any(t.kind == "test" and lab == "T" and "pending_tick is not None" in ast.unparse(t.ast.test) or (t.kind == "test" and lab == "T" and ast.unparse(t.ast.test) == "pending_tick")
                              for n in rc.nodes_of(f) for t, lab in rc.guards(n))
                unguarded = not any(t.kind == "test" for n in rc.nodes_of(f) for t, _l in rc.guards(n))
                ok = ok and (guarded or unguarded)
        chk.ob("C36.R3", "the rebuilt state handed to run_workflow has the pending tick folded in", ok, m=m, node=c, fn=res, instance="resume:fold-pending",
               reason="the state passed to run_workflow is not the one produced by rebuild_state_from_ticks(<state>, [pending_tick])")
        from_ticks = isinstance(st_arg, ast.Name) and any(
            isinstance(s, ast.Assign) and isinstance(s.targets[0], ast.Name) and s.targets[0].id == st_arg.id and "_broker_state_from_ticks" in ast.unparse(s.value) for s in ast.walk(res))
        chk.ob("C36.R3", "the resumed run starts from the state rebuilt out of the persisted ticks", from_ticks, m=m, node=c, fn=res, instance="resume:from-ticks",
               reason="run_workflow's state does not come from _broker_state_from_ticks(workflow, run_id)")
    chk.floor("C36.R3", "DBOS release / resume sites", n_sites, 8)


# ======================================================================================= R5 (typestate of the run_lifecycle row)

_INITIAL = "active"
_CYCLE = (("active", "releasing"), ("releasing", "released"), ("released", "active"))
_EDGES = {
    ("active", "releasing"): "release begun by the idle timer",
    ("releasing", "released"): "release completed by the releaser",
    ("released", "active"): "reload on demand",
    ("releasing", "active"): "crash-timeout takeover of a release that never completed",
}
_CLOBBER = {
    ("active", "released"): "a run that is live (`active`, e.g. force-resumed on another replica after the crash timeout) is recorded as `released`: the next event deletes the "
                            "live run's workflow and journal and starts a second run under the same run id instead of delivering to it",
    ("active", "active"): "an `active` (live) run is claimed again: the caller is told it owns a resume and starts a second control loop for a run that never stopped",
    ("released", "releasing"): "a run that is already out of memory is put back to `releasing` with nobody left to complete it: events wait for the crash timeout",
    ("released", "released"): "the write no longer distinguishes a release it completed from one somebody else completed or took over",
    ("releasing", "releasing"): "a release that is already in progress is begun again by a second releaser",
    ("active", "releasing"): "",
}
_STOP = ("RETURNING", "ORDER", "FOR", "LIMIT", "GROUP", "ON", "VALUES")


class _Write:
    """One statement that writes the `state` column of the lifecycle row."""

    def __init__(self, meth: str, fn: ast.AST, sql, kind: str, target: str | None):
        self.meth, self.fn, self.sql, self.kind, self.target = meth, fn, sql, kind, target
        self.sources: frozenset | None = None  # None: names no source state
        self.how = ""  # "where" | "guard"
        self.why = ""
        self.keyed = True

    def edges(self) -> frozenset:
        return frozenset((s_, self.target) for s_ in self.sources) if self.sources is not None else frozenset({("*", self.target)})


def _where_tokens(sql) -> list[str]:
    up = sql.upper()
    if "WHERE" not in up:
        return []
    out = []
    for t in up[up.index("WHERE") + 1:]:
        if t in _STOP:
            break
        out.append(t)
    return out


def _row_state_subject(fn: ast.AST, ename: str, runid: str, sqls: list, before: ast.AST) -> str | None:
    """Local that holds `<Enum>(row[...])` where `row` is the result of a SELECT of this run id in `fn`."""
    selects = [q for q in sqls if q.verb == "SELECT"]
    for x in ast.walk(fn):
        if not (isinstance(x, ast.Assign) and len(x.targets) == 1 and isinstance(x.targets[0], ast.Name) and isinstance(x.value, ast.Call) and last(call_name(x.value)) == ename):
            continue
        for nm in [n for a in x.value.args for n in ast.walk(a) if isinstance(n, ast.Name)]:
            d = reaching_def(nm.id, x)
            if d is None:
                continue
            for q in selects:
                if any(c is q.call for c in ast.walk(d)):
                    _s, w = q.assignments()
                    rid = w.get("run_id")
                    if isinstance(rid, ast.Name) and rid.id == runid:
                        return x.targets[0].id
    return None


def _state_writes(cls: ast.ClassDef, ename: str, members: dict, rule: str = "C36.R5", mod=None) -> list[_Write]:
    """Every statement of the methods of `cls` that writes the `state` column, with the source states it names."""
    out: list[_Write] = []
    for f in cls.body:
        if not isinstance(f, FuncNode) or f.name == "__init__":
            continue
        sqls = sql_statements(f)
        params = fn_params(f)
        runid = params[1] if len(params) > 1 else None
        for q in sqls:
            if q.verb == "INSERT":
                vals = q.insert_values()
                sets, _w = q.assignments()  # ON CONFLICT … DO UPDATE SET …
                for v in [d["state"] for d in (vals, sets) if "state" in d]:
                    w = _Write(f.name, f, q, "insert", state_member(v, ename, members, q.call))
                    if w.target is None:
                        raise AnchorError(f"{rule}: `{cls.name}.{f.name}` inserts a lifecycle row whose state is not a {ename} member the reader can resolve")
                    out.append(w)
                continue
            if q.verb != "UPDATE":
                continue
            sets, where = q.assignments()
            if "state" not in sets:
                continue
            w = _Write(f.name, f, q, "update", state_member(sets["state"], ename, members, q.call))
            if w.target is None:
                raise AnchorError(f"{rule}: `{cls.name}.{f.name}` sets the lifecycle state to something that is not a {ename} member the reader can resolve")
            rid = where.get("run_id")
            if isinstance(rid, ast.Name) and rid.id != runid:
                d = reaching_def(rid.id, q.call)
                rid = d if isinstance(d, ast.Name) else rid
            w.keyed = isinstance(rid, ast.Name) and rid.id == runid
            wt = _where_tokens(q)
            if "OR" in wt:
                raise AnchorError(f"{rule}: `{cls.name}.{f.name}`: WHERE clause with OR is not understood by the SQL reader")
            has_read = any(x.verb == "SELECT" for x in sqls)
            subj = _row_state_subject(f, ename, runid or "", sqls, q.call) if has_read else None
            by_guard = False
            if "state" in where:
                mem = state_member(where["state"], ename, members, q.call)
                shown = where["state"]
                bound = dotted(shown) if isinstance(shown, ast.AST) else None
                shown = ast.unparse(shown) if isinstance(shown, ast.AST) else shown
                if mem is not None:
                    w.sources, w.how = frozenset({mem}), "where"
                elif subj is not None and bound in (subj, f"{subj}.value"):
                    by_guard = True  # optimistic compare-and-set on the state just read: the guards say which states those are
                else:
                    w.why = (f"the placeholder of `state = {shown}` has no matching bind parameter that is a {ename} member" if isinstance(shown, str) and (shown.startswith("$") or shown == "?")
                             else f"`state = {shown}` in WHERE is not a {ename} member")
            elif any(t.split(".")[-1] == "STATE" for t in wt):
                raise AnchorError(f"{rule}: `{cls.name}.{f.name}`: WHERE mentions `state` in a form other than `state = <value>`")
            else:
                by_guard = True
            if by_guard:
                if has_read and subj is None:
                    raise AnchorError(f"{rule}: `{cls.name}.{f.name}` reads the row but does not decode its state into a {ename} local (cannot tell from which states it writes `{w.target}`)")
                if subj is None:
                    w.why = f"the UPDATE has no `AND state = <expected>` conjunct (and no bind parameter for one) and the method does not read the row first: the write of `{w.target}` is unconditional"
                else:
                    cfg = CFG(f)
                    domain = [f"{ename}.{k}" for k in members]
                    reach = {k for k in members for n in cfg.nodes_of(enclosing_stmt(q.call)) if facts_given(cfg, n, subj, f"{ename}.{k}", domain, mod=mod)[0]}
                    if reach == set(members):
                        w.why = f"the UPDATE is reachable whatever the decoded row state `{subj}` is and its WHERE clause names no {ename} member: the write of `{w.target}` is unconditional"
                    elif not reach:
                        w.why = f"the UPDATE is unreachable for every value of the decoded row state `{subj}`"
                    else:
                        w.sources, w.how = frozenset(reach), "guard"
            out.append(w)
    return out


def _fmt_edges(ws: list[_Write]) -> str:
    return ", ".join(sorted(f"{'|'.join(sorted(w.sources)) if w.sources is not None else '<any>'} -> {w.target}" + (" (insert)" if w.kind == "insert" else "") for w in ws)) or "no state write"


def rule_r5(chk) -> None:
    repo = chk.repo
    m0, base, impls, ename, members = lifecycle_impls(repo)
    chk.floor("C36.R5", "RunLifecycleLock implementations", len(impls), 2)
    n_upd = n_ins = n_where = n_guard = 0
    tables: dict[str, dict[str, list[_Write]]] = {}
    seen_ins: set[int] = set()
    for _ref, m, cls in impls:
        ws = _state_writes(cls, ename, members, mod=m)
        tables[cls.name] = {}
        for w in ws:
            tables[cls.name].setdefault(w.meth, []).append(w)
            if w.kind == "insert":
                n_ins += id(w.sql) not in seen_ins
                seen_ins.add(id(w.sql))
                chk.ob("C36.R5", f"{cls.name}.{w.meth}: a row is registered as `{_INITIAL}` (a run that has just started is live)", w.target == _INITIAL, m=m, node=w.sql.call, fn=w.fn,
                       instance=f"register:{w.meth}", reason=f"the INSERT writes `{w.target}`: the first event sent to the new run is treated as a send to a run that is not live")
                continue
            n_upd += 1
            n_where += w.how == "where"
            n_guard += w.how == "guard"
            if w.sources is None:
                bad = [(s_, w.target) for s_ in members if (s_, w.target) not in _EDGES]
                reason = w.why
            else:
                bad = [(s_, w.target) for s_ in sorted(w.sources) if (s_, w.target) not in _EDGES]
                reason = f"names source state(s) {sorted(w.sources)} ({'WHERE bind parameter' if w.how == 'where' else 'guards on the decoded row state'}), but " \
                         f"{', '.join(f'`{a} -> {b}`' for a, b in bad)} is not a transition of active -> releasing -> released -> active (+ takeover releasing -> active)" if bad else ""
            if w.sources is None and bad:
                cons = [f"`{a} -> {b}`: {_CLOBBER.get((a, b)) or 'not a transition of the lifecycle'}" for a, b in bad]
                reason += "; rows it now also overwrites: " + "; ".join(cons)
            if not w.keyed:
                reason = (reason + "; " if reason else "") + "WHERE run_id is not bound to the method's run id parameter"
            chk.ob("C36.R5", f"{cls.name}.{w.meth}: the write of `{w.target}` names the state(s) it leaves (compare-and-set on the lifecycle row) and they are legal predecessors of `{w.target}`",
                   w.sources is not None and not bad and w.keyed, m=m, node=w.sql.call, fn=w.fn, instance=f"source-state:{w.meth}->{w.target}", reason=reason)
        # every edge of the cycle is written by some statement (an unnamed source is reported above and counts as covering)
        ups = [w for w in ws if w.kind == "update"]
        for a, b in _CYCLE:
            cov = any(w.target == b and (w.sources is None or a in w.sources) for w in ups)
            chk.ob("C36.R5", f"{cls.name}: some statement moves a row `{a}` -> `{b}` ({_EDGES[(a, b)]})", cov, m=m, node=cls, fn=None, instance=f"edge:{cls.name}:{a}->{b}",
                   reason=f"no UPDATE of {cls.name} leaves `{a}` for `{b}` (transitions found: {_fmt_edges(ws)}): rows stay `{a}` for ever, "
                          + {"releasing": "idle runs are never released", "released": "events sent to a released run wait on `releasing` until the crash timeout", "active": "a released run is never reloaded"}[b])
    # sibling cross-check: the implementations realise the same state machine, method by method
    names = sorted({k for t in tables.values() for k in t} | {a for a in abstract_methods(base) if any(a in t for t in tables.values())})
    first_cls = impls[0][2]
    n_sib = 0
    for meth in names:
        n_sib += 1
        sigs = {cn: frozenset((w.kind, e) for w in t.get(meth, []) for e in w.edges()) for cn, t in tables.items()}
        same = len(set(sigs.values())) == 1
        odd = next((c for _r, _m, c in impls if sigs[c.name] != sigs[first_cls.name]), first_cls)
        odd_m = next(mm for _r, mm, c in impls if c is odd)
        node = method(odd, meth) or odd
        chk.ob("C36.R5", f"all RunLifecycleLock implementations realise the same transitions in `{meth}`", same, m=odd_m, node=node, fn=node if isinstance(node, FuncNode) else None,
               instance=f"siblings:{meth}",
               reason="; ".join(f"{cn}.{meth}: {_fmt_edges(t.get(meth, []))}" for cn, t in tables.items()) + " -- a deployment on one backend releases / reloads runs under a different state machine than the other")
    chk.floor("C36.R5", "UPDATE statements that write the lifecycle state (begin_release, complete_release, try_begin_resume x 2 backends)", n_upd, 6)
    chk.observe(f"C36.R5: of the {n_upd} lifecycle UPDATEs, {n_where} name their source state in the WHERE clause (bind parameter / literal) and {n_guard} through guards on the decoded row state "
                "(confirmed by reading: 4 and 2)")
    chk.floor("C36.R5", "INSERT statements that register a row (create x 2 backends)", n_ins, 2)
    chk.floor("C36.R5", "methods cross-checked between the implementations", n_sib, 4)


FIXTURE_R5 = "fixtures/c36/unconditional_transition.py"


def _fixture_r5(chk) -> None:
    """The source-state reader is exercised on a planted lock on every run: an unconditional completion, a placeholder whose
    bind parameter is gone, a guard that admits every state -- and a correct compare-and-set that must be read as named."""
    from ..index import _set_parents
    from ..report import VERIF

    p = VERIF / FIXTURE_R5
    if not p.is_file():
        raise AnchorError(f"fixture {FIXTURE_R5} missing")
    tree = ast.parse(p.read_text())
    _set_parents(tree)
    enum = next(n for n in tree.body if isinstance(n, ast.ClassDef) and n.name == "RunLifecycleState")
    cls = next(n for n in tree.body if isinstance(n, ast.ClassDef) and n.name == "PlantedLifecycleLock")
    ws = {w.meth: w for w in _state_writes(cls, "RunLifecycleState", enum_members(enum), rule="C36.fixture")}
    bad = sum(ws[k].sources is None for k in ("complete_release_unconditional", "complete_release_unbound", "resume_any_state") if k in ws)
    good = sum(k in ws and ws[k].sources == frozenset(v) for k, v in (("begin_release", {"active"}), ("resume_guarded", {"released", "releasing"})))
    wrong = "complete_release_from_active" in ws and ws["complete_release_from_active"].sources == frozenset({"active"}) and ("active", "released") not in _EDGES
    chk.floor("C36.fixture", "planted lifecycle writes that name no source state recognised (no state conjunct, placeholder without bind parameter, guard admitting every state)", bad, 3)
    chk.floor("C36.fixture", "planted correct compare-and-set / guarded claim read as naming their source states; planted `active -> released` read as an illegal edge", good + int(wrong), 3)


def run(chk) -> None:
    from ._engine import engine_view
    chk.extra["helpers_inlined"] = engine_view(chk.repo)
    rule_r1(chk)
    rule_r2(chk)
    rule_r3(chk)
    rule_r4(chk)
    rule_r5(chk)
    _fixture_r5(chk)


# ======================================================================================= twins

_SRV = "packages/llama-agents-server/src/llama_agents/server/_runtime/idle_release_runtime.py"
_DBI = "packages/llama-agents-dbos/src/llama_agents/dbos/idle_release.py"
_LIFE = "packages/llama-agents-dbos/src/llama_agents/dbos/journal/lifecycle.py"

# the repair proposed in the report for C36.R1 (a twin pair is anchored on it so that it becomes active once applied)
_R1_FIX_ANCHOR = "        await lifecycle.create(run_id)\n"

_W_MARK = ("        if isinstance(event, WorkflowIdleEvent):\n            idle_since = datetime.now(timezone.utc)\n            await self._store.update_handler_status(\n"
           "                self.run_id, status=\"running\", idle_since=idle_since\n            )\n            self._marked_idle = True\n")
_W_SPAWN = "        self._runtime._spawn_task(self._runtime._deferred_release(self.run_id))\n"
_W_OLD = _W_MARK + "        await super().write_to_event_stream(event)\n        if isinstance(event, WorkflowIdleEvent):\n    " + _W_SPAWN

_DR_OLD = "        await asyncio.sleep(self._idle_timeout)\n        await self._release_idle_handler(run_id)\n"
_DECLINE = "            if elapsed < self._idle_timeout:\n                return\n"
_DR_TO_DECLINE = (_DR_OLD + "\n    async def _release_idle_handler(self, run_id: str) -> None:\n        \"\"\"Release an idle handler from memory.\"\"\"\n        async with self._reload_lock(run_id):\n"
                  "            handlers = await self._store.query(HandlerQuery(run_id_in=[run_id]))\n            if len(handlers) != 1 or handlers[0].idle_since is None:\n                return\n"
                  "            elapsed = (\n                datetime.now(timezone.utc) - handlers[0].idle_since\n            ).total_seconds()\n" + _DECLINE)

_PG_COMPLETE = ('f"WHERE run_id = $3 AND state = $4",\n            RunLifecycleState.released.value,\n            datetime.now(timezone.utc),\n            run_id,\n'
                "            RunLifecycleState.releasing.value,\n        )")
_PG_COMPLETE_UNCOND = 'f"WHERE run_id = $3",\n            RunLifecycleState.released.value,\n            datetime.now(timezone.utc),\n            run_id,\n        )'
_SQ_COMPLETE = ('f"WHERE run_id = ? AND state = ?",\n                    (\n                        RunLifecycleState.released.value,\n                        datetime.now(timezone.utc).isoformat(),\n'
                "                        run_id,\n                        RunLifecycleState.releasing.value,\n                    ),")
_SQ_COMPLETE_UNCOND = ('f"WHERE run_id = ?",\n                    (\n                        RunLifecycleState.released.value,\n                        datetime.now(timezone.utc).isoformat(),\n'
                       "                        run_id,\n                    ),")
_SQ_CLAIM_TEST = ("                if state == RunLifecycleState.released or (\n                    state == RunLifecycleState.releasing\n                    and crash_timeout_seconds is not None\n"
                  "                    and (\n                        datetime.now(timezone.utc)\n")

TWINS = [
    # ---- R1
    Twin("R1 complete_release called on the wrong object", _DBI, "            await lifecycle.complete_release(run_id)\n", "            await self._store.complete_release(run_id)\n", "C36.R1"),
    Twin("R1 resume claim never called", _DBI, "            result = await lifecycle.try_begin_resume(\n                self.run_id, crash_timeout_seconds=CRASH_TIMEOUT_SECONDS\n            )",
         "            result = await self._runtime._peek_state(\n                self.run_id, crash_timeout_seconds=CRASH_TIMEOUT_SECONDS\n            )", "C36.R1"),
    Twin("R1 benign: renamed lifecycle local", _DBI, "            lifecycle = await self._get_lifecycle()\n            await lifecycle.complete_release(run_id)\n", "            lock = await self._get_lifecycle()\n            await lock.complete_release(run_id)\n", None),
    Twin("R1 benign: inline receiver", _DBI, "        lifecycle = await self._get_lifecycle()\n        if not await lifecycle.begin_release(run_id):\n", "        lifecycle = await self._get_lifecycle()\n        if not await (await self._get_lifecycle()).begin_release(run_id):\n", None),
    Twin("R1 (repaired tree) registration dropped again", _DBI, _R1_FIX_ANCHOR, "        lifecycle.create\n", "C36.R1"),
    Twin("R1 (repaired tree) benign: awaited receiver inline", _DBI, "        lifecycle = await self._get_lifecycle()\n        await lifecycle.create(run_id)\n", "        await (await self._get_lifecycle()).create(run_id)\n", None),
    # ---- R2
    Twin("R2 timer before the marker", _SRV,
         "            await self._store.update_handler_status(\n                self.run_id, status=\"running\", idle_since=idle_since\n            )\n            self._marked_idle = True\n        await super().write_to_event_stream(event)\n",
         "            self._marked_idle = True\n        await super().write_to_event_stream(event)\n", "C36.R2"),
    Twin("R2 benign: idle test held in a local, early return before the spawn", _SRV, _W_OLD,
         "        became_idle = isinstance(event, WorkflowIdleEvent)\n" + _W_MARK.replace("isinstance(event, WorkflowIdleEvent)", "became_idle")
         + "        await super().write_to_event_stream(event)\n        if not became_idle:\n            return\n" + _W_SPAWN, None),
    Twin("R2 local idle test: early return inverted (timer for every other event)", _SRV, _W_OLD,
         "        became_idle = isinstance(event, WorkflowIdleEvent)\n" + _W_MARK.replace("isinstance(event, WorkflowIdleEvent)", "became_idle")
         + "        await super().write_to_event_stream(event)\n        if became_idle:\n            return\n" + _W_SPAWN, "C36.R2"),
    Twin("R2 local idle test: marker stored on the other outcome", _SRV, _W_OLD,
         "        became_idle = isinstance(event, WorkflowIdleEvent)\n" + _W_MARK.replace("isinstance(event, WorkflowIdleEvent)", "not became_idle")
         + "        await super().write_to_event_stream(event)\n        if not became_idle:\n            return\n" + _W_SPAWN, "C36.R2"),
    Twin("R2 local idle test re-bound between the marker and the spawn", _SRV, _W_OLD,
         "        became_idle = isinstance(event, WorkflowIdleEvent)\n" + _W_MARK.replace("isinstance(event, WorkflowIdleEvent)", "became_idle")
         + "        await super().write_to_event_stream(event)\n        became_idle = isinstance(event, Event)\n        if not became_idle:\n            return\n" + _W_SPAWN, "C36.R2"),
    Twin("R2 timer for every event", _SRV, "        await super().write_to_event_stream(event)\n        if isinstance(event, WorkflowIdleEvent):\n            self._runtime._spawn_task", "        await super().write_to_event_stream(event)\n        if isinstance(event, Event):\n            self._runtime._spawn_task", "C36.R2"),
    Twin("R2 release without waiting", _SRV, "        await asyncio.sleep(self._idle_timeout)\n        await self._release_idle_handler(run_id)\n", "        await asyncio.sleep(0)\n        await self._release_idle_handler(run_id)\n", "C36.R2"),
    Twin("R2 inverted timeout comparison", _SRV, "            if elapsed < self._idle_timeout:\n                return\n", "            if elapsed > self._idle_timeout:\n                return\n", "C36.R2"),
    Twin("R2 marker not required", _SRV, "            if len(handlers) != 1 or handlers[0].idle_since is None:\n                return\n", "            if len(handlers) != 1:\n                return\n", "C36.R2"),
    Twin("R2 released id stays active", _SRV, "            self._active_run_ids.discard(run_id)\n            self._abort_inner_run(run_id)\n", "            self._abort_inner_run(run_id)\n", "C36.R2"),
    Twin("R2 reload with a fresh run id", _SRV, "        workflow.run(ctx=context, run_id=run_id)\n", "        workflow.run(ctx=context, run_id=handler.handler_id)\n", "C36.R2"),
    Twin("R2 reload from scratch", _SRV, "        context = replayed.context if replayed is not None else None\n", "        context = None\n", "C36.R2"),
    Twin("R2 reload keeps the old marker", _SRV, "        self._active_run_ids.add(run_id)\n        await self._store.update_handler_status(run_id, idle_since=None)\n", "        self._active_run_ids.add(run_id)\n", "C36.R2"),
    Twin("R2 reload returns without sending", _SRV, "                await self._runtime._ensure_active_run_locked(self.run_id)\n            else:", "                await self._runtime._ensure_active_run_locked(self.run_id)\n                return\n            else:", "C36.R2"),
    Twin("R2 benign: >= form of the timeout test", _SRV, "            if elapsed < self._idle_timeout:\n                return\n            if run_id not in self._active_run_ids:\n                return\n",
         "            if not (elapsed >= self._idle_timeout):\n                return\n            if run_id not in self._active_run_ids:\n                return\n", None),
    Twin("R2 benign: nested-if release", _SRV, "            if run_id not in self._active_run_ids:\n                return\n            self._active_run_ids.discard(run_id)\n            self._abort_inner_run(run_id)\n            logger.info(f\"Released idle handler [run_id={run_id}] from memory\")\n",
         "            if run_id in self._active_run_ids:\n                self._active_run_ids.discard(run_id)\n                self._abort_inner_run(run_id)\n                logger.info(f\"Released idle handler [run_id={run_id}] from memory\")\n", None),
    Twin("R2 benign: timeout bound to a local", _SRV, "        await asyncio.sleep(self._idle_timeout)\n        await self._release_idle_handler(run_id)\n", "        delay = self._idle_timeout\n        await asyncio.sleep(delay)\n        await self._release_idle_handler(run_id)\n", None),
    # ---- R4
    Twin("R4 seed form: one sleeper per run, later deferred releases return at once", _SRV, _DR_OLD,
         "        if run_id in self._background_pending:\n            return\n        self._background_pending.add(run_id)\n        try:\n    " + _DR_OLD.replace("\n        await self._release", "\n            await self._release")
         + "        finally:\n            self._background_pending.discard(run_id)\n", "C36.R4"),
    Twin("R4 variant: early return after the sleep when the marker looks newer than this sleeper", _SRV, _DR_OLD,
         "        armed_at = datetime.now(timezone.utc)\n        await asyncio.sleep(self._idle_timeout)\n        if self._last_mark.get(run_id, armed_at) > armed_at:\n            return\n        await self._release_idle_handler(run_id)\n", "C36.R4"),
    Twin("R4 variant: de-duplication at the spawn site (second idle mark gets no timer)", _SRV,
         "        if isinstance(event, WorkflowIdleEvent):\n    " + _W_SPAWN,
         "        if isinstance(event, WorkflowIdleEvent) and self.run_id not in self._runtime._sleeping:\n            self._runtime._sleeping.add(self.run_id)\n    " + _W_SPAWN, "C36.R4"),
    Twin("R4 dbos: timer armed only for the first idle event of a run", _DBI,
         "        if isinstance(event, WorkflowIdleEvent):\n            self._runtime._schedule_deferred_release(self.run_id)\n",
         "        if isinstance(event, WorkflowIdleEvent) and not getattr(self, \"_armed\", False):\n            self._armed = True\n            self._runtime._schedule_deferred_release(self.run_id)\n", "C36.R4"),
    Twin("R4 seed form whose decline re-spawns the same de-duplicated sleeper (still pending: returns at once)", _SRV, _DR_TO_DECLINE,
         _DR_TO_DECLINE.replace(_DR_OLD, "        if run_id in self._background_pending:\n            return\n        self._background_pending.add(run_id)\n        try:\n    "
                                + _DR_OLD.replace("\n        await self._release", "\n            await self._release") + "        finally:\n            self._background_pending.discard(run_id)\n")
         .replace(_DECLINE, "            if elapsed < self._idle_timeout:\n                self._spawn_task(self._deferred_release(run_id))\n                return\n"), "C36.R4"),
    Twin("R4 benign: bookkeeping around the sleeper in try/finally, no early return", _SRV, _DR_OLD,
         "        logger.debug(f\"release timer armed [run_id={run_id}]\")\n        try:\n    " + _DR_OLD.replace("\n        await self._release", "\n            await self._release")
         + "        finally:\n            logger.debug(f\"release timer done [run_id={run_id}]\")\n", None),
    Twin("R4 benign: one sleeper per run, but a declined check re-arms a timer for the remainder", _SRV, _DR_TO_DECLINE,
         _DR_TO_DECLINE.replace(_DR_OLD, "        if run_id in self._background_pending:\n            return\n        self._background_pending.add(run_id)\n        try:\n    "
                                + _DR_OLD.replace("\n        await self._release", "\n            await self._release") + "        finally:\n            self._background_pending.discard(run_id)\n\n"
                                "    async def _release_later(self, run_id: str, delay: float) -> None:\n        await asyncio.sleep(delay)\n        await self._release_idle_handler(run_id)\n")
         .replace(_DECLINE, "            if elapsed < self._idle_timeout:\n                self._spawn_task(self._release_later(run_id, self._idle_timeout - elapsed))\n                return\n"), None),
    Twin("R4 benign (dbos): idle test in a local, early return for other events", _DBI,
         "        if isinstance(event, WorkflowIdleEvent):\n            self._runtime._schedule_deferred_release(self.run_id)\n",
         "        went_idle = isinstance(event, WorkflowIdleEvent)\n        if not went_idle:\n            return\n        self._runtime._schedule_deferred_release(self.run_id)\n", None),
    # ---- R3
    Twin("R3 schedule on every event", _DBI, "        if isinstance(event, WorkflowIdleEvent):\n            self._runtime._schedule_deferred_release(self.run_id)\n", "        self._runtime._schedule_deferred_release(self.run_id)\n", "C36.R3"),
    Twin("R3 received tick does not cancel", _DBI, "        if isinstance(result, WaitResultTick):\n            self._runtime._cancel_deferred_release(self.run_id)\n", "        if isinstance(result, WaitResultTick):\n            pass\n", "C36.R3"),
    Twin("R3 release without waiting", _DBI, "        await asyncio.sleep(self._idle_timeout)\n        self._deferred_release_tasks.pop(run_id, None)\n", "        await asyncio.sleep(0)\n        self._deferred_release_tasks.pop(run_id, None)\n", "C36.R3"),
    Twin("R3 CAS result ignored", _DBI, "        if not await lifecycle.begin_release(run_id):\n            return\n", "        await lifecycle.begin_release(run_id)\n", "C36.R3"),
    Twin("R3 CAS gate inverted", _DBI, "        if not await lifecycle.begin_release(run_id):\n            return\n", "        if await lifecycle.begin_release(run_id):\n            return\n", "C36.R3"),
    Twin("R3 completion watcher not started", _DBI, "        self._spawn_task(self._await_and_mark_released(run_id, external))\n", "        self._await_and_mark_released\n", "C36.R3"),
    Twin("R3 complete before the old run ended", _DBI, "            await external.get_result()\n\n            lifecycle = await self._get_lifecycle()\n            await lifecycle.complete_release(run_id)\n",
         "            lifecycle = await self._get_lifecycle()\n            await lifecycle.complete_release(run_id)\n            await external.get_result()\n", "C36.R3"),
    Twin("R3 pending tick dropped at the call", _DBI, "                await self._runtime._do_resume(self.run_id, pending_tick=tick)\n", "                await self._runtime._do_resume(self.run_id)\n", "C36.R3"),
    Twin("R3 pending tick folded into a throw-away state", _DBI, "            init_state = rebuild_state_from_ticks(init_state, [pending_tick])\n", "            _unused = rebuild_state_from_ticks(init_state, [pending_tick])\n", "C36.R3"),
    Twin("R3 resumed handler never marked idle on release", _DBI, "            await self._store.update_handler_status(\n                run_id, status=\"running\", idle_since=datetime.now(timezone.utc)\n            )\n", "            pass\n", "C36.R3"),
    Twin("R3 benign: CAS result through a local", _DBI, "        if not await lifecycle.begin_release(run_id):\n            return\n", "        won = await lifecycle.begin_release(run_id)\n        if not won:\n            return\n", None),
    Twin("R3 benign: positive CAS gate", _DBI, "        if not await lifecycle.begin_release(run_id):\n            return\n\n        external = self._decorated.get_external_adapter(run_id)\n        await external.send_event(TickIdleRelease())\n        logger.info(f\"Released idle DBOS handler [run_id={run_id}]\")\n\n        self._spawn_task(self._await_and_mark_released(run_id, external))\n",
         "        if await lifecycle.begin_release(run_id):\n            external = self._decorated.get_external_adapter(run_id)\n            await external.send_event(TickIdleRelease())\n            logger.info(f\"Released idle DBOS handler [run_id={run_id}]\")\n            self._spawn_task(self._await_and_mark_released(run_id, external))\n", None),
    Twin("R3 benign: positional pending tick", _DBI, "                await self._runtime._do_resume(self.run_id, pending_tick=tick)\n", "                await self._runtime._do_resume(self.run_id, tick)\n", None),
    # ---- R5 (typestate of the run_lifecycle row)
    Twin("R5 seed form (S143): complete_release of both backends loses `AND state = releasing` and its bind parameter", _LIFE,
         *multi(_LIFE, [(_PG_COMPLETE, _PG_COMPLETE_UNCOND), (_SQ_COMPLETE, _SQ_COMPLETE_UNCOND)]), "C36.R5"),
    Twin("R5 variant: only the postgres completion is unconditional (the backends disagree)", _LIFE, _PG_COMPLETE, _PG_COMPLETE_UNCOND, "C36.R5"),
    Twin("R5 variant: only the sqlite completion is unconditional", _LIFE, _SQ_COMPLETE, _SQ_COMPLETE_UNCOND, "C36.R5"),
    Twin("R5 variant: completion names the wrong source state (active -> released)", _LIFE, _SQ_COMPLETE,
         _SQ_COMPLETE.replace("run_id,\n                        RunLifecycleState.releasing.value,", "run_id,\n                        RunLifecycleState.active.value,"), "C36.R5"),
    Twin("R5 variant: begin_release unconditional (a released run is put back to releasing)", _LIFE,
         'f"WHERE run_id = $3 AND state = $4 RETURNING run_id",\n            RunLifecycleState.releasing.value,\n            datetime.now(timezone.utc),\n            run_id,\n            RunLifecycleState.active.value,\n',
         'f"WHERE run_id = $3 RETURNING run_id",\n            RunLifecycleState.releasing.value,\n            datetime.now(timezone.utc),\n            run_id,\n', "C36.R5"),
    Twin("R5 variant: the resume claim is also reachable for an `active` row (sqlite)", _LIFE,
         "                if state == RunLifecycleState.active:\n                    return None\n" + _SQ_CLAIM_TEST,
         _SQ_CLAIM_TEST.replace("if state == RunLifecycleState.released or (", "if state != RunLifecycleState.releasing or ("), "C36.R5"),
    Twin("R5 sibling variant: sqlite never takes over a stalled release (a crashed releaser leaves the run unreloadable on that backend)", _LIFE,
         _SQ_CLAIM_TEST + "                        - datetime.fromisoformat(row[\"updated_at\"])\n                    ).total_seconds()\n                    > crash_timeout_seconds\n                ):\n",
         "                if state == RunLifecycleState.released:\n", "C36.R5"),
    Twin("R5 variant: a new run is registered as released", _LIFE,
         "run_id,\n                        RunLifecycleState.active.value,\n                        datetime.now(timezone.utc).isoformat(),",
         "run_id,\n                        RunLifecycleState.released.value,\n                        datetime.now(timezone.utc).isoformat(),", "C36.R5"),
    Twin("R5 benign: conjuncts of the completion swapped (same placeholders)", _LIFE, 'f"WHERE run_id = $3 AND state = $4",', 'f"WHERE state = $4 AND run_id = $3",', None),
    Twin("R5 benign: source state written as an SQL literal instead of a bind parameter", _LIFE, _PG_COMPLETE,
         'f"WHERE run_id = $3 AND state = \'releasing\'",\n            RunLifecycleState.released.value,\n            datetime.now(timezone.utc),\n            run_id,\n        )', None),
    Twin("R5 benign: expected state held in a local, conjuncts and binds reordered (sqlite)", _LIFE,
         "                conn.execute(\n                    f\"UPDATE {self._table_ref} SET state = ?, updated_at = ? \"\n                    " + _SQ_COMPLETE,
         "                expected = RunLifecycleState.releasing.value\n                conn.execute(\n                    f\"UPDATE {self._table_ref} SET state = ?, updated_at = ? \"\n                    "
         "f\"WHERE state = ? AND run_id = ?\",\n                    (\n                        RunLifecycleState.released.value,\n                        datetime.now(timezone.utc).isoformat(),\n"
         "                        expected,\n                        run_id,\n                    ),", None),
    Twin("R5 benign: the resume claim is additionally a compare-and-set on the state it has just read (sqlite)", _LIFE,
         "SET state = ?, updated_at = ? WHERE run_id = ?\",\n                        (\n                            RunLifecycleState.active.value,\n                            datetime.now(timezone.utc).isoformat(),\n                            run_id,\n",
         "SET state = ?, updated_at = ? WHERE run_id = ? AND state = ?\",\n                        (\n                            RunLifecycleState.active.value,\n                            datetime.now(timezone.utc).isoformat(),\n                            run_id,\n                            state.value,\n", None),
]
