"""C25 — the keyed lock gives per-key mutual exclusion and cleans up.

Decided (for every interleaving / cancellation point, because each clause is a property of the
one generator function `KeyedLock.__call__` plus single-threaded asyncio semantics):

* R1  reference-count pairing and cleanup.  The body of `__call__` is interpreted (AST only, by
      `absint.Interp` extended with `async with` / `del` / `await` / `yield`) on every initial
      table state in a small exhaustive domain (key absent / present with 1 or 2 references, a
      second unrelated key always present) and with an exception injected at *every* suspension
      point of the function in turn (each `await`, each `async with` acquisition that can
      actually wait, the `yield` = failure or cancellation of the caller's critical section).
      Obligation: at the `yield` the key is registered with exactly one more reference, and
      after the function has been left — normally or by any injected exception — the tables are
      equal to the initial tables (no entry of a key without holders or waiters remains, the
      entry of a key that others still use is kept, other keys are untouched).
* R2  atomic bookkeeping.  No bookkeeping section (`async with <main lock>` body) contains a
      suspension point, hence the main lock is never held across a suspension and acquiring it
      never waits (this is what allows R1 to skip injection at main-lock acquisitions; when R2
      fails R1 injects there as well); no suspension point lies between two accesses of
      `_locks` / `_refs` outside the critical section; at the `yield` only the per-key lock is held.
* R3  per-key exclusion.  Every `yield` is executed while `async with self._locks[key]` is
      entered (key = the parameter; for the manual form `await self._locks[key].acquire()` ...
      `release()` this is decided by the interpretation: the registered lock is held at the
      yield and released on every exit), the lock found for an already registered key is the object
      that was registered (never replaced), locks are `asyncio.Lock()`, the cleanup is the
      `finally` of the `try` that contains the acquisition, and the function is an
      `@asynccontextmanager`.
* R4  nobody outside `KeyedLock` reads or writes `_locks` / `_refs` of a KeyedLock (receiver typed
      by `x = KeyedLock()` field/local assignments; planted positive example in fixtures/c25).
* R5  every acquisition has an owner.  A lock of the KeyedLock may only be acquired in the waiter's
      own frame: by `async with <lock>` or by a *directly awaited* `<lock>.acquire()` in `__call__`
      (or in a coroutine method that `__call__` itself awaits directly).  An acquisition whose
      completion can outlive the waiter — the `acquire()` coroutine handed to `asyncio.shield`,
      `create_task`, `ensure_future`, `gather`, a TaskGroup, or created and never awaited — has no
      frame that releases it: when the waiter is cancelled while queued (shield), or in the step
      between the inner task finishing and the waiter resuming (task), the detached acquire still
      takes the lock and nothing ever releases it, so every waiter behind it hangs and the key's
      entry is never removed.  Decided twice: structurally per acquisition site (the consumer of the
      `acquire()` coroutine is an `await` / `async with`), and by the interpretation of R1, which
      models a detached acquisition (cancellation injected at the `await` of the wrapper leaves the
      lock taken by nobody) and demands that no lock still registered for the key is held by an
      orphan after exit.  A consumer the rule does not know (e.g. `wait_for`) is an analysis error,
      not a pass.  Planted positive and negative examples: fixtures/c25/detached_acquire.py.

Reading through refactorings: the per-key lock may be held in locals — every origin of the `async with` operand (over all
bindings of the locals involved) must be the `_locks` entry of the same key: `T[K]`, `T.get(K)`, `T.setdefault(K, X)`, or a new
object that is itself stored as `T[K]`.  Bookkeeping moved into coroutine methods that `__call__` awaits directly is read as
part of `__call__`: such helpers are folded into it (also when their name happens to occur in this file); a helper that cannot be
folded is followed one level by R2/R3 and executed in place by the interpretation (the `await` of a coroutine of the same task is
itself no suspension point; the suspension points inside it are injected as usual).

Not decided: "every waiter eventually enters" — FIFO fairness and cancellation hand-over of
`asyncio.Lock` are trusted, as is `contextlib.asynccontextmanager`.
"""

from __future__ import annotations

import ast

from ..absint import Interp, Raised, Record, Unsupported
from ..astx import assigned_names, attr_reads, attr_writes, call_name, dotted, enclosing_stmt, expand, is_suspension, last, stmt_list_of
from ..cfg import CFG, exprs_in_node
from ..index import AnchorError, FuncNode, Module, _baseline_helpers, _set_parents, enclosing_class, enclosing_function, parent, walk_shallow
from ..inline import inline_module
from ..report import VERIF
from ..selftest import Twin

EXPLANATION = (
    "KeyedLock.__call__ is decided by exhaustive AST interpretation over a finite domain plus structural rules. "
    "R1: for initial states {key absent, 1 ref, 2 refs} x {an exception injected at each suspension point in turn, incl. the yield and the "
    "per-key acquisition} the reference count at the yield is initial+1 and the tables after exit equal the initial tables (cleanup complete, "
    "nothing else touched). R2: bookkeeping sections under the main lock contain no suspension point, no suspension point separates two "
    "table accesses outside the critical section, and only the per-key lock is held at the yield. R3: every yield is inside "
    "`async with self._locks[key]` (or, for a directly awaited acquire()/release() pair, the interpretation shows the registered lock held at the yield), an existing key keeps its lock object, locks are asyncio.Lock(), cleanup is the finally of the try holding "
    "the acquisition. R4: no code outside KeyedLock touches _locks/_refs of a KeyedLock. R5: every lock acquisition is owned by the waiter's frame — "
    "`async with` or a directly awaited `.acquire()`; an acquire() coroutine handed to asyncio.shield / create_task / ensure_future / gather (or never "
    "awaited) can complete after the waiter was cancelled and is then released by nobody (waiters behind it hang, the key's state never clears); the "
    "interpretation models such a detached acquisition and requires that no registered lock is left held by an orphan. The per-key lock may be held in a local "
    "all of whose origins are the `_locks` entry of the key (T[K], T.get(K), T.setdefault(K, X), or a new lock stored as T[K]); bookkeeping in directly awaited "
    "coroutine methods of the class is read as part of __call__ (folded, or followed one level and executed in place by the interpretation). Not decided: waiter liveness (asyncio.Lock fairness, trusted)."
)
TRUSTED = ["CPython ast", "asyncio.Lock semantics (mutual exclusion, FIFO wake-up, uncontended acquire does not suspend)", "contextlib.asynccontextmanager"]
LEVEL_NOTE = (
    "Exhaustive over the stated finite domain (3 table states x every suspension point of the function); the function is interpreted from its AST, "
    "nothing is imported. Liveness of waiters rests on asyncio.Lock and is not decided."
)
TECHNIQUE = "static analysis: finite-domain AST interpretation with exception injection at every suspension point + CFG/structural rules"

MOD = "llama_agents.server._keyed_lock"
CLS = "KeyedLock"
TABLES = ("_locks", "_refs")
MAIN_ACCESSOR = "_get_main_lock"


# =============================================================================== shared helper
class Sim(Interp):
    """`absint.Interp` plus the statement kinds of an ``@asynccontextmanager`` body.

    Logs a trace of ("enter", obj) / ("exit", obj) / ("await", text) / ("yield",) and can inject
    an exception at the n-th *suspension point* (await, yield, or an acquisition for which
    ``may_wait(obj)`` is true).  Shared with c30.py (imported from here).
    """

    def __init__(self, env=None, hooks=None, *, inject_at: int | None = None, may_wait=lambda obj: True, on_yield=None):
        super().__init__(env, hooks)
        self.trace: list[tuple] = []
        self.inject_at = inject_at
        self.may_wait = may_wait
        self.on_yield = on_yield
        self.points: list[str] = []  # description of every suspension point met
        self.held: list = []

    # ---- suspension points
    def _point(self, what: str, exc: str = "CancelledError") -> None:
        i = len(self.points)
        self.points.append(what)
        if self.inject_at is not None and i == self.inject_at:
            raise Raised(exc, f"injected at suspension point #{i}: {what}")

    def _enter(self, obj) -> None:
        if self.may_wait(obj):
            self._point(f"acquire {obj!r}"[:60])
        self.trace.append(("enter", obj))
        self.held.append(obj)

    def _exit(self, obj) -> None:
        self.trace.append(("exit", obj))
        for i in range(len(self.held) - 1, -1, -1):
            if self.held[i] is obj:
                del self.held[i]
                break

    # ---- statements
    def exec(self, s, env):
        if isinstance(s, (ast.AsyncWith, ast.With)):
            entered = []
            try:
                for it in s.items:
                    obj = self.eval(it.context_expr, env)
                    self._enter(obj)
                    entered.append(obj)
                    if it.optional_vars is not None:
                        self.assign(it.optional_vars, obj, env)
                self.exec_block(s.body, env)
            finally:
                for obj in reversed(entered):
                    self._exit(obj)
            return
        if isinstance(s, ast.Delete):
            for t in s.targets:
                if isinstance(t, ast.Subscript):
                    obj = self.eval(t.value, env)
                    k = self.eval(t.slice, env)
                    try:
                        del obj[k]
                    except (KeyError, IndexError) as x:
                        raise Raised(type(x).__name__, str(x))
                elif isinstance(t, ast.Name):
                    env.pop(t.id, None)
                else:
                    raise Unsupported(f"del target {type(t).__name__}")
            return
        if isinstance(s, ast.Try):
            return self._try(s, env)
        return super().exec(s, env)

    def _try(self, s: ast.Try, env) -> None:
        # as Interp, but BaseException-only errors are not caught by `except Exception`
        try:
            try:
                self.exec_block(s.body, env)
            except Raised as r:
                base_only = r.name in ("CancelledError", "GeneratorExit", "KeyboardInterrupt", "SystemExit")
                for h in s.handlers:
                    names = []
                    if h.type is not None:
                        for e in h.type.elts if isinstance(h.type, ast.Tuple) else [h.type]:
                            names.append(ast.unparse(e).split(".")[-1])
                    hit = h.type is None or r.name in names or "BaseException" in names or ("Exception" in names and not base_only)
                    if hit:
                        if h.name:
                            env[h.name] = r
                        try:
                            self.exec_block(h.body, env)
                        except Raised as r2:
                            if r2.name == "Exception" and str(r2) == "Exception: ":  # bare `raise`
                                raise r
                            raise
                        break
                else:
                    raise
            else:
                self.exec_block(s.orelse, env)
        finally:
            self.exec_block(s.finalbody, env)

    # ---- expressions
    def e_Await(self, e, env):
        if isinstance(e.value, ast.Call) and isinstance(e.value.func, ast.Attribute) and e.value.func.attr == "acquire":
            return self.eval(e.value, env)  # `await x.acquire()` is one suspension point, counted by _enter
        v = self.eval(e.value, env)
        self.trace.append(("await", ast.unparse(e.value)[:50]))
        self._point(f"await {ast.unparse(e.value)[:40]}")
        return v

    def e_Yield(self, e, env):
        self.trace.append(("yield",))
        if self.on_yield is not None:
            self.on_yield(self, env)
        self._point("yield (caller's block fails or is cancelled)", exc="BodyError")
        return None

    def e_Call(self, e, env):
        if isinstance(e.func, ast.Attribute) and e.func.attr in ("acquire", "release", "locked"):
            try:
                obj = self.eval(e.func.value, env)
            except Unsupported:
                obj = None
            if isinstance(obj, Record) and obj._cls in ("Lock", "Semaphore"):
                if e.func.attr == "acquire":
                    self._enter(obj)
                    return True
                if e.func.attr == "release":
                    self._exit(obj)
                    return None
                return any(h is obj for h in self.held)
        return super().e_Call(e, env)


def run_generator(fn: ast.AST, sim: Sim, args: dict) -> str | None:
    """Interpret the body of generator function ``fn``; returns the name of the exception that
    left the function, or None."""
    try:
        sim.call_function(fn, args)
    except Raised as r:
        return r.name
    return None


# asyncio entry points that run a coroutine in a task of its own: the coroutine's completion is then no longer tied to the
# frame that awaits the wrapper.  "shield": cancellation of the awaiting frame never reaches the coroutine.  "task":
# cancellation is forwarded only while the inner task is still pending — once it has finished (the lock is taken) the
# awaiting frame can still receive the CancelledError before it resumes.
SPAWNERS = {"shield": "shield", "create_task": "task", "ensure_future": "task", "gather": "task", "start_soon": "task"}


class OwnSim(Sim):
    """`Sim` plus *detached* acquisitions (C25.R5).  ``X.acquire()`` that is not the direct operand of an ``await`` evaluates
    to a pending-acquire value; a SPAWNER applied to it gives a task value; awaiting the task is one suspension point.
    Undisturbed, the lock is then held by the frame (as with a direct acquire).  With an exception injected at that
    point the acquisition still completes — nobody owns it: it is logged in ``orphans`` (lock, kind, text)."""

    def __init__(self, *a, **k):
        super().__init__(*a, **k)
        self.orphans: list[tuple] = []
        self._direct: ast.AST | None = None

    def _own_method(self, c: ast.AST, env) -> ast.AST | None:
        """the coroutine method (AST) of an interpreted class that call ``c`` runs on a Record of that class"""
        if not (isinstance(c, ast.Call) and isinstance(c.func, ast.Attribute) and isinstance(c.func.value, ast.Name)):
            return None
        obj = env.get(c.func.value.id)
        if not isinstance(obj, Record) or c.func.attr in obj.__dict__:
            return None
        h = self.classes.get(obj._cls, {}).get(c.func.attr)
        return h if isinstance(h, ast.AsyncFunctionDef) else None

    def e_Await(self, e, env):
        v = e.value
        if isinstance(v, ast.Call) and isinstance(v.func, ast.Attribute) and v.func.attr == "acquire":
            self._direct = v
            return self.eval(v, env)  # the waiter's own frame: one suspension point, counted by _enter
        if self._own_method(v, env) is not None:
            # `await self.helper(...)`: the coroutine runs in the waiter's own task; the await itself is no scheduling point,
            # the suspension points are those of the helper's body (interpreted in place, with injection)
            self._direct = v
            return self.eval(v, env)
        val = self.eval(v, env)
        if isinstance(val, Record) and val._cls == "AcquireCoro":  # `c = lock.acquire(); await c` — still the waiter's own frame
            self._enter(val.lock)
            return True
        text = ast.unparse(v)[:60]
        self.trace.append(("await", text))
        if isinstance(val, Record) and val._cls == "AcquireTask":
            try:
                self._point(f"await {text}")
            except Raised:
                self.orphans.append((val.lock, val.kind, text))
                raise
            self.trace.append(("enter", val.lock))
            self.held.append(val.lock)
            return True
        self._point(f"await {text}")
        return val

    def e_Call(self, e, env):
        f = e.func
        if e is not self._direct and self._own_method(e, env) is not None:
            raise Unsupported(f"coroutine method `{ast.unparse(f)[:40]}(...)` called without a direct await")
        if isinstance(f, ast.Attribute) and f.attr == "acquire" and e is not self._direct:
            try:
                obj = self.eval(f.value, env)
            except Unsupported:
                obj = None
            if isinstance(obj, Record) and obj._cls in ("Lock", "Semaphore"):
                return Record("AcquireCoro", lock=obj)
        name = f.attr if isinstance(f, ast.Attribute) else (f.id if isinstance(f, ast.Name) else None)
        if name in SPAWNERS and e.args:
            args = [self.eval(a, env) for a in e.args]
            inner = next((a for a in args if isinstance(a, Record) and a._cls in ("AcquireCoro", "AcquireTask")), None)
            if inner is not None:
                kind = SPAWNERS[name] if inner._cls == "AcquireCoro" or SPAWNERS[name] == "shield" else inner.kind
                return Record("AcquireTask", lock=inner.lock, kind=kind)
        return super().e_Call(e, env)


# =============================================================================== anchors
def _bind(repo):
    m, cls = repo.cls(f"{MOD}:{CLS}")
    if getattr(repo, "_auto_words", None) is not None:
        # The helper-inlined view keeps every private function whose name occurs anywhere in this file — which includes the
        # interpreter's own method names.  The only helper of the keyed-lock module this check anchors on is the main-lock
        # accessor (a private function of the confirmed tree), so every other private helper is folded here as well.
        keep = set(_baseline_helpers().get(m.rel, ())) | {MAIN_ACCESSOR}
        folded, n = inline_module(m, keep)
        if n:
            folded.tree._mod = folded
            m = folded
            cls = next((c for c in folded.tree.body if isinstance(c, ast.ClassDef) and c.name == CLS), cls)
    fn = next((n for n in cls.body if isinstance(n, FuncNode) and n.name == "__call__"), None)
    if fn is None:
        raise AnchorError(f"`{CLS}.__call__` not found in {m.rel}")
    params = [a.arg for a in fn.args.posonlyargs + fn.args.args]
    if len(params) < 2:
        raise AnchorError(f"`{CLS}.__call__` has no key parameter")
    return m, cls, fn, params[0], params[1]


def _is_table_subscript(e: ast.AST, table: str | None = None) -> bool:
    return (
        isinstance(e, ast.Subscript)
        and isinstance(e.value, ast.Attribute)
        and (e.value.attr == table if table else e.value.attr in TABLES)
    )


def _own_coroutine(c: ast.AST, g: ast.AST, cls: ast.ClassDef | None) -> ast.AST | None:
    """The undecorated coroutine method of ``cls`` that the call ``c`` (made in method ``g``) runs on the same instance."""
    if cls is None or not (isinstance(c, ast.Call) and isinstance(c.func, ast.Attribute) and isinstance(c.func.value, ast.Name)):
        return None
    recv = [a.arg for a in g.args.posonlyargs + g.args.args][:1]
    if recv != [c.func.value.id]:
        return None
    h = next((n for n in cls.body if isinstance(n, ast.AsyncFunctionDef) and n.name == c.func.attr), None)
    return h if h is not None and not h.decorator_list and h is not g else None


def _call_binding(c: ast.Call, h: ast.AST) -> dict[str, ast.AST] | None:
    """parameter name of method ``h`` -> argument expression of the call ``c`` (receiver dropped); None when not positional/keyword plain."""
    if any(isinstance(a, ast.Starred) for a in c.args) or any(k.arg is None for k in c.keywords) or h.args.vararg or h.args.kwarg:
        return None
    names = [a.arg for a in h.args.posonlyargs + h.args.args][1:]
    if len(c.args) > len(names):
        return None
    bind = dict(zip(names, c.args))
    bind.update({k.arg: k.value for k in c.keywords})
    return bind


def _bindings_of(g: ast.AST, name: str) -> list[tuple[ast.AST, ast.AST | None]]:
    """Every binding of the local ``name`` in function ``g`` as (statement, value expression); the value is None when the
    binding does not give the name the value of one expression (parameter, unpacking, loop / with / except target, ``+=``)."""
    out: list[tuple[ast.AST, ast.AST | None]] = []
    if any(a.arg == name for a in ast.walk(g.args) if isinstance(a, ast.arg)):
        out.append((g, None))
    for n in walk_shallow(g):
        if not (isinstance(n, ast.Name) and n.id == name and isinstance(n.ctx, (ast.Store, ast.Del))):
            continue
        p = parent(n)
        if isinstance(p, ast.Assign) and n in p.targets:
            out.append((p, p.value))
        elif isinstance(p, ast.AnnAssign) and p.target is n and p.value is not None:
            out.append((p, p.value))
        elif isinstance(p, ast.NamedExpr) and p.target is n:
            out.append((enclosing_stmt(p), p.value))
        elif isinstance(p, ast.AnnAssign) and p.target is n:
            continue  # bare annotation binds nothing
        else:
            out.append((enclosing_stmt(n) or g, None))
    return out


def _registered_under(stmt: ast.AST, name: str) -> list[ast.AST] | None:
    """``name`` was just bound by ``stmt`` to a value that is not a table entry (a new lock).  The slice K when that very
    value is what gets stored as the table entry of K: ``T[K] = name = X`` in one statement, or ``T[K] = name`` among the
    simple statements that follow in the same block before ``name`` is bound again."""
    if isinstance(stmt, ast.Assign):
        hit = [t.slice for t in stmt.targets if _is_table_subscript(t, "_locks")]
        if hit:
            return hit
    loc = stmt_list_of(stmt) if isinstance(stmt, ast.stmt) else None
    if loc is None:
        return None
    lst, i = loc
    for s in lst[i + 1:]:
        if not isinstance(s, (ast.Assign, ast.AnnAssign, ast.AugAssign, ast.Expr)):
            return None
        if isinstance(s, ast.Assign) and isinstance(s.value, ast.Name) and s.value.id == name:
            hit = [t.slice for t in s.targets if _is_table_subscript(t, "_locks")]
            if hit:
                return hit
        if name in assigned_names(s):
            return None
    return None


def _entry_slices(e: ast.AST, g: ast.AST, cls: ast.ClassDef | None, depth: int = 1, seen: frozenset = frozenset()) -> list[ast.AST] | None:
    """Dependence of a lock expression on the `_locks` table: the slices K such that the value of ``e`` (evaluated in method
    ``g``) is the table entry of K, over *every* binding of the locals involved (flow-insensitive); None as soon as one
    origin is something else.  Origins understood: ``T[K]``, ``T.get(K)`` (the entry, or None which is no lock),
    ``T.setdefault(K, X)``, a new value that is itself stored as ``T[K]``, a conditional expression of such, and the value
    returned by a directly awaited coroutine method of the same class (one level; K translated through the call)."""
    if _is_table_subscript(e, "_locks"):
        return [e.slice]
    if isinstance(e, ast.Call) and isinstance(e.func, ast.Attribute) and isinstance(e.func.value, ast.Attribute) and e.func.value.attr == "_locks" and not e.keywords:
        if e.func.attr == "setdefault" and len(e.args) == 2:
            return [e.args[0]]
        if e.func.attr == "get" and (len(e.args) == 1 or (len(e.args) == 2 and isinstance(e.args[1], ast.Constant) and e.args[1].value is None)):
            return [e.args[0]]
        return None
    if isinstance(e, ast.IfExp):
        a, b = _entry_slices(e.body, g, cls, depth, seen), _entry_slices(e.orelse, g, cls, depth, seen)
        return None if a is None or b is None else a + b
    if isinstance(e, ast.BoolOp) and isinstance(e.op, ast.Or):  # `T.get(K) or <other origin>`
        parts = [_entry_slices(v, g, cls, depth, seen) for v in e.values]
        return None if any(x is None for x in parts) else [k for x in parts for k in x]
    if isinstance(e, ast.NamedExpr):
        return _entry_slices(e.value, g, cls, depth, seen)
    if isinstance(e, ast.Name):
        if (id(g), e.id) in seen:
            return []
        binds = _bindings_of(g, e.id)
        if not binds:
            return None
        out: list[ast.AST] = []
        for stmt, val in binds:
            got = None if val is None else _entry_slices(val, g, cls, depth, seen | {(id(g), e.id)})
            if got is None and val is not None and not isinstance(val, (ast.Name, ast.Await)):
                got = _registered_under(stmt, e.id)
            if got is None:
                return None
            out += got
        return out
    if isinstance(e, ast.Await) and depth > 0:
        h = _own_coroutine(e.value, g, cls)
        bind = _call_binding(e.value, h) if h is not None else None
        rets = [n for n in walk_shallow(h) if isinstance(n, ast.Return)] if h is not None else []
        if bind is None or not rets:
            return None
        out = []
        for r in rets:
            got = None if r.value is None else _entry_slices(r.value, h, cls, depth - 1, seen)
            if got is None:
                return None
            for k in got:  # the key of the helper is a parameter of it: say it in the caller's terms
                if not (isinstance(k, ast.Name) and k.id in bind and not _reassigned(h, k.id)):
                    return None
                out.append(bind[k.id])
        return out
    return None


def _lock_expr(e: ast.AST, at: ast.AST, g: ast.AST, cls: ast.ClassDef | None) -> ast.AST:
    """The lock expression ``e`` with straight-line locals substituted; when it is a local (or the result of an awaited
    helper of the class) every origin of which is the `_locks` entry of one and the same K, the canonical ``<self>._locks[K]``."""
    x = expand(e, at)
    if _is_table_subscript(x, "_locks"):
        return x
    ks = _entry_slices(e, g, cls)
    if ks and len({ast.dump(k) for k in ks}) == 1:
        recv = ([a.arg for a in g.args.posonlyargs + g.args.args] or ["self"])[0]
        return ast.Subscript(value=ast.Attribute(value=ast.Name(id=recv, ctx=ast.Load()), attr="_locks", ctx=ast.Load()), slice=ks[0], ctx=ast.Load())
    return x


def _with_kind(w: ast.AST, g: ast.AST, cls: ast.ClassDef | None) -> str:
    """'perkey' for `async with self._locks[key]` (possibly through locals that can only hold that entry), else 'main'."""
    kinds = []
    for it in w.items:
        e = _lock_expr(it.context_expr, w, g, cls)
        kinds.append("perkey" if _is_table_subscript(e, "_locks") else "other")
    return "perkey" if "perkey" in kinds else "main"


def _touches_tables(node: ast.AST, cls: ast.ClassDef | None = None) -> bool:
    """``node`` reads or writes `_locks` / `_refs` — itself, or (with ``cls``) through a method of the class it calls on an
    instance held in a plain name (one level: `await self._drop(key)` in a `finally` is the deregistration)."""
    if any(isinstance(x, ast.Attribute) and x.attr in TABLES for x in ast.walk(node)):
        return True
    if cls is None:
        return False
    methods = {n.name: n for n in cls.body if isinstance(n, FuncNode)}
    return any(isinstance(c, ast.Call) and isinstance(c.func, ast.Attribute) and isinstance(c.func.value, ast.Name) and c.func.attr in methods
               and _touches_tables(methods[c.func.attr]) for c in ast.walk(node))


# =============================================================================== acquisition sites (R5)
class Acq:
    """One place where a lock is acquired.  ``form``: 'async-with' | 'await' (directly awaited ``.acquire()``) |
    'detached' (the acquire() coroutine is run by something else / never awaited) | 'unknown' (a consumer the rule does
    not know).  ``how`` describes the consumer; ``lock`` is the receiver with straight-line locals substituted."""

    def __init__(self, node, lock, form, how, fn):
        self.node, self.lock, self.form, self.how, self.fn = node, lock, form, how, fn
        self.perkey = _is_table_subscript(lock, "_locks")

    @property
    def role(self) -> str:
        return "per-key" if self.perkey else "bookkeeping"


def _callee_name(c: ast.Call) -> str | None:
    f = c.func
    return f.attr if isinstance(f, ast.Attribute) else (f.id if isinstance(f, ast.Name) else None)


def _consumer(coro: ast.AST, g: ast.AST) -> tuple[str, str]:
    """(form, how) for the expression ``coro`` that creates a coroutine inside function ``g``: who runs it?"""
    p = parent(coro)
    if isinstance(p, ast.Await) and p.value is coro:
        return "await", "awaited directly"
    if isinstance(p, ast.Call) and (coro in p.args or any(k.value is coro for k in p.keywords)):
        name = _callee_name(p)
        if name in SPAWNERS:
            txt = call_name(p) or name
            why = ("cancellation of the waiter never reaches the acquire" if SPAWNERS[name] == "shield"
                   else "the acquire runs in a task of its own and can finish just before the waiter receives its cancellation")
            return "detached", f"handed to `{txt}(...)`: {why}"
        return "unknown", f"passed to `{call_name(p) or name}(...)`"
    if isinstance(p, ast.Expr):
        return "detached", "created but never awaited"
    if isinstance(p, (ast.Assign, ast.AnnAssign)):
        tg = p.targets if isinstance(p, ast.Assign) else [p.target]
        if len(tg) == 1 and isinstance(tg[0], ast.Name):
            loads = [n for n in walk_shallow(g) if isinstance(n, ast.Name) and n.id == tg[0].id and isinstance(n.ctx, ast.Load)]
            forms = [_consumer(n, g) for n in loads]
            for want in ("detached", "unknown"):
                hit = next((f for f in forms if f[0] == want), None)
                if hit:
                    return hit[0], f"stored in `{tg[0].id}`, {hit[1]}"
            if forms:
                return "await", f"stored in `{tg[0].id}` and awaited directly"
            return "detached", f"stored in `{tg[0].id}` and never awaited"
    return "unknown", f"used in `{ast.unparse(p)[:50]}`"


def _acq_sites(cls: ast.ClassDef, entry: ast.AST) -> list[Acq]:
    """Every lock acquisition in the methods of ``cls``: ``async with X`` items and ``X.acquire()`` / ``X.__aenter__()``
    calls.  A site in a coroutine method other than ``entry`` runs in the frame of whoever runs that method: it counts
    as the waiter's own only if every use of the method is a directly awaited call."""
    methods = [n for n in cls.body if isinstance(n, FuncNode)]
    out: list[Acq] = []
    for g in methods:
        mine: list[Acq] = []
        for n in walk_shallow(g):
            if isinstance(n, ast.AsyncWith):
                for it in n.items:
                    mine.append(Acq(n, _lock_expr(it.context_expr, n, g, cls), "async-with", "async with", g))
            elif isinstance(n, ast.Attribute) and n.attr in ("acquire", "__aenter__"):
                c = parent(n)
                lock = _lock_expr(n.value, n, g, cls)
                if isinstance(c, ast.Call) and c.func is n:
                    form, how = _consumer(c, g)
                    mine.append(Acq(c, lock, form, how, g))
                else:
                    mine.append(Acq(n, lock, "unknown", f"bound method `{ast.unparse(n)[:40]}` used as a value", g))
        if mine and g is not entry:
            carrier: tuple[str, str] | None = None  # how g itself is run
            uses = [n for m_ in methods for n in walk_shallow(m_) if isinstance(n, ast.Attribute) and n.attr == g.name and isinstance(n.value, ast.Name)]
            for u in uses:
                c = parent(u)
                f = _consumer(c, enclosing_function(u)) if isinstance(c, ast.Call) and c.func is u else ("unknown", "referenced without a call")
                if f[0] != "await" and (carrier is None or f[0] == "detached"):
                    carrier = (f[0], f"`{g.name}()` is {f[1]}")
            if carrier is not None:
                for a in mine:
                    if a.form in ("async-with", "await"):
                        a.form, a.how = carrier
        out.extend(mine)
    return out


# =============================================================================== run
def run(chk) -> None:
    repo = chk.repo
    m, cls, fn, selfname, key = _bind(repo)
    chk.note_fn(m, fn)
    cfg = CFG(fn)

    withs = [n for n in walk_shallow(fn) if isinstance(n, (ast.AsyncWith, ast.With))]
    perkey = [w for w in withs if _with_kind(w, fn, cls) == "perkey"]
    mains = [w for w in withs if w not in perkey]
    yields = [n for n in walk_shallow(fn) if isinstance(n, (ast.Yield, ast.YieldFrom))]
    if not yields:
        raise AnchorError(f"`{CLS}.__call__` contains no yield — not a context-manager generator")
    # every lock acquisition of the class, with the way its acquire() coroutine is consumed (R5); the per-key ones that are
    # not `async with` are the manual form `await <lock>.acquire()` ... `<lock>.release()` (or a detached acquire)
    sites = _acq_sites(cls, fn)
    manual = [a for a in sites if a.fn is fn and a.perkey and a.form != "async-with"]
    _ownership_of_acquisitions(chk, m, fn, sites)
    _planted_acquisitions(chk)

    # ------------------------------------------------------------------ R2 structural: bookkeeping sections never suspend
    r2_ok = True
    for w in mains:
        susp = [x for s in w.body for x in [s, *walk_shallow(s)] if is_suspension(x)]
        ok = not susp
        r2_ok &= ok
        chk.ob("C25.R2", "bookkeeping section under the main lock contains no suspension point (so the main lock is never held across one and its acquisition never waits)",
               ok, m=m, node=w, fn=fn, instance=f"main-section:{'prologue' if not _after_yield(fn, w) else 'epilogue'}",
               reason=f"suspension point inside the section: `{ast.unparse(susp[0])[:60]}` (line {getattr(susp[0], 'lineno', '?')})" if susp else "")
    # coroutine methods of the class that `__call__` awaits directly and that are still there (the helper inliner could not fold
    # them): their bookkeeping sections are sections of `__call__` (a directly awaited coroutine adds no scheduling point)
    helpers: dict[int, tuple[ast.AST, ast.AST]] = {}
    for aw in [n for n in walk_shallow(fn) if isinstance(n, ast.Await)]:
        h = _own_coroutine(aw.value, fn, cls)
        if h is not None and _touches_tables(h):
            helpers[id(aw)] = (aw, h)
    helper_sections: dict[int, list[ast.AST]] = {}
    for aw, h in helpers.values():
        hm = [w for w in walk_shallow(h) if isinstance(w, (ast.AsyncWith, ast.With)) and _with_kind(w, h, cls) != "perkey"]
        helper_sections[id(h)] = hm
        for w in hm:
            susp = [x for s_ in w.body for x in [s_, *walk_shallow(s_)] if is_suspension(x)]
            r2_ok &= not susp
            chk.ob("C25.R2", "bookkeeping section under the main lock contains no suspension point (so the main lock is never held across one and its acquisition never waits)",
                   not susp, m=m, node=w, fn=h, instance=f"main-section:{'prologue' if not _after_yield(fn, aw) else 'epilogue'}",
                   reason=f"suspension point inside the section: `{ast.unparse(susp[0])[:60]}` (line {getattr(susp[0], 'lineno', '?')})" if susp else "")
    chk.floor("C25.R2", "bookkeeping sections (`async with` other than the per-key lock)", len(mains) + sum(len(v) for v in helper_sections.values()), 0)

    def helper_waits(h: ast.AST) -> bool:
        """the helper has a suspension point other than the acquisition of a suspension-free bookkeeping section"""
        return any(is_suspension(x) and not (r2_ok and any(x is w for w in helper_sections[id(h)])) for x in walk_shallow(h))

    for aw, h in helpers.values():
        loose = [x for x in walk_shallow(h) if isinstance(x, ast.Attribute) and x.attr in TABLES
                 and not any(a is w for a in _ancestors_until(x, h) for w in helper_sections[id(h)])]
        if loose and helper_waits(h):
            raise AnchorError(f"C25.R2: the coroutine `{h.name}` awaited by `__call__` accesses `{ast.unparse(loose[0])[:40]}` outside a bookkeeping section and has a "
                              "suspension point of its own; the check-then-act analysis does not read through a helper that could not be folded into `__call__`")

    # no suspension between two table accesses outside the critical section (check-then-act windows)
    touch = [n for n in cfg.nodes if n.ast is not None and n.kind in ("stmt", "test", "with", "iter") and any(
        (isinstance(x, ast.Attribute) and x.attr in TABLES) or id(x) in helpers for x in exprs_in_node(n))]
    main_hdr = {id(w) for w in mains}
    perkey_hdr = {id(w) for w in perkey}

    def suspends(n) -> bool:
        if n.ast is None:
            return False
        if n.kind == "with":
            if id(n.ast) in main_hdr:
                return not r2_ok  # never waits when every section is suspension-free
            return isinstance(n.ast, ast.AsyncWith)
        pts = [x for x in exprs_in_node(n) if isinstance(x, (ast.Await, ast.Yield, ast.YieldFrom))]
        # `await self.<helper>(...)` suspends exactly when the helper's body does
        return any(helper_waits(helpers[id(x)][1]) if id(x) in helpers else True for x in pts)

    susp_nodes = [n for n in cfg.nodes if suspends(n)]
    crit = set()  # nodes of the critical section: the per-key acquisition and the yield — the legitimate suspension
    manual_calls = {id(a.node) for a in manual}
    for n in cfg.nodes:
        if n.ast is not None and (id(n.ast) in perkey_hdr or any(isinstance(x, (ast.Yield, ast.YieldFrom)) or id(x) in manual_calls for x in exprs_in_node(n))):
            crit.add(n)
    windows = []
    for s in susp_nodes:
        if s in crit:
            continue
        before = [a for a in touch if a is not s and s in cfg.reach([a], labels_excluded=("exc", "cancel"), include_starts=False)] + ([s] if s in touch else [])
        after = [b for b in touch if b is not s and b in cfg.reach([s], labels_excluded=("exc", "cancel"), include_starts=False)]
        # a window matters only inside one phase: both accesses before the critical section, or both after it
        for a in before:
            for b in after:
                if _same_phase(cfg, a, b, crit):
                    windows.append((a, s, b))
    chk.ob("C25.R2", "no suspension point lies between two accesses of _locks/_refs outside the critical section (test / insert / count / delete are atomic)",
           not windows, m=m, node=(windows[0][1].ast if windows else fn), fn=fn, instance="check-then-act",
           reason=(f"`{ast.unparse(windows[0][1].ast)[:50]}` (line {windows[0][1].line}) suspends between the table access at line {windows[0][0].line} and the one at line {windows[0][2].line}") if windows else "")

    # ------------------------------------------------------------------ R3 structural
    # (with only manual acquisitions "the lock is held at the yield" is decided by the interpretation alone: sim:held-at-yield)
    for y in (yields if perkey or not manual else []):
        inside = [a for a in _ancestors_until(y, fn) if a in perkey]
        chk.ob("C25.R3", "the yield (caller's critical section) executes inside `async with self._locks[key]`", bool(inside), m=m, node=y, fn=fn,
               instance="yield-under-per-key-lock", reason="yield is not lexically inside the per-key lock acquisition")
    chk.floor("C25.R3", "yield sites", len(yields), 1)
    for w, e in [(w, _perkey_item(w, fn, cls)) for w in perkey] + [(a.node, a.lock) for a in manual]:
        keyed = _is_table_subscript(e, "_locks") and isinstance(e.slice, ast.Name) and e.slice.id == key and not _reassigned(fn, key)
        chk.ob("C25.R3", f"the per-key lock is looked up with the key parameter `{key}` (different keys use different locks)", keyed, m=m, node=w, fn=fn,
               instance="per-key-lookup", reason=f"lock expression `{ast.unparse(e)[:60]}` is not `{selfname}._locks[{key}]` with an unmodified key")
        has_fin = any(isinstance(a, ast.Try) and any(x is w or w in list(ast.walk(x)) for x in a.body) and any(_touches_tables(s, cls) for s in a.finalbody)
                      for a in _ancestors_until(w, fn))
        chk.ob("C25.R3", "the per-key acquisition lies in the `try` whose `finally` deregisters (cleanup runs on every exit, incl. cancellation while waiting)", has_fin,
               m=m, node=w, fn=fn, instance="acquire-in-try-finally", reason="no enclosing try with a finally that updates _locks/_refs")
    chk.floor("C25.R3", "per-key lock acquisitions", len(perkey) + len(manual), 0)
    if not perkey and not manual:
        chk.ob("C25.R3", "a per-key lock is acquired", False, m=m, node=fn, fn=fn, instance="per-key-lookup",
               reason=f"no `async with {selfname}._locks[{key}]` / `await {selfname}._locks[{key}].acquire()` in __call__")
    # lock factory
    factories = []
    for node, kind in attr_writes(cls, "_locks"):
        p = parent(node)
        if kind == "substore" and isinstance(parent(p), ast.Assign):
            factories.append(parent(p).value)
        elif kind.startswith("mutcall:setdefault"):
            c = parent(parent(node))
            if isinstance(c, ast.Call) and len(c.args) >= 2:
                factories.append(c.args[1])
    chk.floor("C25.R3", "per-key lock constructions", len(factories), 1)
    factories = [v for f in factories for v in _new_values(f, cls)]
    chk.floor("C25.R3", "per-key lock constructions (through locals)", len(factories), 1)
    for f in factories:
        ok = isinstance(f, ast.Call) and call_name(f) in ("asyncio.Lock", "Lock") and not f.args and not f.keywords
        chk.ob("C25.R3", "per-key locks are `asyncio.Lock()` objects (mutual exclusion of the holder is asyncio's)", ok, m=m, node=f, fn=enclosing_function(f),
               instance="lock-factory", reason=f"per-key lock is created by `{ast.unparse(f)[:50]}`")
    deco = [last(dotted(d.func if isinstance(d, ast.Call) else d)) for d in fn.decorator_list]
    chk.ob("C25.R3", "`__call__` is an @asynccontextmanager async generator", "asynccontextmanager" in deco and isinstance(fn, ast.AsyncFunctionDef), m=m, node=fn, fn=fn,
           instance="asynccontextmanager", reason=f"decorators: {deco}")

    # ------------------------------------------------------------------ R1 / R2 / R3 semantic: exhaustive interpretation
    _simulate(chk, m, fn, selfname, key, inject_main=not r2_ok, cls=cls)

    # ------------------------------------------------------------------ R4 ownership
    _ownership(chk, repo)


def _ownership_of_acquisitions(chk, m: Module, fn: ast.AST, sites: list[Acq]) -> None:
    """R5, structural half: the coroutine of every acquisition is run by the waiter's own frame."""
    unknown = [a for a in sites if a.form == "unknown"]
    if unknown:
        a = unknown[0]
        raise AnchorError(f"C25.R5: the acquire() coroutine of `{ast.unparse(a.lock)[:40]}` (line {a.node.lineno}) is {a.how} — a consumer the rule does not know; "
                          "it cannot tell whether the acquisition stays owned by the waiter")
    chk.floor("C25.R5", "lock acquisition sites in KeyedLock (`async with` / `.acquire()`)", len(sites), 1)
    seen: dict[str, int] = {}
    for a in sites:
        phase = "" if a.perkey else (":epilogue" if a.fn is fn and _after_yield(fn, a.node) else ":prologue" if a.fn is fn else f":{a.fn.name}")
        slot = f"owned-acquire:{a.role}{phase}"
        seen[slot] = seen.get(slot, 0) + 1
        if seen[slot] > 1:
            slot += f"#{seen[slot]}"
        chk.ob("C25.R5", f"the {a.role} lock is acquired in the waiter's own frame (`async with` or a directly awaited `.acquire()`), so that an acquisition "
               "never completes without a frame that releases it", a.form in ("async-with", "await"), m=m, node=a.node, fn=a.fn, instance=slot,
               reason=f"`{ast.unparse(a.lock)[:40]}.acquire()` is {a.how}; when the waiter is cancelled there the acquire still takes the lock and no frame is left "
                      "to release it — waiters queued behind it never enter and the key's entry is never removed. Acquire with `async with <lock>` / `await <lock>.acquire()` directly")


def _planted_acquisitions(chk) -> None:
    """R5 cannot pass vacuously: on every run the planted keyed locks of fixtures/c25/detached_acquire.py are analysed with the
    same two procedures; each detached acquisition must be found (structurally, and as an orphaned lock by the interpretation
    where the class is interpretable = has no helper coroutine), each owned one must be left alone by both."""
    fx = VERIF / "fixtures" / "c25" / "detached_acquire.py"
    if not fx.is_file():
        raise AnchorError(f"C25.R5 fixture {fx} missing")
    tree = ast.parse(fx.read_text())
    _set_parents(tree)
    expect = next((ast.literal_eval(n.value) for n in tree.body if isinstance(n, ast.Assign) and isinstance(n.targets[0], ast.Name) and n.targets[0].id == "EXPECT"), None)
    if not expect:
        raise AnchorError("C25.R5 fixture has no EXPECT table")
    n_struct = n_sim = n_owned = 0
    for c in tree.body:
        if not (isinstance(c, ast.ClassDef) and c.name in expect):
            continue
        methods = [n for n in c.body if isinstance(n, FuncNode)]
        fn = next(n for n in methods if n.name == "__call__")
        selfname, key = [a.arg for a in fn.args.args][:2]
        pk = [a for a in _acq_sites(c, fn) if a.perkey]
        det = [a for a in pk if a.form == "detached"]
        bad: dict[str, str] | None = None
        if len(methods) == 1:
            try:
                _, bad, _ = _interpret(fn, selfname, key, False)
            except Unsupported as e:
                raise AnchorError(f"C25.R5 self-check: planted example {c.name} is not interpretable: {e}")
        if expect[c.name] == "detached":
            if not det or (bad is not None and "R5|orphan" not in bad):
                raise AnchorError(f"C25.R5 self-check: the detached acquisition planted in {c.name} is not reported (structural: {[a.form for a in pk]}, interpretation: {sorted(bad or {})})")
            n_struct += 1
            n_sim += bad is not None
        else:
            if not pk or any(a.form not in ("async-with", "await") for a in pk) or bad:
                raise AnchorError(f"C25.R5 self-check: the owned acquisition planted in {c.name} is reported (structural: {[(a.form, a.how) for a in pk]}, interpretation: {bad})")
            n_owned += 1
    chk.floor("C25.R5", "planted detached acquisitions reported structurally (shield / task / future via local / shielded helper)", n_struct, 4)
    chk.floor("C25.R5", "planted detached acquisitions for which the interpretation finds a registered lock taken by an orphan", n_sim, 3)
    chk.floor("C25.R5", "planted owned acquisitions (direct await, via awaited helper, async with) left alone by both procedures", n_owned, 3)


def _new_values(f: ast.AST, cls: ast.ClassDef) -> list[ast.AST]:
    """The expressions that create the object stored by `_locks[K] = f`: ``f`` itself, or — when ``f`` is a local — the value
    of every binding of that local that is not already an entry of the table (`v = T.get(K)` re-stores, it creates nothing)."""
    g = enclosing_function(f)
    if isinstance(f, ast.Name) and g is not None:
        vals = [v for _, v in _bindings_of(g, f.id)]
        if vals and all(v is not None for v in vals):
            return [v for v in vals if _entry_slices(v, g, cls, 0, frozenset({(id(g), f.id)})) is None]
    return [f]


def _perkey_item(w: ast.AST, g: ast.AST, cls: ast.ClassDef | None) -> ast.AST:
    es = [_lock_expr(it.context_expr, w, g, cls) for it in w.items]
    return next((e for e in es if _is_table_subscript(e, "_locks")), es[0])


def _after_yield(fn: ast.AST, node: ast.AST) -> bool:
    ys = [n.lineno for n in walk_shallow(fn) if isinstance(n, (ast.Yield, ast.YieldFrom))]
    return bool(ys) and node.lineno > min(ys)


def _ancestors_until(node: ast.AST, stop: ast.AST):
    p = parent(node)
    while p is not None and p is not stop:
        yield p
        p = parent(p)


def _reassigned(fn: ast.AST, name: str) -> bool:
    return any(isinstance(n, ast.Name) and n.id == name and isinstance(n.ctx, (ast.Store, ast.Del)) for n in walk_shallow(fn))


def _same_phase(cfg: CFG, a, b, crit) -> bool:
    """a and b are connected by a path that does not cross the critical section."""
    return b in cfg.reach([a], blocked=crit, labels_excluded=("exc", "cancel"), include_starts=False) or a is b


# =============================================================================== simulation
def _mk_state(kind: str):
    other = Record("Lock", name="lock-of-other-key")
    locks, refs = {"other": other}, {"other": 1}
    mine = None
    if kind != "absent":
        mine = Record("Lock", name="registered-lock")
        locks["k"] = mine
        refs["k"] = {"one": 1, "two": 2}[kind]
    return locks, refs, mine, other


def _interpret(fn: ast.AST, selfname: str, key: str, inject_main: bool, cls: ast.ClassDef | None = None) -> tuple[int, dict[str, str], list]:
    """Interpret ``fn`` on every (initial state, injection point); returns (cases, {"<rule>|<slot>": first failure}, samples).
    Raises Unsupported for a construct outside the interpreter's model."""
    main_lock = Record("Lock", name="main-lock")
    hooks = {
        f"{selfname}.{MAIN_ACCESSOR}": lambda: main_lock,
        "asyncio.Lock": lambda: Record("Lock", name="new-lock"),
        "Lock": lambda: Record("Lock", name="new-lock"),
        "asyncio.sleep": lambda *a: None,
    }
    for other_prim in ("Semaphore", "BoundedSemaphore", "Event", "Condition"):  # so that a wrong factory is a finding, not an analysis error
        hooks[f"asyncio.{other_prim}"] = (lambda *a, _n=other_prim, **k: Record(_n, name=f"new-{_n}"))
    cases = 0
    bad: dict[str, str] = {}
    samples = []

    def fail(rule_slot: str, why: str) -> None:
        bad.setdefault(rule_slot, why)

    for kind in ("absent", "one", "two"):
        # first the undisturbed run to learn the suspension points, then one run per injection point
        n_points = None
        inj: int | None = None
        while True:
            locks, refs, mine, other = _mk_state(kind)
            init_locks, init_refs = dict(locks), dict(refs)
            me = Record("KeyedLock", _locks=locks, _refs=refs, _main_lock=main_lock)
            at_yield: dict = {}

            def on_yield(sim, env, _l=locks, _r=refs, _d=at_yield):
                _d["refs"] = dict(_r)
                _d["locks"] = dict(_l)
                _d["held"] = list(sim.held)

            sim = OwnSim({}, hooks, inject_at=inj, on_yield=on_yield,
                      may_wait=(lambda obj: True) if inject_main else (lambda obj: obj is not main_lock))
            if cls is not None:  # `await self.<helper>(...)` is interpreted through (methods of the class, on this Record)
                sim.classes = {"KeyedLock": {n.name: n for n in cls.body if isinstance(n, FuncNode) and n is not fn}}
            left_by = run_generator(fn, sim, {selfname: me, key: "k"})
            cases += 1
            where = f"initial state `{kind}`, " + (f"exception injected at {sim.points[inj]}" if inj is not None and inj < len(sim.points) else "no exception")
            if inj is None:
                n_points = len(sim.points)
                if len(samples) < 3:
                    samples.append({"state": kind, "suspension_points": list(sim.points), "trace": [t[0] + (":" + getattr(t[1], "name", str(t[1])) if len(t) > 1 else "") for t in sim.trace]})
            # ---- expectations
            if inj is not None and left_by is None:
                fail("R1|swallowed", f"{where}: the injected exception did not propagate out of the context manager")
            if inj is None and left_by is not None:
                fail("R1|raises", f"{where}: the function raises {left_by}")
            if at_yield:
                exp = init_refs.get("k", 0) + 1
                if at_yield["refs"].get("k") != exp:
                    fail("R1|count-at-yield", f"{where}: at the yield _refs[key] = {at_yield['refs'].get('k')!r}, expected {exp} (holders + waiters)")
                held = at_yield["held"]
                lk = at_yield["locks"].get("k")
                if lk is None or not any(h is lk for h in held):
                    fail("R3|held-at-yield", f"{where}: at the yield the lock registered for the key is not held (held: {[getattr(h, 'name', h) for h in held]})")
                if mine is not None and lk is not mine:
                    fail("R3|lock-identity", f"{where}: the lock object registered for an existing key was replaced — earlier holders and new holders use different locks")
                if any(h is main_lock for h in held):
                    fail("R2|main-held-at-yield", f"{where}: the main lock is still held at the yield — all keys block each other")
                extra = [h for h in held if h is not lk and h is not main_lock]
                if extra:
                    fail("R2|main-held-at-yield", f"{where}: additional lock held at the yield: {[getattr(h, 'name', h) for h in extra]}")
            elif inj is None:
                fail("R3|held-at-yield", f"{where}: the function never yields")
            # suspension while the main lock is held
            depth = 0
            for t in sim.trace:
                if t[0] == "enter" and t[1] is main_lock:
                    depth += 1
                elif t[0] == "exit" and t[1] is main_lock:
                    depth -= 1
                elif t[0] in ("await", "yield") and depth > 0:
                    fail("R2|suspend-under-main", f"{where}: `{t[0]}` executed while the main lock is held")
            # net effect: tables equal the initial tables
            if dict(refs) != init_refs:
                fail("R1|refs-restored", f"{where}: after exit _refs = {dict(refs)}, initially {init_refs}")
            if set(locks) != set(init_locks) or any(locks[k] is not init_locks[k] for k in locks if k in init_locks):
                fail("R1|locks-restored", f"{where}: after exit _locks has keys {sorted(locks)} (initially {sorted(init_locks)}) or a replaced lock object")
            if sim.held:
                fail("R1|released", f"{where}: locks still held after exit: {[getattr(h, 'name', h) for h in sim.held]}")
            # detached acquisitions: the waiter has left, the acquire it started completes later; harmful when that lock is the
            # one (still) registered for the key or another lock of the KeyedLock — later callers queue on it for ever
            for lk, okind, text in sim.orphans:
                if lk is main_lock or any(v is lk for v in locks.values()):
                    fail("R5|orphan", f"{where}: the waiter is gone but the acquisition started by `{text}` is not ({'shielded from the cancellation' if okind == 'shield' else 'its task may already have finished'}): "
                         f"it takes `{getattr(lk, 'name', lk)}`, which is still {'the main lock' if lk is main_lock else 'registered for the key'}, and nothing releases it — every later waiter of the key hangs and the entry is never removed")
            # next injection point
            inj = 0 if inj is None else inj + 1
            if n_points is None or inj >= n_points:
                break
    return cases, bad, samples


def _simulate(chk, m: Module, fn: ast.AST, selfname: str, key: str, inject_main: bool, cls: ast.ClassDef | None = None) -> None:
    try:
        cases, bad, samples = _interpret(fn, selfname, key, inject_main, cls)
    except Unsupported as e:
        if any(o.rule == "C25.R5" and not o.ok for o in chk.obligations):
            # an acquisition that is not owned by the frame is already established structurally; the interpretation could only
            # add its consequence.  Say that it was not carried out instead of hiding the finding behind an analysis error.
            chk.observe(f"C25.R1/R2/R3 interpretation not carried out: `KeyedLock.__call__` uses a construct the interpreter does not model ({e}); "
                        "the structural C25.R5 finding stands on its own")
            return
        raise AnchorError(f"C25: `KeyedLock.__call__` uses a construct the interpreter does not model: {e}")
    chk.exhaustive = True
    chk.extra["simulation"] = {"cases": cases, "states": ["absent", "one", "two"], "samples": samples, "main_lock_acquisitions_injected": inject_main}
    chk.floor("C25.R1", "interpreted (state, injection point) cases", cases, 9)

    def ob(rule: str, slot: str, text: str) -> None:
        k = f"{rule}|{slot}"
        chk.ob(f"C25.{rule}", text + f" [{cases} interpreted cases]", k not in bad, m=m, node=fn, fn=fn, instance=f"sim:{slot}", reason=bad.get(k, ""))

    ob("R1", "count-at-yield", "while a caller is inside the critical section the key's reference count is the initial count + 1")
    ob("R1", "refs-restored", "after the context manager is left (normally, by failure of the block, or by cancellation at any suspension point) _refs equals its initial value: a key without holders/waiters has no entry, a key still in use keeps its count, other keys are untouched")
    ob("R1", "locks-restored", "after the context manager is left _locks equals its initial value (entry deleted exactly when the last holder/waiter leaves; never replaced)")
    ob("R1", "released", "every lock acquired by the context manager is released when it is left")
    ob("R1", "swallowed", "exceptions and cancellation of the caller's block propagate (the cleanup does not swallow them)")
    ob("R1", "raises", "the undisturbed acquire/release sequence raises nothing")
    ob("R2", "suspend-under-main", "no await/yield executes while the main lock is held")
    ob("R2", "main-held-at-yield", "at the yield only the per-key lock is held (holders of different keys do not block each other)")
    ob("R3", "held-at-yield", "at the yield the lock registered for the key is held")
    ob("R3", "lock-identity", "an already registered key keeps its lock object")
    ob("R5", "orphan", "no acquisition outlives its waiter: after the context manager was left by an exception at any suspension point, no lock that is still registered "
       "(or the main lock) is taken by an acquire() that runs detached from the frame (asyncio.shield / task)")


# =============================================================================== R4
def _keyedlock_fields(mods) -> set[str]:
    """Names of fields / locals that are assigned `KeyedLock(...)` anywhere."""
    out = set()
    for mod in mods:
        if CLS not in mod.src:
            continue
        for n in ast.walk(mod.tree):
            if isinstance(n, (ast.Assign, ast.AnnAssign)) and isinstance(getattr(n, "value", None), ast.Call) and last(call_name(n.value)) == CLS:
                for t in (n.targets if isinstance(n, ast.Assign) else [n.target]):
                    if isinstance(t, ast.Attribute):
                        out.add(t.attr)
                    elif isinstance(t, ast.Name):
                        out.add(t.id)
    return out


def _outsiders(mods, holder_names: set[str], is_keyedlock_class) -> list[tuple[Module, ast.Attribute]]:
    hits = []
    for mod in mods:
        if not any(t in mod.src for t in TABLES):
            continue
        for n in ast.walk(mod.tree):
            if not (isinstance(n, ast.Attribute) and n.attr in TABLES):
                continue
            c = enclosing_class(n)
            if c is not None and is_keyedlock_class(mod, c):
                continue
            recv = n.value
            rname = recv.attr if isinstance(recv, ast.Attribute) else (recv.id if isinstance(recv, ast.Name) else None)
            if rname in holder_names and not (isinstance(recv, ast.Name) and recv.id in ("self", "cls")):
                hits.append((mod, n))
    return hits


def _ownership(chk, repo) -> None:
    mods = list(repo.by_rel.values())
    holders = _keyedlock_fields(mods)
    chk.floor("C25.R4", "fields/locals holding a KeyedLock", len(holders), 1)

    def is_kl(mod: Module, c: ast.ClassDef) -> bool:
        if c.name == CLS and mod.name == MOD:
            return True
        try:
            return f"{MOD}:{CLS}" in repo.mro_names(f"{mod.name}:{c.name}")
        except AnchorError:
            return False

    hits = _outsiders(mods, holders, is_kl)
    for mod, n in hits:
        chk.ob("C25.R4", "only KeyedLock touches the _locks/_refs tables of a KeyedLock", False, m=mod, node=n, fn=enclosing_function(n),
               instance=f"outsider:{ast.unparse(n)[:40]}", reason=f"`{ast.unparse(n)}` reads or writes the table of a KeyedLock from outside the class")
    if not hits:
        m, cls = repo.cls(f"{MOD}:{CLS}")
        inside = sum(len(attr_reads(cls, t)) + len(attr_writes(cls, t)) for t in TABLES)
        chk.ob("C25.R4", f"no access to `<KeyedLock>._locks/_refs` outside the class ({inside} accesses inside it; receivers typed through {sorted(holders)})", True,
               m=m, node=cls, instance="outsiders")
    # planted positive example: the rule must see it
    fx = VERIF / "fixtures" / "c25" / "outsider.py"
    if not fx.is_file():
        raise AnchorError(f"C25.R4 fixture {fx} missing")
    src = fx.read_text()
    tree = ast.parse(src)
    _set_parents(tree)
    fmod = Module("fixture_c25_outsider", fx, "fixtures/c25/outsider.py", src, tree)
    fh = _outsiders([fmod], _keyedlock_fields([fmod]), lambda mod, c: c.name == CLS)
    chk.floor("C25.R4", "planted outsider accesses reported on the fixture", len(fh), 2)


# =============================================================================== twins
_P = "packages/llama-agents-server/src/llama_agents/server/_keyed_lock.py"
# the two bookkeeping sections moved into directly awaited coroutine methods; the first returns the per-key lock, which is then
# used through a local instead of re-reading the table (get-or-create through a local, decrement through a local)
_INLINE_BODY = (
    "        async with self._get_main_lock():\n            if key not in self._locks:\n                self._locks[key] = asyncio.Lock()\n"
    "                self._refs[key] = 0\n            self._refs[key] += 1\n\n        try:\n            async with self._locks[key]:\n                yield\n"
    "        finally:\n            # Deregister and cleanup if last.\n            # No await between these lines = atomic in asyncio.\n"
    "            async with self._get_main_lock():\n                self._refs[key] -= 1\n                if self._refs[key] == 0:\n"
    "                    del self._locks[key]\n                    del self._refs[key]\n"
)
_H_CALL = "        held = await self._join(key)\n        try:\n            async with held:\n                yield\n        finally:\n            await self._leave(key)\n\n"
_H_JOIN = (
    "    async def _join(self, key: str) -> asyncio.Lock:\n        async with self._get_main_lock():\n            held = self._locks.get(key)\n"
    "            if held is None:\n                held = asyncio.Lock()\n                self._locks[key] = held\n                self._refs[key] = 0\n"
    "            self._refs[key] += 1\n        return held\n\n"
)
_H_LEAVE = (
    "    async def _leave(self, key: str) -> None:\n        async with self._get_main_lock():\n            left = self._refs[key] - 1\n"
    "            if left == 0:\n                del self._locks[key]\n                del self._refs[key]\n            else:\n                self._refs[key] = left\n"
)


def _helper_form(*edits: tuple[str, str]) -> str:
    out = _H_CALL + _H_JOIN + _H_LEAVE
    for a, b in edits:
        assert a in out, a
        out = out.replace(a, b, 1)
    return out


TWINS = [
    # ---- bookkeeping sections extracted into directly awaited coroutine methods (read through: folded by the helper inliner, or —
    #      where it cannot fold them — followed one level by the rules and executed in place by the interpretation)
    Twin("benign: sections extracted into awaited coroutines, per-key lock returned and used through a local", _P, _INLINE_BODY, _helper_form(), None),
    Twin("benign: as before, the registering coroutine awaited in the `async with` header", _P, _INLINE_BODY,
         _helper_form(("        held = await self._join(key)\n        try:\n            async with held:", "        try:\n            async with await self._join(key):")), None),
    Twin("benign: get-or-create through a local in place (no helper)", _P,
         "            if key not in self._locks:\n                self._locks[key] = asyncio.Lock()\n                self._refs[key] = 0\n            self._refs[key] += 1\n\n        try:\n            async with self._locks[key]:",
         "            held = self._locks.get(key)\n            if held is None:\n                held = asyncio.Lock()\n                self._locks[key] = held\n                self._refs[key] = 0\n            self._refs[key] += 1\n\n        try:\n            async with held:", None),
    Twin("extracted form: decrement computed in a local and never written back while others remain", _P, _INLINE_BODY,
         _helper_form(("            else:\n                self._refs[key] = left\n", "")), "C25.R1"),
    Twin("extracted form: suspension between the awaited registration and the try", _P, _INLINE_BODY,
         _helper_form(("        held = await self._join(key)\n", "        held = await self._join(key)\n        await asyncio.sleep(0)\n")), "C25.R1"),
    Twin("extracted form: await inside the bookkeeping section of the registering coroutine", _P, _INLINE_BODY,
         _helper_form(("            self._refs[key] += 1\n        return held", "            await asyncio.sleep(0)\n            self._refs[key] += 1\n        return held")), "C25.R2"),
    Twin("extracted form: the returned lock is a new object, a different one is registered", _P, _INLINE_BODY,
         _helper_form(("                self._locks[key] = held\n", "                self._locks[key] = asyncio.Lock()\n")), "C25.R3"),
    Twin("extracted form: every key registers and takes the lock of one shared slot", _P, _INLINE_BODY,
         _helper_form(("held = self._locks.get(key)", "held = self._locks.get('shared')"), ("self._locks[key] = held", "self._locks['shared'] = held")), "C25.R3"),
    Twin("extracted form: the local lock is a Semaphore(2)", _P, _INLINE_BODY, _helper_form(("held = asyncio.Lock()", "held = asyncio.Semaphore(2)")), "C25.R3"),
    # ---- R1 breaking
    Twin("count starts at one (never reaches zero: entries leak)", _P, "self._refs[key] = 0", "self._refs[key] = 1", "C25.R1"),
    Twin("entry deleted while one other waiter is still registered", _P, "if self._refs[key] == 0:", "if self._refs[key] <= 1:", "C25.R1"),
    Twin("refcount entry left behind", _P, "                    del self._locks[key]\n                    del self._refs[key]", "                    del self._locks[key]", "C25.R1"),
    Twin("cleanup only on normal exit", _P, "        finally:\n            # Deregister", "        except KeyError:\n            raise\n        else:\n            # Deregister", "C25.R1"),
    Twin("suspension between registration and the try (cancellation there leaks the reference)", _P,
         "        try:\n            async with self._locks[key]:", "        await asyncio.sleep(0)\n        try:\n            async with self._locks[key]:", "C25.R1"),
    Twin("cleanup swallows the caller's exception", _P, "        finally:\n            # Deregister", "        except BaseException:\n            pass\n        finally:\n            # Deregister", "C25.R1"),
    # ---- R2 breaking
    Twin("await inside the bookkeeping section", _P, "            self._refs[key] += 1\n", "            await asyncio.sleep(0)\n            self._refs[key] += 1\n", "C25.R2"),
    Twin("await between decrement and zero test", _P, "                self._refs[key] -= 1\n", "                self._refs[key] -= 1\n                await asyncio.sleep(0)\n", "C25.R2"),
    Twin("per-key lock acquired while the main lock is held", _P,
         "            self._refs[key] += 1\n\n        try:\n            async with self._locks[key]:\n                yield",
         "            self._refs[key] += 1\n            await self._locks[key].acquire()\n\n        try:\n            try:\n                yield\n            finally:\n                self._locks[key].release()", "C25.R2"),
    # ---- R3 breaking
    Twin("yield after the per-key lock was released", _P, "            async with self._locks[key]:\n                yield", "            async with self._locks[key]:\n                pass\n            yield", "C25.R3"),
    Twin("lock object replaced on every acquisition", _P,
         "            if key not in self._locks:\n                self._locks[key] = asyncio.Lock()\n                self._refs[key] = 0",
         "            self._locks[key] = asyncio.Lock()\n            if key not in self._refs:\n                self._refs[key] = 0", "C25.R3"),
    Twin("per-key lock admits two holders", _P, "self._locks[key] = asyncio.Lock()", "self._locks[key] = asyncio.Semaphore(2)", "C25.R3"),
    Twin("one lock for all keys", _P, "            async with self._locks[key]:\n                yield", "            async with self._locks[min(self._locks)]:\n                yield", "C25.R3"),
    # ---- R5 breaking: an acquisition that can outlive its waiter
    Twin("shielded acquire, release in an inner try/finally (cancelled waiter leaves the acquire queued; it later takes the lock for nobody)", _P,
         "        try:\n            async with self._locks[key]:\n                yield",
         "        lock = self._locks[key]\n        try:\n            await asyncio.shield(lock.acquire())\n            try:\n                yield\n            finally:\n                lock.release()", "C25.R5"),
    Twin("acquire run as a task (task finishes, waiter is cancelled before it resumes: lock taken, never released)", _P,
         "            async with self._locks[key]:\n                yield",
         "            await asyncio.create_task(self._locks[key].acquire())\n            try:\n                yield\n            finally:\n                self._locks[key].release()", "C25.R5"),
    Twin("acquire coroutine stored, wrapped by ensure_future, future awaited", _P,
         "            async with self._locks[key]:\n                yield",
         "            pending = self._locks[key].acquire()\n            fut = asyncio.ensure_future(pending)\n            await fut\n            try:\n                yield\n            finally:\n                self._locks[key].release()", "C25.R5"),
    Twin("shielded acquire of the main lock in the epilogue (a cancelled leaver leaves the main lock taken: every key hangs)", _P,
         "            async with self._get_main_lock():\n                self._refs[key] -= 1\n                if self._refs[key] == 0:\n                    del self._locks[key]\n                    del self._refs[key]",
         "            main = self._get_main_lock()\n            await asyncio.shield(main.acquire())\n            try:\n                self._refs[key] -= 1\n                if self._refs[key] == 0:\n                    del self._locks[key]\n                    del self._refs[key]\n            finally:\n                main.release()", "C25.R5"),
    # ---- R5 benign: the manual form of `async with` — acquired by a direct await in the waiter's own frame, released on every exit after it
    Twin("benign: direct `await lock.acquire()` with release in an inner try/finally", _P,
         "        try:\n            async with self._locks[key]:\n                yield",
         "        lock = self._locks[key]\n        try:\n            await lock.acquire()\n            try:\n                yield\n            finally:\n                lock.release()", None),
    Twin("benign: direct acquire/release on the table entry, no local", _P,
         "            async with self._locks[key]:\n                yield",
         "            await self._locks[key].acquire()\n            try:\n                yield\n            finally:\n                self._locks[key].release()", None),
    Twin("benign: acquire coroutine in a local, awaited directly", _P,
         "            async with self._locks[key]:\n                yield",
         "            pending = self._locks[key].acquire()\n            await pending\n            try:\n                yield\n            finally:\n                self._locks[key].release()", None),
    # ---- benign
    Twin("benign: membership by get()", _P, "if key not in self._locks:", "if self._locks.get(key) is None:", None),
    Twin("benign: explicit increment", _P, "self._refs[key] += 1", "self._refs[key] = self._refs[key] + 1", None),
    Twin("benign: falsy zero test", _P, "if self._refs[key] == 0:", "if not self._refs[key]:", None),
    Twin("benign: strict bound zero test", _P, "if self._refs[key] == 0:", "if self._refs[key] < 1:", None),
    Twin("benign: pop instead of del", _P, "                    del self._locks[key]\n                    del self._refs[key]", "                    self._locks.pop(key)\n                    self._refs.pop(key)", None),
    Twin("benign: extracted lock local", _P, "            async with self._locks[key]:\n                yield", "            lock = self._locks[key]\n            async with lock:\n                yield", None),
    Twin("benign: setdefault registration", _P,
         "            if key not in self._locks:\n                self._locks[key] = asyncio.Lock()\n                self._refs[key] = 0\n            self._refs[key] += 1",
         "            if key not in self._locks:\n                self._locks[key] = asyncio.Lock()\n            self._refs[key] = self._refs.get(key, 0) + 1", None),
    Twin("benign: bookkeeping without the (redundant) main lock in the epilogue", _P,
         "            async with self._get_main_lock():\n                self._refs[key] -= 1\n                if self._refs[key] == 0:\n                    del self._locks[key]\n                    del self._refs[key]",
         "            self._refs[key] -= 1\n            if self._refs[key] == 0:\n                del self._locks[key]\n                del self._refs[key]", None),
    Twin("benign: statement after the yield under the lock", _P, "            async with self._locks[key]:\n                yield", "            async with self._locks[key]:\n                yield\n                pass", None),
]
