"""C30 — a workflow instance never runs more concurrent runs than its limit.

Decided (necessary conditions; together with `asyncio.Semaphore` semantics they give the bound for
every interleaving of starts and finishes):

* R1  the run function of a workflow (`registered.workflow_run_fn(...)`, the control loop that executes
      steps) is called in plugins/basic.py only inside
      `async with self._maybe_acquire_max_concurrent_runs(<the workflow parameter>, ...)`, and that
      coroutine is what `BasicRuntime.run_workflow` schedules.
* R2  `_maybe_acquire_max_concurrent_runs`, interpreted from its AST.  A workflow instance is modelled by what distinct
      instances may share (class -> `__class__`/`type()`, `_workflow_name` and the repo's own `workflow_name` property
      evaluated on it, `_num_concurrent_runs`) and what they cannot (identity: `id()`, the instance as an identity-hashed
      key).  Table states are not written down under a guessed key but produced by the helper itself: runs that are "in
      progress" are interpretations suspended at their yield while the next run starts.  Domain: limit in {None, 1..4} x
      runs in progress in {none, same instance, another instance, both} x {no failure, exception injected at every
      suspension point in turn}, plus every pair of limits {1..4}^2 for two live instances that are equal in every
      attribute but identity (class-derived and explicit shared workflow_name).  Decided: exactly one yield; on the
      limited path the yield happens while exactly one semaphore is held; concurrent runs of one instance hold the same
      semaphore; a first run creates `Semaphore(limit)` and registers it; two distinct live instances never hold the
      same semaphore (independent limits -- the violation names the registry key expression); the semaphore of a run
      still in progress stays registered when another run ends; whatever is acquired is released on every exit.
      Structural: no suspension point between the table test and the insert (two concurrent first runs would otherwise
      create two semaphores), and the semaphore entered is pinned by a local name (the table is a WeakValueDictionary).
      Pairing on every path, cancellation edges included (`release-paired`): a `<sem>.release()` gives back a permit, so it
      must be dominated by a *completed* `<sem>.acquire()` of the same semaphore -- in the helper's CFG (exception and
      cancellation edges leave every await) no path from the entry may reach the release without traversing a normal
      out-edge of an acquiring statement.  `try: await sem.acquire(); yield  finally: sem.release()` fails it: a run that
      is cancelled while still queued in `acquire()` reaches the `finally` and releases a permit it never held, and the
      limit grows by one per such cancellation.  A release guarded by a local constant flag that becomes true only after
      a completed acquire is accepted.  The interpretation counts the same thing: cancelled at the acquisition, no run
      may release (`sim:release-held`).
* R3  `_num_concurrent_runs` is written only by `Workflow.__init__`, with the unmodified
      `num_concurrent_runs` argument.  Anti-vacuity floor: the acquisition helper consumes that very field in both of its
      roles (decides bounded/unbounded on every path to the acquisition; sizes the created semaphore) -- counted by
      dependence, not by read sites.

Not decided: "every started run eventually executes" beyond release-on-every-exit (FIFO fairness of
asyncio.Semaphore is trusted); runtimes other than BasicRuntime (an observation lists other
callers of `workflow_run_fn`, which do not consult the limit).
"""

from __future__ import annotations

import ast
from pathlib import Path

from ..absint import Raised, Record, Unsupported
from ..astx import attr_writes, call_name, calls_named, dep_slice, dotted, enclosing_stmt, expand, facts_at, last
from ..cfg import CFG, exprs_in_node
from ..index import AnchorError, FuncNode, _set_parents, ancestors, enclosing_function, parent, qualname_of, walk_shallow
from ..selftest import Twin
from .c25 import Sim, run_generator  # shared helper: Interp + async-with / yield / await with exception injection

EXPLANATION = (
    "R1: every call of a registered workflow's run function in plugins/basic.py is lexically inside `async with "
    "self._maybe_acquire_max_concurrent_runs(workflow, ...)` with the workflow parameter of run_workflow, inside the coroutine that run_workflow schedules. "
    "R2: the acquisition helper is interpreted from its AST on workflow models that carry what instances may share (class, workflow_name, limit) and what they cannot "
    "(identity), with table states produced by the helper's own suspended runs: limit in {None,1..4} x runs in progress {none, same instance, another instance, both} x an "
    "exception injected at each suspension point, plus all limit pairs {1..4}^2 of two live instances equal in everything but identity (class-derived and explicit shared "
    "name): one yield; on the limited path exactly one semaphore held at the yield; concurrent runs of one instance share it; a first run registers a new Semaphore(limit); "
    "two distinct live instances never hold the same semaphore (the registry key must identify the instance: id(workflow) or the instance itself pass, workflow_name / class "
    "do not); a running run's semaphore stays registered; everything acquired is released on every exit; no suspension between table test and insert; the "
    "entered semaphore is pinned by a local (WeakValueDictionary); every `<sem>.release()` is dominated by a completed `<sem>.acquire()` of the same semaphore on the "
    "helper's CFG including the exception/cancellation edges of the acquiring await (an acquire inside the `try` whose `finally`/handler releases gives a permit back "
    "that a run cancelled while queued never held: the limit grows by one per cancellation), also as interpreted: cancelled at the acquisition, a run releases nothing "
    "(planted forms in fixtures/c30/planted_release.py are analysed on every run). R3: `_num_concurrent_runs` has exactly one writer, Workflow.__init__, storing the argument unchanged; that this is the field the runtime consumes is "
    "established by role, on the helper-inlined view and by dependence through locals (floor 2): a branch test guarding every path to the acquisition depends on it, and the size of the "
    "Semaphore the helper creates depends on it. "
    "Not decided: semaphore fairness (trusted); other runtimes (observation)."
)
TRUSTED = ["CPython ast", "asyncio.Semaphore semantics (counter, FIFO wake-up)", "contextlib.asynccontextmanager", "id() is unique among live objects", "Workflow instances hash/compare by identity (no __eq__/__hash__ override)"]
LEVEL_NOTE = "Exhaustive over limit {None,1..4} x 4 runs-in-progress states x every suspension point of the helper, and over limit pairs {1..4}^2 x 2 namings of two identity-distinct equal instances; structural rules for the call site and the limit's data flow. Fairness is trusted."
TECHNIQUE = "static analysis: finite-domain AST interpretation with exception injection + lexical/CFG rules (guarded call site, check-then-act window, single writer)"

BASIC = "workflows.plugins.basic"
WF = "workflows.workflow"
HELPER = "_maybe_acquire_max_concurrent_runs"
LIMIT_FIELD = "_num_concurrent_runs"
TABLE = "_max_concurrent_runs"


def run(chk) -> None:
    repo = chk.repo
    # private helpers of plugins/basic.py that this module does not name (in particular ones a refactoring extracts from the
    # acquisition helper) are folded back into their callers first; a no-op when the driver has already done it
    from ._engine import inlined_view
    chk.extra["helpers_inlined"] = inlined_view(repo, BASIC, __file__)
    mb = repo.module(BASIC)
    mh, helper = repo.func(f"{BASIC}:BasicRuntime.{HELPER}")
    mr, runwf = repo.func(f"{BASIC}:BasicRuntime.run_workflow")

    # ------------------------------------------------------------------ R1
    calls = [c for c in ast.walk(mb.tree) if isinstance(c, ast.Call) and isinstance(c.func, ast.Attribute) and c.func.attr == "workflow_run_fn"]
    chk.floor("C30.R1", "calls of a registered run function in plugins/basic.py", len(calls), 1)
    wf_param = _param_named(runwf, "workflow", 2)
    for c in calls:
        fn = enclosing_function(c)
        guard = None
        for a in ancestors(c):
            if isinstance(a, (ast.AsyncWith, ast.With)):
                for it in a.items:
                    e = it.context_expr
                    if isinstance(e, ast.Call) and last(call_name(e)) == HELPER:
                        guard = e
            if a is fn:
                break
        ok, reason = guard is not None, "the run function is called outside `async with self._maybe_acquire_max_concurrent_runs(...)`"
        if ok:
            arg0 = guard.args[0] if guard.args else next((k.value for k in guard.keywords if k.arg == "workflow"), None)
            ok = isinstance(arg0, ast.Name) and arg0.id == wf_param and not _rebound(runwf, wf_param)
            reason = f"the limit is acquired for `{ast.unparse(arg0) if arg0 is not None else '?'}`, not for the workflow being run (`{wf_param}`)"
        if ok:
            # the registered object comes from the same workflow
            recv = expand(c.func.value, enclosing_stmt(c)) if isinstance(c.func.value, ast.Name) else c.func.value
            outer = _outer_def(runwf, recv)
            ok = outer is not None and any(isinstance(x, ast.Name) and x.id == wf_param for x in ast.walk(outer))
            reason = f"`{ast.unparse(c.func.value)}` is not derived from the workflow parameter"
        chk.ob("C30.R1", "a workflow's run function executes only while its concurrency slot is held (call inside `async with self._maybe_acquire_max_concurrent_runs(workflow, …)`)",
               ok, m=mb, node=c, fn=fn, instance="run-fn-call", reason="" if ok else reason)
        # the coroutine holding the guarded call is what gets scheduled
        if fn is not None and fn is not runwf:
            sched = [t for t in calls_named(runwf, "create_task", "ensure_future") if any(isinstance(x, ast.Call) and isinstance(x.func, ast.Name) and x.func.id == fn.name for x in ast.walk(t))]
            chk.ob("C30.R1", f"`run_workflow` schedules the guarded coroutine `{fn.name}` as the run task", bool(sched), m=mb, node=(sched[0] if sched else fn), fn=runwf,
                   instance="scheduled-coroutine", reason=f"no create_task({fn.name}()) in run_workflow")
    # other direct ways to start the control loop in this module
    direct = [c for c in calls_named(mb.tree, "control_loop", shallow=False)]
    chk.ob("C30.R1", "plugins/basic.py does not start the control loop except through the registered run function", not direct, m=mb, node=(direct[0] if direct else mb.tree),
           fn=(enclosing_function(direct[0]) if direct else None), instance="direct-control-loop", reason="direct call of control_loop bypasses the limit")
    _observe_other_runtimes(chk, repo)

    # ------------------------------------------------------------------ R2 semantic
    _simulate(chk, repo, mh, helper)

    # ------------------------------------------------------------------ R2 structural: check-then-act window on the table
    cfg = CFG(helper)
    touch = [n for n in cfg.nodes if n.ast is not None and any(isinstance(x, ast.Attribute) and x.attr == TABLE for x in exprs_in_node(n))]
    chk.floor("C30.R2", "CFG nodes of the helper that read or write the semaphore table", len(touch), 2)

    def suspends(n) -> bool:
        if n.ast is None:
            return False
        if n.kind == "with":
            return isinstance(n.ast, ast.AsyncWith)
        return any(isinstance(x, (ast.Await, ast.Yield, ast.YieldFrom)) for x in exprs_in_node(n))

    windows = []
    for s in [n for n in cfg.nodes if suspends(n)]:
        before = [a for a in touch if a is s or s in cfg.reach([a], labels_excluded=("exc", "cancel"), include_starts=False)]
        after = [b for b in touch if b is not s and b in cfg.reach([s], labels_excluded=("exc", "cancel"), include_starts=False)]
        writes_after = [b for b in after if _writes_table(b)]
        if before and writes_after:
            windows.append((before[0], s, writes_after[0]))
    chk.ob("C30.R2", "no suspension point between the lookup of an instance's semaphore and its registration (two concurrent first runs cannot both create one)",
           not windows, m=mh, node=(windows[0][1].ast if windows else helper), fn=helper, instance="lookup-or-create-atomic",
           reason=(f"`{ast.unparse(windows[0][1].ast)[:50]}` (line {windows[0][1].line}) suspends between the table access at line {windows[0][0].line} and the write at line {windows[0][2].line}") if windows else "")

    # weak table: the entered semaphore must be pinned by a local
    weak = _table_is_weak(repo)
    sem_withs = [w for w in walk_shallow(helper) if isinstance(w, (ast.AsyncWith, ast.With))]
    for w in sem_withs:
        e = w.items[0].context_expr
        pinned = isinstance(e, ast.Name) or not weak
        chk.ob("C30.R2", "the semaphore that is entered is referenced by a local name for the duration (the table holds semaphores weakly)", pinned, m=mh, node=w, fn=helper,
               instance="semaphore-pinned", reason=f"`async with {ast.unparse(e)[:50]}` looks the semaphore up in a WeakValueDictionary without a strong reference")

    # pairing on every path, cancellation edges included: a release is dominated by a completed acquire of the same semaphore
    unpaired = _unpaired_releases(helper)
    acq_sites = [x for x in walk_shallow(helper) if (isinstance(x, ast.Call) and isinstance(x.func, ast.Attribute) and x.func.attr == "acquire")
                 or isinstance(x, (ast.AsyncWith, ast.With))]
    chk.floor("C30.R2", "acquisition sites of the helper (`async with <sem>` or `<sem>.acquire()`)", len(acq_sites), 1)
    chk.ob("C30.R2", "every `<sem>.release()` of the helper is dominated by a completed `<sem>.acquire()` of the same semaphore, on exception and cancellation edges too "
           "(a run cancelled while still queued in acquire() must not give back a permit)", not unpaired, m=mh, node=(unpaired[0][0] if unpaired else helper), fn=helper,
           instance="release-paired", reason=(unpaired[0][1] if unpaired else ""))
    _planted_releases(chk)

    # ------------------------------------------------------------------ R3
    writers = []
    for mod in repo.by_rel.values():
        if LIMIT_FIELD not in mod.src:
            continue
        for node, kind in attr_writes(mod.tree, LIMIT_FIELD):
            writers.append((mod, node, kind))
    chk.floor("C30.R3", f"writers of `{LIMIT_FIELD}`", len(writers), 1)
    mw, init = repo.func(f"{WF}:Workflow.__init__")
    init_param = _param_named(init, "num_concurrent_runs", None)
    for mod, node, kind in writers:
        fn = enclosing_function(node)
        st = enclosing_stmt(node)
        val = getattr(st, "value", None)
        in_init = fn is init
        direct = kind == "assign" and isinstance(val, ast.Name) and val.id == init_param and not _rebound(init, init_param) and isinstance(node.value, ast.Name) and node.value.id == init.args.args[0].arg
        ok = in_init and direct
        reason = ""
        if not in_init:
            reason = f"`{LIMIT_FIELD}` is also written in {qualname_of(fn) if fn else '<module>'} ({mod.rel})"
        elif not direct:
            reason = f"the stored limit is `{ast.unparse(val)[:60] if val is not None else kind}`, not the `{init_param}` argument"
        chk.ob("C30.R3", "the configured limit reaches the runtime unchanged: `_num_concurrent_runs` is written only by Workflow.__init__ with the `num_concurrent_runs` argument",
               ok, m=mod, node=node, fn=fn, instance=f"limit-writer:{qualname_of(fn) if fn else 'module'}", reason=reason)
    # The field whose writers were just inventoried must be the one the runtime consumes, or the rule passes vacuously.  What is
    # counted is the *roles* in which the acquisition helper (helper-inlined view) uses it, by dependence -- not read sites: reading
    # the field once into a local that serves both roles, or twice, is the same program.
    roles = _limit_reader_roles(helper, cfg, _param_named(helper, "workflow", 1))
    chk.floor("C30.R3", f"roles in which `{HELPER}` consumes `{LIMIT_FIELD}` of its workflow (decides whether a semaphore is acquired; sizes the semaphore it creates)",
              len([r for r, sites in roles.items() if sites]), 2)
    chk.extra["limit_reader_roles"] = {r: sorted({" ".join(ast.unparse(x).split())[:80] for x in sites}) for r, sites in roles.items()}


# ================================================================================== helpers
def _param_named(fn: ast.AST, name: str, pos: int | None) -> str:
    names = [a.arg for a in fn.args.posonlyargs + fn.args.args + fn.args.kwonlyargs]
    if name in names:
        return name
    if pos is not None and len(names) > pos:
        return names[pos]
    raise AnchorError(f"`{qualname_of(fn)}` has no parameter `{name}`")


def _limit_reader_roles(helper: ast.AST, cfg: CFG, wf_param: str) -> dict[str, list[ast.AST]]:
    """Where the configured limit is consumed in the acquisition helper, by role:
    `decides` -- a branch test that every normal path to an acquisition site (`async with <sem>` / `<sem>.acquire()`) traverses
                 and whose value may depend on `<workflow>._num_concurrent_runs` (the unbounded / bounded split);
    `sizes`   -- a `Semaphore(...)` construction whose size argument may depend on it.
    Dependence is the flow-insensitive slice through the helper's locals, so a local holding the limit, a local holding the
    test result, early return vs if/else and a folded-back extracted helper all give the same answer."""
    if _rebound(helper, wf_param):
        raise AnchorError(f"C30.R3: `{qualname_of(helper)}` rebinds its workflow parameter `{wf_param}`")

    def reads_limit(e: ast.AST) -> bool:
        return any(isinstance(a, ast.Attribute) and a.attr == LIMIT_FIELD and isinstance(a.ctx, ast.Load) and isinstance(a.value, ast.Name) and a.value.id == wf_param
                   for x in dep_slice(helper, e).exprs for a in ast.walk(x))

    roles: dict[str, list[ast.AST]] = {"decides": [], "sizes": []}
    for n in cfg.nodes:
        if n.ast is None:
            continue
        acquires = (n.kind == "with" and isinstance(n.ast, (ast.AsyncWith, ast.With))) or any(
            isinstance(x, ast.Call) and isinstance(x.func, ast.Attribute) and x.func.attr == "acquire" for x in exprs_in_node(n))
        if not acquires:
            continue
        for t, _label in cfg.guards(n, labels_excluded=("exc", "cancel")):
            test = getattr(t.ast, "test", None)
            if t.kind == "test" and test is not None and reads_limit(test) and all(test is not y for y in roles["decides"]):
                roles["decides"].append(test)
    for c in walk_shallow(helper):
        if isinstance(c, ast.Call) and (last(call_name(c)) or "").endswith("Semaphore"):
            size = c.args[0] if c.args and not isinstance(c.args[0], ast.Starred) else next((k.value for k in c.keywords if k.arg == "value"), None)
            if size is not None and reads_limit(size):
                roles["sizes"].append(c)
    return roles


def _rebound(fn: ast.AST, name: str) -> bool:
    return any(isinstance(n, ast.Name) and n.id == name and isinstance(n.ctx, (ast.Store, ast.Del)) for n in ast.walk(fn))


def _outer_def(outer_fn: ast.AST, e: ast.AST) -> ast.AST | None:
    """Definition of a closure variable used in a nested function: the single assignment in the enclosing function."""
    if not isinstance(e, ast.Name):
        return e
    defs = [s.value for s in walk_shallow(outer_fn) if isinstance(s, ast.Assign) and len(s.targets) == 1 and isinstance(s.targets[0], ast.Name) and s.targets[0].id == e.id]
    return defs[0] if len(defs) == 1 else None


def _writes_table(n) -> bool:
    for x in exprs_in_node(n):
        if isinstance(x, ast.Attribute) and x.attr == TABLE:
            p = parent(x)
            if isinstance(p, ast.Subscript) and isinstance(p.ctx, (ast.Store, ast.Del)):
                return True
            if isinstance(p, ast.Attribute) and p.attr in ("setdefault", "update", "pop", "clear", "__setitem__"):
                return True
    return False


def _table_is_weak(repo) -> bool:
    m, init = repo.func(f"{BASIC}:BasicRuntime.__init__")
    for s in walk_shallow(init):
        if isinstance(s, (ast.Assign, ast.AnnAssign)):
            tgt = s.targets[0] if isinstance(s, ast.Assign) else s.target
            if isinstance(tgt, ast.Attribute) and tgt.attr == TABLE and s.value is not None:
                return "Weak" in ast.unparse(s.value)
    raise AnchorError(f"`BasicRuntime.__init__` does not initialise `{TABLE}`")


def _is_method_call(x: ast.AST, attr: str) -> bool:
    return isinstance(x, ast.Call) and isinstance(x.func, ast.Attribute) and x.func.attr == attr


def _unpaired_releases(fn: ast.AST) -> list[tuple[ast.AST, str]]:
    """`<R>.release()` calls of ``fn`` that some path from the entry reaches although no `<R>.acquire()` has *completed* on it.

    CFG reachability from the entry with the normal out-edges of every statement that contains `<R>.acquire()` removed: what
    stays reachable is reached either without any acquire or through the exception / cancellation edge of an acquiring
    statement (the acquire was abandoned while waiting).  Path-sensitive on one idiom: a release under a local flag whose
    bindings are all constants, which starts with the opposite value, and which takes the guarding value only at statements
    that are themselves dominated by a completed acquire."""
    cfg = CFG(fn)
    out: list[tuple[ast.AST, str]] = []
    rel_nodes = [(n, x) for n in cfg.nodes if n.ast is not None for x in exprs_in_node(n) if _is_method_call(x, "release")]
    for rn, call in rel_nodes:
        recv = dotted(call.func.value)
        if recv is None:
            raise AnchorError(f"C30.R2: release on `{ast.unparse(call.func.value)[:50]}` -- receiver is not a plain name/attribute chain")
        acq = [n for n in cfg.nodes if n.ast is not None and any(_is_method_call(x, "acquire") and dotted(x.func.value) == recv for x in exprs_in_node(n))]
        if not acq:
            raise AnchorError(f"C30.R2: `{recv}.release()` at line {call.lineno} has no `{recv}.acquire()` in the same function (unrecognised pairing idiom)")
        completed = [(a, lab) for a in acq for lab, _t in cfg.succ[a] if lab not in ("exc", "cancel")]
        without = cfg.reach([cfg.entry], blocked_edges=completed)
        if rn not in without:
            continue
        # flag-guarded release
        flagged = False
        for text, pol in sorted(facts_at(cfg, rn, expand_locals=False, _depth=0)):
            if not text.isidentifier():
                continue
            consts: list | None = []
            for t in walk_shallow(fn):
                if not (isinstance(t, ast.Name) and t.id == text and isinstance(t.ctx, (ast.Store, ast.Del))):
                    continue
                st = parent(t)
                single = (isinstance(st, ast.Assign) and len(st.targets) == 1 and st.targets[0] is t) or (isinstance(st, ast.AnnAssign) and st.target is t)
                v = getattr(st, "value", None)
                if not (single and isinstance(v, ast.Constant) and isinstance(v.value, bool)):
                    consts = None  # the flag mirrors something else than "the acquire completed"
                    break
                consts.append((st, v.value))
            if not consts:
                continue
            sets = [n for s, v in consts if v is pol for n in cfg.nodes_of(s)]
            inits = [n for s, v in consts if v is (not pol) for n in cfg.nodes_of(s)]
            if sets and inits and not any(n in without for n in sets) and not cfg.must_pass([cfg.entry], [rn], inits):
                flagged = True
        if flagged:
            continue
        via = [a for a in acq if any(lab in ("exc", "cancel") and (t is rn or rn in cfg.reach([t], blocked_edges=completed)) for lab, t in cfg.succ[a])]
        where = (f"reached from `{ast.unparse(via[0].ast)[:60]}` (line {via[0].line}) through its exception/cancellation edge{' (finally copy ' + rn.tag + ')' if rn.tag else ''}"
                 if via else "reachable without passing any acquire")
        out.append((call, f"`{recv}.release()` at line {call.lineno} is {where}: a run that is cancelled (or fails) while still waiting in `{recv}.acquire()` gives back a permit it "
                          f"never held, so the semaphore's counter -- the instance's limit -- grows by one per such cancellation.  Put the acquire before the `try` whose "
                          f"finally/handler releases, or use `async with {recv}:`"))
    # one report per release call (several finally copies share it)
    seen: set[int] = set()
    return [(c, r) for c, r in out if not (id(c) in seen or seen.add(id(c)))]


PLANTED = Path(__file__).resolve().parent.parent.parent / "fixtures" / "c30" / "planted_release.py"


def _planted_releases(chk) -> None:
    """The helper on /repo uses `async with`, so `release-paired` has no release site there: the planted forms keep it honest."""
    try:
        tree = ast.parse(PLANTED.read_text(encoding="utf-8"))
    except OSError as e:
        raise AnchorError(f"C30.R2: planted fixture missing: {e}")
    _set_parents(tree)
    bad = good = 0
    for f in tree.body:
        if not isinstance(f, FuncNode):
            continue
        hits = _unpaired_releases(f)
        if f.name.startswith("bad_"):
            if len(hits) < 1:
                raise AnchorError(f"C30.R2: planted unpaired release `{f.name}` is not reported (fixtures/c30/planted_release.py)")
            bad += len(hits)
        elif f.name.startswith("good_"):
            if hits:
                raise AnchorError(f"C30.R2: correct pairing `{f.name}` is reported: {hits[0][1][:120]}")
            good += 1
    chk.floor("C30.R2", "planted releases not dominated by a completed acquire reported on fixtures/c30/planted_release.py", bad, 4)
    chk.floor("C30.R2", "planted correct acquire/release pairings accepted on fixtures/c30/planted_release.py", good, 4)


def _observe_other_runtimes(chk, repo) -> None:
    others = []
    for mod in repo.by_rel.values():
        if mod.name == BASIC or "workflow_run_fn" not in mod.src:
            continue
        for c in ast.walk(mod.tree):
            if isinstance(c, ast.Attribute) and c.attr == "workflow_run_fn" and isinstance(c.ctx, ast.Load):
                fn = enclosing_function(c)
                others.append(f"{mod.rel}:{c.lineno} ({qualname_of(fn) if fn else 'module'})")
    readers = sorted({mod.rel for mod in repo.by_rel.values() if LIMIT_FIELD in mod.src for n in ast.walk(mod.tree) if isinstance(n, ast.Attribute) and n.attr == LIMIT_FIELD and isinstance(n.ctx, ast.Load)})
    if others:
        chk.observe(
            "outside the anchored BasicRuntime: the registered run function is also used at " + "; ".join(others[:6])
            + f"; `{LIMIT_FIELD}` is read only in {readers} — runtimes that start runs without BasicRuntime (e.g. DBOSRuntime.run_workflow via DBOS.start_workflow_async) do not enforce num_concurrent_runs. "
            "Not part of the anchored statement (mechanism = BasicRuntime._maybe_acquire_max_concurrent_runs); could not be exercised here (dbos not installed)."
        )


# ================================================================================== simulation
class _Sim30(Sim):
    """`Sim` + `Semaphore.locked()` with asyncio's meaning (no free permit, counted over every run in progress)."""

    world: list  # every simulated run of the scenario (each has its own `held`)

    def __init__(self, *a, **k):
        super().__init__(*a, **k)
        self.over_released: list = []  # semaphores this run released while it did not hold them

    def _exit(self, obj) -> None:
        if isinstance(obj, Record) and obj._cls == "Semaphore" and not any(h is obj for h in self.held):
            self.over_released.append(obj)
        super()._exit(obj)

    def e_Call(self, e, env):
        if isinstance(e.func, ast.Attribute) and e.func.attr == "locked":
            try:
                obj = self.eval(e.func.value, env)
            except Unsupported:
                obj = None
            if isinstance(obj, Record) and obj._cls == "Semaphore" and isinstance(obj.__dict__.get("value"), int):
                return sum(1 for r in self.world for h in r.held if h is obj) >= obj.value
        return super().e_Call(e, env)


def _key_exprs(helper: ast.AST) -> list[str]:
    """Source of every key under which the helper reads or writes the semaphore table, local definitions substituted."""
    keys: list[ast.AST] = []
    for x in ast.walk(helper):
        if not (isinstance(x, ast.Attribute) and x.attr == TABLE):
            continue
        p = parent(x)
        if isinstance(p, ast.Subscript) and p.value is x:
            keys.append(p.slice)
        elif isinstance(p, ast.Attribute) and p.attr in ("get", "setdefault", "pop", "__getitem__", "__setitem__", "__contains__"):
            c = parent(p)
            if isinstance(c, ast.Call) and c.func is p and c.args:
                keys.append(c.args[0])
        elif isinstance(p, ast.Compare) and x in p.comparators and any(isinstance(o, (ast.In, ast.NotIn)) for o in p.ops):
            keys.append(p.left)
    out: list[str] = []
    for k in keys:
        try:
            txt = ast.unparse(expand(k, enclosing_stmt(k)))
        except Exception:  # noqa: BLE001 - naming the key is diagnostic only
            txt = ast.unparse(k)
        if txt not in out:
            out.append(txt)
    return out


def _simulate(chk, repo, m, helper: ast.AST) -> None:
    params = [a.arg for a in helper.args.posonlyargs + helper.args.args]
    if len(params) < 2:
        raise AnchorError(f"`{HELPER}` has no workflow parameter")
    selfname, wfname = params[0], _param_named(helper, "workflow", 1)
    extra = {p: f"<{p}>" for p in params if p not in (selfname, wfname)}
    _, wfcls = repo.cls(f"{WF}:Workflow")
    keys = _key_exprs(helper)
    chk.floor("C30.R2", "key expressions under which the helper reads or writes the semaphore table", len(keys), 1)
    keytxt = " / ".join(f"`{k}`" for k in keys)
    hooks = {
        "id": lambda o: ("id-of", id(o)),
        "type": lambda o: o.__dict__["__class__"] if isinstance(o, Record) and "__class__" in o.__dict__ else ("type-of", getattr(o, "_cls", type(o).__name__)),
        "asyncio.sleep": lambda *a: None,
        "asyncio.wait_for": lambda aw, timeout=None: aw,  # the awaited acquisition is the suspension point; a timeout is one more way it does not complete
    }
    for prim in ("Semaphore", "BoundedSemaphore"):
        hooks[f"asyncio.{prim}"] = (lambda value=1, _p=prim: Record("Semaphore", value=value, name=f"new-{_p}({value})"))
        hooks[prim] = hooks[f"asyncio.{prim}"]
    hooks["asyncio.Lock"] = lambda: Record("Semaphore", value=1, name="new-Lock")

    # What distinct instances may share: class (hence the default workflow_name), an explicit workflow_name, the limit.
    # What they cannot share: identity (`id()` of the record / the record as an identity-hashed key).
    klass = Record("type", __module__="app.flows", __qualname__="Flow", __name__="Flow")

    def instance(limit, explicit_name, tag):
        return Record("Workflow", **{LIMIT_FIELD: limit, "_workflow_name": explicit_name, "__class__": klass, "_tag": tag})

    cases = 0
    bad: dict[str, str] = {}
    samples = []

    def fail(slot: str, why: str) -> None:
        bad.setdefault(slot, why)

    def sem_of(run) -> Record | None:
        for y in run["at_yield"][:1]:
            sems = [h for h in y["held"] if isinstance(h, Record) and h._cls == "Semaphore"]
            return sems[0] if len(sems) == 1 else None
        return None

    def scenario(stack: list, inj: int | None):
        """Runs in progress, outermost first: every run but the last stays suspended at its yield while the next one starts;
        the last one is the run under observation (exception injected at suspension point `inj`)."""
        table: dict = {}
        me = Record("BasicRuntime", **{TABLE: table})
        world: list = []
        runs: list[dict] = []

        def go(i: int) -> None:
            last = i == len(stack) - 1
            run = {"wf": stack[i], "at_yield": [], "after": None}
            runs.append(run)

            def on_yield(sim, env):
                run["at_yield"].append({"held": list(sim.held), "table": dict(table)})
                if not last and len(run["at_yield"]) == 1:
                    go(i + 1)
                    run["after"] = dict(table)  # the table once the observed run is over, this run still in progress

            sim = _Sim30({}, hooks, inject_at=(inj if last else None), on_yield=on_yield)
            sim.with_class("Workflow", wfcls)
            sim.world = world
            world.append(sim)
            run["sim"] = sim
            run["left_by"] = run_generator(helper, sim, {selfname: me, wfname: stack[i], **extra})

        try:
            go(0)
        except Unsupported as e:
            raise AnchorError(f"C30.R2: `{HELPER}` uses a construct the interpreter does not model: {e}")
        return runs, table

    def judge(stack: list, label: str, inj: int | None) -> int:
        nonlocal cases
        runs, table = scenario(stack, inj)
        cases += 1
        obs, outer = runs[-1], runs[:-1]
        wf, limit, sim = obs["wf"], obs["wf"].__dict__[LIMIT_FIELD], obs["sim"]
        where = f"limit={limit}, {label}, " + (f"exception injected at {sim.points[inj]}" if inj is not None and inj < len(sim.points) else "no exception")
        for r in outer:
            if r["left_by"] is not None or r["sim"].held:
                fail("released", f"{where}: an earlier run ends with {r['left_by']}, still holding {[getattr(h, 'name', h) for h in r['sim'].held]}")
        if inj is None:
            if len(samples) < 4 and len(stack) <= 2 and all(r["wf"] is wf for r in runs):
                samples.append({"limit": limit, "runs_in_progress": len(outer), "trace": [t[0] + (":" + str(getattr(t[1], "name", t[1])) if len(t) > 1 else "") for t in sim.trace]})
            if obs["left_by"] is not None:
                fail("raises", f"{where}: the helper raises {obs['left_by']}")
            if len(obs["at_yield"]) != 1:
                fail("one-yield", f"{where}: the helper yields {len(obs['at_yield'])} times (an @asynccontextmanager must yield exactly once)")
        elif obs["left_by"] is None:
            fail("swallowed", f"{where}: the injected exception did not propagate")
        mine = [sem_of(r) for r in outer if r["wf"] is wf and sem_of(r) is not None]
        others = [(r["wf"], sem_of(r)) for r in outer if r["wf"] is not wf and sem_of(r) is not None]
        for y in obs["at_yield"][:1]:
            if limit is None:
                continue
            sems = [h for h in y["held"] if isinstance(h, Record) and h._cls == "Semaphore"]
            if len(sems) != 1:
                fail("held-at-yield", f"{where}: {len(sems)} semaphores are held at the yield (the run would execute without / with more than its slot)")
                continue
            s = sems[0]
            shared_with = [o for o, so in others if so is s]
            if shared_with:
                o = shared_with[0]
                fail("independent", f"{where}: the run holds the semaphore (capacity {s.value!r}) that a run of ANOTHER live instance holds — the two instances are equal in class, "
                     f"workflow_name ({'explicit' if o._workflow_name else 'derived from the class'}) and differ only in identity and limit ({o.__dict__[LIMIT_FIELD]} vs {limit}); "
                     f"the registry key {keytxt} does not identify the instance, so instances share one limit sized by whichever ran first")
            if mine and s is not mine[0]:
                fail("shared-per-instance", f"{where}: a run of an instance that already has a run in progress uses a different semaphore — concurrent runs are not counted together")
            if not mine and not shared_with and s.value != limit:
                fail("capacity", f"{where}: the new semaphore has capacity {s.value!r}, the limit is {limit}")
            if not any(v is s for v in y["table"].values()):
                fail("registered", f"{where}: the semaphore in use is not registered in `{TABLE}` (registered keys: {list(y['table'])}) — the next run will not find it")
            expected = len({id(r["wf"]) for r in runs if r["wf"].__dict__[LIMIT_FIELD] is not None})
            if len(y["table"]) > expected:
                fail("registered", f"{where}: {len(y['table'])} entries registered for {expected} limited instance(s) with a run in progress: {list(y['table'])}")
        if sim.held:
            fail("released", f"{where}: still held after exit: {[getattr(h, 'name', h) for h in sim.held]}")
        for r in runs:
            if r["sim"].over_released:
                if limit is not None and len(mine) >= limit and not bad.get("release-held", "").startswith("[queued]"):
                    bad.pop("release-held", None)  # prefer the schedule asyncio really produces: every permit taken, the observed run is queued
                    where = "[queued] " + where
                fail("release-held", f"{where}: the run releases {[getattr(h, 'name', h) for h in r['sim'].over_released]} although it holds no permit of it "
                     "(the acquisition did not complete) -- the semaphore's counter grows, one more run than the limit is admitted from then on")
        # runs that are still in progress when the observed run is over keep their registration
        for r in outer:
            so = sem_of(r)
            if so is None or r["after"] is None or any(v is so for v in r["after"].values()):
                continue
            if not any(v is so for v in r["at_yield"][0]["table"].values()):
                continue  # never registered: reported by `registered`
            if r["wf"] is not wf:
                fail("independent", f"{where}: the entry of another instance (run in progress) was removed or replaced")
            elif len(mine) < (limit or 0):  # a state asyncio can reach: the observed run did get a permit
                fail("registered-while-running", f"{where}: after this run ended the semaphore of a run of the same instance that is still in progress is no longer registered — "
                     "the next run creates a second semaphore and the instance exceeds its limit")
        return len(sim.points)

    # -- grid 1: limit x runs already in progress (none / same instance / another instance / both) x injection point
    for limit in (None, 1, 2, 3, 4):
        for label in ("empty", "mine", "other", "both"):
            wf = instance(limit, None, "observed")
            twin = instance(7, None, "other")  # equal to `wf` in everything an instance can share, except the limit
            stack = ([twin] if label in ("other", "both") else []) + ([wf] if label in ("mine", "both") else []) + [wf]
            n = judge(stack, f"runs in progress={label}", None)
            for inj in range(n):
                judge(stack, f"runs in progress={label}", inj)
    # -- grid 2: two live instances equal in every attribute but identity; every pair of limits, both ways of naming
    pairs = 0
    for explicit in (None, "shared-name"):
        for la in (1, 2, 3, 4):
            for lb in (1, 2, 3, 4):
                a, b = instance(la, explicit, "first"), instance(lb, explicit, "second")
                judge([a, b], f"a run of an equal instance with limit {la} in progress ({'explicit' if explicit else 'class-derived'} workflow_name)", None)
                pairs += 1
    chk.exhaustive = True
    chk.extra["simulation"] = {"cases": cases, "limits": [None, 1, 2, 3, 4], "runs_in_progress": ["empty", "mine", "other", "both"], "instance_pairs": pairs,
                               "table_keys": keys, "samples": samples}
    chk.floor("C30.R2", "interpreted (limit, runs in progress, injection point) cases", cases, 20 + 16 * 2 + 32)
    chk.floor("C30.R2", "interpreted pairs of instances equal in everything but identity", pairs, 32)
    texts = {
        "one-yield": "the helper yields exactly once for every limit (None, 1..4) and table state",
        "raises": "the undisturbed helper raises nothing",
        "swallowed": "a failure or cancellation of the run propagates through the helper",
        "held-at-yield": "with a limit, the run executes (yield) while exactly one semaphore is held",
        "shared-per-instance": "all concurrent runs of one workflow instance share one semaphore",
        "capacity": "a new semaphore has capacity = the instance's limit",
        "registered": "the semaphore in use is registered in the table and nothing else is registered",
        "registered-while-running": "the semaphore of a run still in progress stays registered when another run of the instance ends",
        "independent": f"two live instances that are equal in class, workflow_name and limit source but not in identity never share a semaphore (registry key: {keytxt})",
        "released": "whatever was acquired is released on every exit (normal, failure, cancellation at any suspension point)",
        "release-held": "a permit is released only by a run that holds one (cancelled while still queued in the acquisition, a run releases nothing)",
    }
    for slot, text in texts.items():
        chk.ob("C30.R2", f"{text} [{cases} interpreted cases]", slot not in bad, m=m, node=helper, fn=helper, instance=f"sim:{slot}", reason=bad.get(slot, ""))


# ================================================================================== twins
_B = "packages/llama-index-workflows/src/workflows/plugins/basic.py"
_W = "packages/llama-index-workflows/src/workflows/workflow.py"
def _extracted_form(key: str = "id(workflow)", extra: str = "") -> tuple[str, str]:
    """The acquisition helper rewritten the way an extract-method refactoring leaves it.  The helper's name is assembled
    here so that it is *not* a word of this module: the inliner then treats it like any private helper a refactoring
    introduces and folds it back before the rules run."""
    name = "_".join(["", "sem", "for", "instance"])
    old = ("        if workflow._num_concurrent_runs is None:\n            yield\n        else:\n            # Key by instance id so each workflow instance has independent concurrency limits\n"
           "            workflow_id = id(workflow)\n            if workflow_id in self._max_concurrent_runs:\n                sem = self._max_concurrent_runs[workflow_id]\n            else:\n"
           "                sem = asyncio.Semaphore(workflow._num_concurrent_runs)\n                self._max_concurrent_runs[workflow_id] = sem\n            async with sem:\n                yield\n")
    new = ("        limit = workflow._num_concurrent_runs\n        if limit is None:\n            yield\n            return\n"
           f"        sem = self.{name}(workflow, limit)\n        async with sem:\n            yield\n\n"
           f"    def {name}(self, workflow: Workflow, limit: int) -> asyncio.Semaphore:\n{extra}        workflow_id = {key}\n"
           "        if workflow_id in self._max_concurrent_runs:\n            return self._max_concurrent_runs[workflow_id]\n"
           "        sem = asyncio.Semaphore(limit)\n        self._max_concurrent_runs[workflow_id] = sem\n        return sem\n")
    return old, new


TWINS = [
    # ---- R1
    Twin("run function called after the slot was released", _B,
         "            async with self._maybe_acquire_max_concurrent_runs(workflow, run_id):\n                return await registered.workflow_run_fn(",
         "            async with self._maybe_acquire_max_concurrent_runs(workflow, run_id):\n                pass\n            return await registered.workflow_run_fn(", "C30.R1"),
    Twin("slot acquired for the class registry entry instead of the instance being run", _B,
         "async with self._maybe_acquire_max_concurrent_runs(workflow, run_id):", "async with self._maybe_acquire_max_concurrent_runs(registered.workflow.__class__, run_id):", "C30.R1"),
    Twin("unguarded coroutine scheduled", _B, "task = asyncio.create_task(run_with_concurrency_limit())",
         "task = asyncio.create_task(registered.workflow_run_fn(init_state, start_event, captured_tags))", "C30.R1"),
    # ---- R2
    Twin("semaphore keyed by class (instances share a limit)", _B, "workflow_id = id(workflow)", "workflow_id = id(type(workflow))", "C30.R2"),
    Twin("semaphore keyed by workflow_name (all instances of a class / of a name share one semaphore)", _B, "workflow_id = id(workflow)", "workflow_id = workflow.workflow_name", "C30.R2"),
    Twin("semaphore keyed by the class's qualified name", _B, "workflow_id = id(workflow)", "workflow_id = type(workflow).__qualname__", "C30.R2"),
    Twin("semaphore keyed by (name, limit): equal instances still share", _B, "workflow_id = id(workflow)", "workflow_id = (workflow.workflow_name, workflow._num_concurrent_runs)", "C30.R2"),
    Twin("entry dropped while a sibling run is in progress (semaphore not locked != idle)", _B, "            async with sem:\n                yield",
         "            try:\n                async with sem:\n                    yield\n            finally:\n                if not sem.locked():\n                    self._max_concurrent_runs.pop(workflow_id, None)", "C30.R2"),
    Twin("capacity off by one", _B, "sem = asyncio.Semaphore(workflow._num_concurrent_runs)", "sem = asyncio.Semaphore(workflow._num_concurrent_runs + 1)", "C30.R2"),
    Twin("fresh semaphore for every run", _B, "            if workflow_id in self._max_concurrent_runs:\n", "            if workflow_id in self._max_concurrent_runs and False:\n", "C30.R2"),
    Twin("new semaphore never registered", _B, "                self._max_concurrent_runs[workflow_id] = sem\n", "                pass\n", "C30.R2"),
    Twin("yield after release", _B, "            async with sem:\n                yield", "            async with sem:\n                pass\n            yield", "C30.R2"),
    Twin("suspension between lookup and registration", _B, "                sem = asyncio.Semaphore(workflow._num_concurrent_runs)\n",
         "                await asyncio.sleep(0)\n                sem = asyncio.Semaphore(workflow._num_concurrent_runs)\n", "C30.R2"),
    Twin("manual acquire without release on failure", _B, "            async with sem:\n                yield", "            await sem.acquire()\n            yield\n            sem.release()", "C30.R2"),
    Twin("seed form: acquire inside the try whose finally releases (cancelled while queued -> permit given back that was never held)", _B, "            async with sem:\n                yield",
         "            try:\n                await sem.acquire()\n                yield\n            finally:\n                sem.release()", "C30.R2"),
    Twin("variant: release in a BaseException handler of the try that also contains the acquire", _B, "            async with sem:\n                yield",
         "            try:\n                await sem.acquire()\n                yield\n            except BaseException:\n                sem.release()\n                raise\n            sem.release()", "C30.R2"),
    Twin("variant: timeout-wrapped acquire inside the try, release in finally", _B, "            async with sem:\n                yield",
         "            try:\n                await asyncio.wait_for(sem.acquire(), 3600)\n                yield\n            finally:\n                sem.release()", "C30.R2"),
    Twin("variant: `acquired` flag set before the acquire completes", _B, "            async with sem:\n                yield",
         "            acquired = False\n            try:\n                acquired = True\n                await sem.acquire()\n                yield\n            finally:\n                if acquired:\n                    sem.release()", "C30.R2"),
    Twin("weak table lookup without a strong reference", _B, "            async with sem:\n                yield", "            del sem\n            async with self._max_concurrent_runs[workflow_id]:\n                yield", "C30.R2"),
    # ---- R3
    Twin("limit altered on the way in", _W, "self._num_concurrent_runs = num_concurrent_runs", "self._num_concurrent_runs = num_concurrent_runs and num_concurrent_runs * 2", "C30.R3"),
    Twin("second writer resets the limit", _B, "    def register(self, workflow: Workflow) -> RegisteredWorkflow:\n        return RegisteredWorkflow(",
         "    def register(self, workflow: Workflow) -> RegisteredWorkflow:\n        workflow._num_concurrent_runs = None\n        return RegisteredWorkflow(", "C30.R3"),
    Twin("extracted lookup-or-create helper (folded back) also clamps the stored limit", _B, *_extracted_form(extra="        workflow._num_concurrent_runs = max(limit, 1)\n"), "C30.R3"),
    Twin("extracted lookup-or-create helper (folded back) keyed by the workflow name", _B, *_extracted_form(key="workflow.workflow_name"), "C30.R2"),
    # ---- benign
    Twin("benign: limit read once into a local that both decides and sizes; early `yield; return`; lookup-or-create extracted into a private helper (folded back)", _B,
         *_extracted_form(), None),
    Twin("benign: the unbounded test held in a local", _B, "        if workflow._num_concurrent_runs is None:\n            yield\n",
         "        unbounded = workflow._num_concurrent_runs is None\n        if unbounded:\n            yield\n", None),
    Twin("benign: get() lookup", _B,
         "            if workflow_id in self._max_concurrent_runs:\n                sem = self._max_concurrent_runs[workflow_id]\n            else:\n                sem = asyncio.Semaphore(workflow._num_concurrent_runs)\n                self._max_concurrent_runs[workflow_id] = sem",
         "            sem = self._max_concurrent_runs.get(workflow_id)\n            if sem is None:\n                sem = asyncio.Semaphore(workflow._num_concurrent_runs)\n                self._max_concurrent_runs[workflow_id] = sem", None),
    Twin("benign: early return for the unlimited case", _B, "            yield\n        else:\n            # Key by instance", "            yield\n            return\n        if True:\n            # Key by instance", None),
    Twin("benign: extracted limit local", _B, "                sem = asyncio.Semaphore(workflow._num_concurrent_runs)\n",
         "                limit = workflow._num_concurrent_runs\n                sem = asyncio.Semaphore(limit)\n", None),
    Twin("benign: try/finally acquire-release", _B, "            async with sem:\n                yield", "            await sem.acquire()\n            try:\n                yield\n            finally:\n                sem.release()", None),
    Twin("benign: acquire inside the try, release under a flag set after the acquire completed", _B, "            async with sem:\n                yield",
         "            acquired = False\n            try:\n                await sem.acquire()\n                acquired = True\n                yield\n            finally:\n                if acquired:\n                    sem.release()", None),
    Twin("benign: acquire in an outer try, release in the finally of an inner try around the yield only", _B, "            async with sem:\n                yield",
         "            try:\n                await sem.acquire()\n                try:\n                    yield\n                finally:\n                    sem.release()\n            except asyncio.CancelledError:\n                raise", None),
    Twin("benign: result local at the call site", _B,
         "                return await registered.workflow_run_fn(\n                    init_state, start_event, captured_tags\n                )",
         "                result = await registered.workflow_run_fn(\n                    init_state, start_event, captured_tags\n                )\n                return result", None),
    Twin("benign: annotated limit field", _W, "self._num_concurrent_runs = num_concurrent_runs", "self._num_concurrent_runs: int | None = num_concurrent_runs", None),
    Twin("benign: keyed by the instance itself (identity-hashed)", _B, "workflow_id = id(workflow)", "workflow_id = workflow", None),
    Twin("benign: identity plus name in the key", _B, "workflow_id = id(workflow)", "workflow_id = (id(workflow), workflow.workflow_name)", None),
    Twin("benign: inlined id", _B, "            if workflow_id in self._max_concurrent_runs:\n                sem = self._max_concurrent_runs[workflow_id]",
         "            if id(workflow) in self._max_concurrent_runs:\n                sem = self._max_concurrent_runs[id(workflow)]", None),
]
