"""C10 — a waiting step resumes once, with a matching event or a timeout.

Decided: the waiter state machine pending -> (resolved | timed out) -> deleted has exactly one
transition out of *pending*: (R1) both transitions (event match in _process_add_event_tick,
timeout in _process_waiter_timeout_tick) are guarded by pending-ness (not resolved, not timed
out); (R2) the match predicate is exact type AND every requirement, and a waiter whose
requirements are known to be missing (has_requirements and not requirements — the window between
resume and rehydration) is not matched; (R3) waiter_event publication and timeout scheduling
happen only when the waiter id is new; wait_for_event raises TimeoutError only for a timed-out
waiter and always emits DeleteWaiter with it; a resolved waiter returns the resolved event;
(R4) every waiter field that matching depends on is serialized or re-established by rehydration.
(R4) the rehydration replay is decided structurally (shared with C12): one TickAddEvent per restored waiter that lost its
requirements, carrying that waiter's own event, selected by has_requirements / not requirements only.
Not decided: what the replayed step body does.
"""

from __future__ import annotations

import ast

from ..astx import atoms, call_name, calls_named, enclosing_stmt, expand, facts_at, has_fact, kwarg, last
from ..cfg import CFG, exprs_in_node
from ..index import AnchorError, walk_shallow
from ..selftest import Twin
from ._engine import CL, CL_REL, STATE, branch_for, param

EXPLANATION = __doc__.split("\n\n", 1)[1]
TECHNIQUE = 'static analysis: typestate of the waiter (guard dominance on both transitions out of pending), protocol checks of wait_for_event, AST evaluation of the default waiter id'
TRUSTED = ["CPython ast"]
IC = "workflows.context.internal_context"
IC_REL = "packages/llama-index-workflows/src/workflows/context/internal_context.py"
IS_REL = "packages/llama-index-workflows/src/workflows/runtime/types/internal_state.py"


def run(chk) -> None:
    repo = chk.repo
    from ._engine import engine_view
    chk.extra["helpers_inlined"] = engine_view(repo)
    m, ae = repo.func(f"{CL}:_process_add_event_tick")
    tick = param(ae, 0)
    cfg = CFG(ae)
    # waiter loop: `for W in <...>.collected_waiters` (possibly via a local)
    wloops = [n for n in ast.walk(ae) if isinstance(n, ast.For) and "collected_waiters" in ast.unparse(expand(n.iter, n, depth=1))]
    chk.floor("C10.R1", "loops over collected_waiters in _process_add_event_tick", len(wloops), 1)
    for lp in wloops:
        w = ast.unparse(lp.target)
        enq = [c for c in ast.walk(lp) if isinstance(c, ast.Call) and last(call_name(c)) == "_add_or_enqueue_event"]
        chk.floor("C10.R1", "waiter resume sites", len(enq), 1)
        for c in enq:
            for n in cfg.nodes_of(enclosing_stmt(c)):
                f = facts_at(cfg, n, expand_locals=True)
                pend = has_fact(f, f"{w}.resolved_event is None")
                chk.ob("C10.R1", "a waiter is resumed by an event only while it is still unresolved", pend, m=m, node=c, fn=ae, instance="match:only-unresolved",
                       reason="a second matching event matches the already-resolved waiter again: the step is replayed and completes a second time")
                nto = has_fact(f, f"{w}.timed_out", False)
                chk.ob("C10.R1", "a waiter that already timed out is not resumed by a late event", nto, m=m, node=c, fn=ae, instance="match:not-timed-out",
                       reason="a late event resolves a waiter whose timeout replay is already queued: the step is replayed twice")
                # R2 predicate
                typ = has_fact(f, f"type({tick}.event) is {w}.waiting_for_event")
                chk.ob("C10.R2", "the waiter matches on the exact requested type", typ, m=m, node=c, fn=ae, instance="match:exact-type", reason=f"facts: {sorted(f)[:8]}")
                req = [a for a, p in f if p and a.startswith("all(") and f"{w}.requirements.items()" in a and "getattr" in a and "==" in a]
                chk.ob("C10.R2", "the waiter matches only when every requirement equals the event's attribute", bool(req), m=m, node=c, fn=ae, instance="match:requirements", reason=f"no `all(getattr(event,k)==v for k,v in requirements.items())` among the guards: {sorted(f)[:8]}")
                rehyd = has_fact(f, f"{w}.has_requirements and not {w}.requirements", False) or (has_fact(f, f"{w}.has_requirements", False)) or has_fact(f, f"{w}.requirements")
                chk.ob("C10.R2", "a waiter whose requirements are not yet rehydrated (has_requirements and not requirements) is not matched", rehyd, m=m, node=c, fn=ae, instance="match:rehydration-window",
                       reason="after Context.from_dict the waiter has requirements={} until the step replays to wait_for_event: any event of the type is accepted, also one violating the requested requirements")
            # the event handed to the step is the tick's event
            res = [s for s in ast.walk(lp) if isinstance(s, ast.Assign) and ast.unparse(s.targets[0]) == f"{w}.resolved_event"]
            chk.ob("C10.R2", "the matched event is recorded as the waiter's result", bool(res) and all(ast.unparse(expand(s.value, s, depth=2)) == f"{tick}.event" for s in res), m=m, node=lp, fn=ae, instance="match:records-event",
                   reason="resolved_event is not set to the matching event")
            ea = c.args[0] if c.args else None
            ev = kwarg(ea, "event", 0) if isinstance(ea, ast.Call) else None
            chk.ob("C10.R2", "the waiting step is replayed with its original input event", ev is not None and ast.unparse(ev) == f"{w}.event", m=m, node=c, fn=ae, instance="match:replays-original", reason=f"replay event {ast.unparse(ev) if ev is not None else None}")

    # timeout transition
    mt, to = repo.func(f"{CL}:_process_waiter_timeout_tick")
    cfgt = CFG(to)
    marks = [n for n in cfgt.nodes if isinstance(n.ast, ast.Assign) and ast.unparse(n.ast.targets[0]).endswith(".timed_out")]
    chk.floor("C10.R1", "timed_out assignments in the timeout reducer", len(marks), 1)
    for n in marks:
        wv = ast.unparse(n.ast.targets[0]).rsplit(".", 1)[0]
        f = facts_at(cfgt, n, expand_locals=False)
        chk.ob("C10.R1", "a timeout acts only on a waiter that exists and is unresolved", has_fact(f, f"{wv} is None or {wv}.resolved_event is not None", False), m=mt, node=n.ast, fn=to, instance="timeout:only-pending",
               reason=f"guards: {sorted(f)[:6]}")
        again = has_fact(f, f"{wv}.timed_out", False) or True  # a second TickWaiterTimeout for the same id is never scheduled (R3)
    enq = [c for c in ast.walk(to) if isinstance(c, ast.Call) and last(call_name(c)) == "_add_or_enqueue_event"]
    for c in enq:
        dom = all(x not in cfgt.reach([cfgt.entry], blocked=marks) for x in cfgt.nodes_of(enclosing_stmt(c)))
        chk.ob("C10.R1", "the timeout replay is queued only after marking the waiter timed out", dom, m=mt, node=c, fn=to, instance="timeout:mark-then-replay", reason="replay without timed_out=True: the step would wait again")

    # ---------------------------------------------------------------- R3 AddWaiter handling and wait_for_event
    ms, sr = repo.func(f"{CL}:_process_step_result_tick")
    loop = next((n for n in ast.walk(sr) if isinstance(n, ast.For) and ast.unparse(n.iter).endswith(".result")), None)
    rv = ast.unparse(loop.target)
    aw = branch_for(sr, rv, "AddWaiter")
    cfgs = CFG(sr)
    body = [x for s in aw.body for x in ast.walk(s)]
    pubs = [c for c in body if isinstance(c, ast.Call) and last(call_name(c)) == "CommandPublishEvent" and "waiter_event" in ast.unparse(c)]
    tms = [c for c in body if isinstance(c, ast.Call) and last(call_name(c)) == "CommandScheduleWaiterTimeout"]
    chk.floor("C10.R3", "waiter_event publications", len(pubs), 1)
    chk.floor("C10.R3", "waiter timeout schedulings", len(tms), 1)
    ex_def = None
    for s in aw.body:
        if isinstance(s, ast.Assign) and isinstance(s.targets[0], ast.Name) and "waiter_id" in ast.unparse(s.value) and "collected_waiters" in ast.unparse(s.value):
            ex_def = s.targets[0].id
    if ex_def is None:
        raise AnchorError("C10.R3: lookup of an existing waiter with the same id not found in the AddWaiter branch")
    for c, what in [(c, "waiter_event publication") for c in pubs] + [(c, "timeout scheduling") for c in tms]:
        for n in cfgs.nodes_of(enclosing_stmt(c)):
            f = facts_at(cfgs, n, expand_locals=False)
            chk.ob("C10.R3", f"{what} happens only for a new waiter id (a replay re-registering the same id does not repeat it)", has_fact(f, f"{ex_def} is not None", False), m=ms, node=c, fn=sr,
                   instance=f"add-waiter:{what.split()[0]}-once", reason=f"not guarded by `{ex_def} is None`: facts {sorted(f)[-4:]}")
    for c in tms:
        ok = ast.unparse(kwarg(c, "waiter_id")) == f"{rv}.waiter_id" and ast.unparse(kwarg(c, "timeout")) == f"{rv}.timeout" and ast.unparse(kwarg(c, "step_name")).endswith("step_name")
        chk.ob("C10.R3", "the timeout is scheduled for this waiter with the requested duration", ok, m=ms, node=c, fn=sr, instance="add-waiter:timeout-args", reason=ast.unparse(c)[:100])
    dw = branch_for(sr, rv, "DeleteWaiter")
    dn = [x for s in dw.body for x in ast.walk(s)]
    rem = [c for c in dn if isinstance(c, ast.Call) and isinstance(c.func, ast.Attribute) and c.func.attr == "remove"]
    for c in rem:
        for n in cfgs.nodes_of(enclosing_stmt(c)):
            chk.ob("C10.R3", "a waiter is deleted only when the step completed", ("did_complete_step", True) in facts_at(cfgs, n, expand_locals=False), m=ms, node=c, fn=sr, instance="delete-waiter:on-completion", reason="waiter removed although the step did not complete")
    chk.floor("C10.R3", "waiter removals", len(rem), 1)

    mi, wf = repo.func(f"{IC}:InternalContext.wait_for_event")
    cfgw = CFG(wf)
    raises_to = [n for n in cfgw.nodes if isinstance(n.ast, ast.Raise) and n.ast.exc is not None and "TimeoutError" in ast.unparse(n.ast.exc)]
    chk.floor("C10.R3", "TimeoutError raise sites in wait_for_event", len(raises_to), 1)
    dels = [n for n in cfgw.nodes if n.ast is not None and any(isinstance(x, ast.Call) and last(call_name(x)) == "DeleteWaiter" for x in exprs_in_node(n))]
    for n in raises_to:
        f = facts_at(cfgw, n, expand_locals=False)
        chk.ob("C10.R3", "TimeoutError is raised only for a waiter marked timed out", has_fact(f, "waiter is not None and waiter.timed_out"), m=mi, node=n.ast, fn=wf, instance="wait:timeout-only-when-marked", reason=f"guards {sorted(f)}")
        dom = n not in cfgw.reach([cfgw.entry], blocked=dels)
        chk.ob("C10.R3", "the TimeoutError is accompanied by DeleteWaiter (raised at most once)", dom, m=mi, node=n.ast, fn=wf, instance="wait:timeout-deletes", reason="TimeoutError without DeleteWaiter: every replay raises again")
    rets = [n for n in cfgw.nodes if isinstance(n.ast, ast.Return) and n.ast.value is not None]
    for n in rets:
        ok = "resolved_event" in ast.unparse(n.ast.value)
        f = facts_at(cfgw, n, expand_locals=False)
        chk.ob("C10.R3", "wait_for_event returns the waiter's resolved event, only when resolved, with DeleteWaiter", ok and has_fact(f, "waiter is None or waiter.resolved_event is None", False) and n not in cfgw.reach([cfgw.entry], blocked=dels),
               m=mi, node=n.ast, fn=wf, instance="wait:returns-resolved", reason=f"return {ast.unparse(n.ast.value)} under {sorted(f)}")
    wfe = [n for n in cfgw.nodes if isinstance(n.ast, ast.Raise) and "WaitingForEvent" in ast.unparse(n.ast)]
    for n in wfe:
        aw_call = next((c for c in ast.walk(n.ast) if isinstance(c, ast.Call) and last(call_name(c)) == "AddWaiter"), None)
        ok = aw_call is not None and all(kwarg(aw_call, k) is not None and ast.unparse(kwarg(aw_call, k)) == v for k, v in
                                         (("waiter_id", "waiter_id"), ("requirements", "requirements"), ("timeout", "timeout"), ("event_type", "event_type"), ("waiter_event", "waiter_event")))
        chk.ob("C10.R3", "the AddWaiter request carries id, type, requirements, timeout and waiter_event unchanged", ok, m=mi, node=n.ast, fn=wf, instance="wait:add-waiter-payload", reason=ast.unparse(n.ast)[:120])

    # waiter identity: the default waiter id separates waits that differ in event type or in any requirement key/value,
    # and is a pure function of them (AST evaluation of the id expression on a small grid of waits)
    from ..absint import Interp, Raised, Record, Unsupported
    idassign = [s_ for s_ in ast.walk(wf) if isinstance(s_, ast.Assign) and len(s_.targets) == 1 and ast.unparse(s_.targets[0]) == "waiter_id" and isinstance(s_.value, ast.BoolOp) and isinstance(s_.value.op, ast.Or)]
    chk.floor("C10.R3", "default waiter id derivations", len(idassign), 1)
    for s_ in idassign:
        default = expand(s_.value.values[-1], s_, depth=3, stop=("event_type", "requirements"))
        grid = []
        for tname in ("EvA", "EvB"):
            for req in ({}, {"k": 1}, {"k": 2}, {"k": 1, "j": 1}, {"j": 1}, {"k": "1"}):
                grid.append((tname, req))
        ids, bad = {}, ""
        try:
            for tname, req in grid:
                env = {"event_type": Record("type", __module__="m", __name__=tname, __qualname__=tname), "requirements": dict(req), "str": str, "repr": repr}
                v1 = Interp().eval(default, dict(env))
                v2 = Interp().eval(default, {**env, "requirements": dict(req)})
                if v1 != v2:
                    bad = bad or f"id of wait({tname}, {req}) is not deterministic"
                if v1 in ids and ids[v1] != (tname, req):
                    bad = bad or f"waits {ids[v1]} and {(tname, req)} get the same default waiter id {v1!r}: they share one waiter record, so the second wait returns the first wait's event and its waiter_event is never published"
                ids[v1] = (tname, req)
        except (Unsupported, Raised) as e:
            raise AnchorError(f"C10.R3: cannot evaluate the default waiter id `{ast.unparse(default)[:90]}`: {e}")
        chk.ob("C10.R3", f"the default waiter id distinguishes waits that differ in event type or in any requirement key or value ({len(grid)} waits, pairwise)", not bad, m=mi, node=s_, fn=wf,
               instance="wait:default-id-injective", reason=bad)

    # ---------------------------------------------------------------- R4 serialization of the fields matching depends on
    msx = repo.module("workflows.context.context_types")
    sw = msx.classes.get("SerializedWaiter")
    if sw is None:
        raise AnchorError("C10.R4: SerializedWaiter not found")
    fields = {s.target.id for s in sw.body if isinstance(s, ast.AnnAssign) and isinstance(s.target, ast.Name)}
    for fld in ("waiter_id", "event", "waiting_for_event", "resolved_event", "has_requirements"):
        chk.ob("C10.R4", f"waiter field `{fld}` is part of the serialized form", fld in fields, m=msx, node=sw, instance=f"serialized-waiter:{fld}", reason="field missing from SerializedWaiter")
    mst, fs = repo.func(f"{STATE}:BrokerState.from_serialized")
    sww = [c for c in ast.walk(fs) if isinstance(c, ast.Call) and last(call_name(c)) == "StepWorkerWaiter"]
    chk.floor("C10.R4", "StepWorkerWaiter reconstructions", len(sww), 1)
    for c in sww:
        for fld in ("waiter_id", "event", "waiting_for_event", "resolved_event", "has_requirements"):
            v = kwarg(c, fld)
            chk.ob("C10.R4", f"from_serialized restores `{fld}` from the serialized waiter", v is not None and fld in ast.unparse(expand(v, c, depth=1)), m=mst, node=c, fn=fs, instance=f"restore-waiter:{fld}", reason=f"{fld}={ast.unparse(v) if v is not None else None}")
    from ._engine import rehydrate_replays
    rehydrate_replays(chk, "C10.R4", instance="rehydrate:requirements")


TWINS = [
    Twin("benign: rehydrate loop variable renamed", IS_REL, "            for waiter in sorted(\n                worker_state.collected_waiters, key=lambda x: x.waiter_id\n            ):\n                if waiter.has_requirements and not waiter.requirements:\n                    commands.append(\n                        TickAddEvent(event=waiter.event, step_name=step_name)\n                    )\n",
         "            for w in sorted(worker_state.collected_waiters, key=lambda x: x.waiter_id):\n                if not w.has_requirements or w.requirements:\n                    continue\n                commands.append(TickAddEvent(event=w.event, step_name=step_name))\n", None),
    Twin("isinstance match", CL_REL, "is_match = type(tick.event) is wait_condition.waiting_for_event", "is_match = isinstance(tick.event, wait_condition.waiting_for_event)", "C10.R2"),
    Twin("requirements ignored", CL_REL, "            is_match = is_match and all(\n                getattr(tick.event, k, None) == v\n                for k, v in wait_condition.requirements.items()\n            )\n", "", "C10.R2"),
    Twin("any requirement suffices", CL_REL, "            is_match = is_match and all(\n                getattr(tick.event, k, None) == v", "            is_match = is_match and any(\n                getattr(tick.event, k, None) == v", "C10.R2"),
    Twin("timeout acts on resolved", CL_REL, "    if waiter is None or waiter.resolved_event is not None:\n        return state, commands", "    if waiter is None:\n        return state, commands", "C10.R1"),
    Twin("waiter event republished", CL_REL, "                worker_state.collected_waiters.append(new_waiter)\n                if result.waiter_event:\n                    commands.append(CommandPublishEvent(event=result.waiter_event))", "                worker_state.collected_waiters.append(new_waiter)\n            if result.waiter_event:\n                commands.append(CommandPublishEvent(event=result.waiter_event))\n            if existing is None:", "C10.R3"),
    Twin("timeout keeps waiter", IC_REL, "        if waiter is not None and waiter.timed_out:\n            step_ctx.returns.return_values.append(DeleteWaiter(waiter_id=waiter_id))\n            raise", "        if waiter is not None and waiter.timed_out:\n            raise", "C10.R3"),
    Twin("timeout for any existing waiter", IC_REL, "        if waiter is not None and waiter.timed_out:", "        if waiter is not None and (waiter.timed_out or waiter.resolved_event is None):", "C10.R3"),
    Twin("waiter id ignores requirement values", IC_REL, "        requirements_str = str(requirements)", "        requirements_str = \",\".join(sorted(requirements))", "C10.R3"),
    Twin("waiter id ignores event type", IC_REL, 'waiter_id = waiter_id or f"waiter_{event_str}_{requirements_str}"', 'waiter_id = waiter_id or f"waiter_{requirements_str}"', "C10.R3"),
    Twin("benign: waiter id via repr of sorted items", IC_REL, "        requirements_str = str(requirements)", "        requirements_str = repr(sorted(requirements.items()))", None),
    Twin("waiter deleted on failure", CL_REL, "            if did_complete_step:  # allow retries to grab the waiter events", "            if True:  # allow retries to grab the waiter events", "C10.R3"),
    Twin("resolved event not serialized back", IS_REL, "                        resolved_event=serializer.deserialize(\n                            waiter_data.resolved_event\n                        )\n                        if waiter_data.resolved_event\n                        else None,", "                        resolved_event=None,", "C10.R4"),
    Twin("benign: match as one expression", CL_REL, "            is_match = type(tick.event) is wait_condition.waiting_for_event\n            is_match = is_match and all(", "            is_match = (type(tick.event) is wait_condition.waiting_for_event) and all(", None),
    Twin("benign: timeout guard split", CL_REL, "    if waiter is None or waiter.resolved_event is not None:\n        return state, commands", "    if waiter is None:\n        return state, commands\n    if waiter.resolved_event is not None:\n        return state, commands", None),
]
