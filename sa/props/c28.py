"""C28 — SQLite schema migrations converge from any earlier schema.

Decided (static; nothing from /repo is imported or executed): the *AST* of `run_migrations`,
`_bootstrap_schema_migrations` and `parse_target_version` is interpreted by the framework's AST
interpreter against a small model of a SQLite connection whose schema is an abstract DDL state
(tables -> ordered columns, primary key, indexes) produced by a DDL reader from the repo's
`migrations/*.sql`.  Every starting point (fresh; every prefix of the scripts as a previous
release would have left it; every legacy `user_version = j` database) is run exhaustively.

"Any earlier schema" means a database produced by the migrations *as they were released*, not by today's
files: a script that was already shipped is never executed again on a database that recorded it, so an edit
to it reaches fresh databases only.  The committed baseline `fixtures/c28/baseline/sqlite.json` therefore
holds, per released version k, the abstract database state (tables, columns, indexes, recorded versions,
user_version) that this module's own interpreter computed from the scripts of the confirmed tree
(`bin/gen_c28_baseline`; abstract states, no script text, no file names).  R4 starts from each of these
states and applies the *current* scripts through the *current* runner; the end must be the schema of a fresh
run.  The baseline is the only thing that makes an edited released script visible; it is regenerated only
when a new release has shipped (new versions are appended, old ones never change).

The model connection used by this module (`TxnDB`/`TxnConn`) also carries the *transaction state* of a default `sqlite3`
connection: a transaction is opened implicitly before INSERT/UPDATE/DELETE/REPLACE, `executescript` commits a pending one first,
`commit()`/`COMMIT`/`with conn:` close it.  R5 decides, for every start state, that when `run_migrations` returns nothing it did to the
schema or to `schema_migrations` is still held in an open transaction: the runner makes its own bookkeeping durable on every path
(explicit commit, or the write inside BEGIN…COMMIT) and never leaves that to the implicit COMMIT of a later statement (which only
happens when a script is pending) or to the caller (DBOSRuntime.run_migrations closes the connection without a commit).

This module also hosts two helpers shared with C16 and C24 (the brief asks for shared helpers to
live in a property module): `sqlmini` (tokenizer, parser, abstract schema, model database) and
`XInterp` (the AST interpreter extended with objects, methods, `with`, `await`, `yield`).
"""

from __future__ import annotations

import ast
import builtins
import copy
import re
from collections import deque
from typing import Any, Callable

from ..absint import Interp, Raised, Record, Unsupported, _Return
from ..astx import call_name, calls_named, dotted, last
from ..cfg import CFG
from ..index import AnchorError, FuncNode, Module, enclosing_function, parent, qualname_of, walk_shallow
from ..selftest import Twin, multi

# =====================================================================================================
# Part A — sqlmini: the SQL subset used by the repository
# =====================================================================================================


class SqlUnsupported(Unsupported):
    """SQL outside the subset this reader understands (the caller turns it into exit 2)."""


_TOK = re.compile(
    r"""
   (?P<ws>\s+)
 | (?P<lc>--[^\n]*)
 | (?P<bc>/\*.*?\*/)
 | (?P<str>'(?:[^']|'')*')
 | (?P<qid>"(?:[^"]|"")*"|`[^`]*`|\[[^\]]*\])
 | (?P<num>\d+(?:\.\d+)?)
 | (?P<id>[A-Za-z_][A-Za-z0-9_$]*)
 | (?P<par>\?\d*|:[A-Za-z_]\w*)
 | (?P<op><=|>=|<>|!=|==|\|\||[-+*/%(),;.=<>])
""",
    re.X | re.S,
)


class Tok:
    __slots__ = ("kind", "val", "up")

    def __init__(self, kind: str, val: str):
        self.kind, self.val = kind, val
        self.up = val.upper() if kind == "id" else val

    def __repr__(self) -> str:
        return f"{self.kind}:{self.val}"


def sql_tokens(text: str) -> list[Tok]:
    out: list[Tok] = []
    pos = 0
    while pos < len(text):
        m = _TOK.match(text, pos)
        if m is None:
            raise SqlUnsupported(f"cannot tokenize SQL at `{text[pos:pos + 20]!r}`")
        pos = m.end()
        k = m.lastgroup
        if k in ("ws", "lc", "bc"):
            continue
        v = m.group(k)
        if k == "qid":
            out.append(Tok("qid", v[1:-1]))
        else:
            out.append(Tok(k, v))
    return out


def split_statements(toks: list[Tok]) -> list[list[Tok]]:
    out, cur = [], []
    for t in toks:
        if t.kind == "op" and t.val == ";":
            if cur:
                out.append(cur)
            cur = []
        else:
            cur.append(t)
    if cur:
        out.append(cur)
    return out


_AGG = {"MAX", "MIN", "COUNT", "SUM", "TOTAL", "AVG"}
_COL_CONSTRAINT_KW = {"PRIMARY", "NOT", "NULL", "UNIQUE", "DEFAULT", "CHECK", "REFERENCES", "COLLATE", "GENERATED", "CONSTRAINT", "AUTOINCREMENT", "AS"}
_TABLE_CONSTRAINT_KW = {"PRIMARY", "UNIQUE", "CHECK", "FOREIGN", "CONSTRAINT"}
_RESERVED_AFTER_TABLE = {"WHERE", "ORDER", "LIMIT", "GROUP", "SET", "VALUES", "ON", "SELECT", "JOIN", "LEFT", "INNER", "USING", "DEFAULT", "HAVING", "UNION"}


class Col:
    def __init__(self, name: str, typ: str, constraints: str, notnull: bool, default: Any, has_default: bool, pk: bool, unique: bool, autoinc: bool):
        self.name, self.typ, self.constraints = name, typ, constraints
        self.notnull, self.default, self.has_default, self.pk, self.unique, self.autoinc = notnull, default, has_default, pk, unique, autoinc

    def canon(self) -> tuple:
        return (self.name, self.typ, self.constraints)


class Parser:
    """Recursive-descent reader for one statement."""

    def __init__(self, toks: list[Tok]):
        self.t = toks
        self.i = 0
        self.nparam = 0

    # ------------------------------------------------------------------ token helpers
    def peek(self, k: int = 0) -> Tok | None:
        return self.t[self.i + k] if self.i + k < len(self.t) else None

    def at_kw(self, *kws: str) -> bool:
        p = self.peek()
        return p is not None and p.kind == "id" and p.up in kws

    def at_op(self, *ops: str) -> bool:
        p = self.peek()
        return p is not None and p.kind == "op" and p.val in ops

    def take(self) -> Tok:
        p = self.peek()
        if p is None:
            raise SqlUnsupported("unexpected end of SQL statement")
        self.i += 1
        return p

    def kw(self, *kws: str) -> bool:
        if self.at_kw(*kws):
            self.i += 1
            return True
        return False

    def need_kw(self, *kws: str) -> str:
        if not self.at_kw(*kws):
            raise SqlUnsupported(f"expected {'/'.join(kws)} at `{self.rest()[:40]}`")
        return self.take().up

    def op(self, *ops: str) -> bool:
        if self.at_op(*ops):
            self.i += 1
            return True
        return False

    def need_op(self, o: str) -> None:
        if not self.op(o):
            raise SqlUnsupported(f"expected `{o}` at `{self.rest()[:40]}`")

    def ident(self) -> str:
        p = self.take()
        if p.kind not in ("id", "qid"):
            raise SqlUnsupported(f"expected identifier, got `{p.val}`")
        return p.val.lower()

    def rest(self) -> str:
        return " ".join(x.val for x in self.t[self.i:])

    def done(self) -> bool:
        return self.i >= len(self.t)

    # ------------------------------------------------------------------ statements
    def statement(self) -> dict:
        if self.at_kw("CREATE"):
            return self.create()
        if self.at_kw("ALTER"):
            return self.alter()
        if self.at_kw("DROP"):
            return self.drop()
        if self.at_kw("SELECT"):
            s = self.select()
            self.end()
            return s
        if self.at_kw("INSERT", "REPLACE"):
            return self.insert()
        if self.at_kw("DELETE"):
            return self.delete()
        if self.at_kw("UPDATE"):
            return self.update()
        if self.at_kw("PRAGMA"):
            self.take()
            name = self.ident()
            val = None
            if self.op("="):
                val = self.take().val
            elif self.op("("):
                val = self.take().val
                self.need_op(")")
            self.end()
            return {"kind": "pragma", "name": name, "value": val}
        if self.at_kw("BEGIN", "COMMIT", "END", "ROLLBACK"):
            k = self.take().up
            while self.kw("DEFERRED", "IMMEDIATE", "EXCLUSIVE", "TRANSACTION"):
                pass
            self.end()
            return {"kind": "txn", "what": {"END": "COMMIT"}.get(k, k)}
        raise SqlUnsupported(f"SQL statement `{self.rest()[:50]}` is outside the supported subset")

    def end(self) -> None:
        if not self.done():
            raise SqlUnsupported(f"trailing SQL `{self.rest()[:40]}`")

    def if_clause(self, *words: str) -> bool:
        if self.at_kw("IF"):
            self.take()
            for w in words:
                self.need_kw(w)
            return True
        return False

    def create(self) -> dict:
        self.need_kw("CREATE")
        if self.kw("TEMP", "TEMPORARY"):
            raise SqlUnsupported("temporary tables")
        unique = self.kw("UNIQUE")
        if self.kw("INDEX"):
            ine = self.if_clause("NOT", "EXISTS")
            name = self.ident()
            self.need_kw("ON")
            table = self.ident()
            self.need_op("(")
            cols = []
            while True:
                cols.append(self.ident())
                self.kw("ASC", "DESC")
                if not self.op(","):
                    break
            self.need_op(")")
            if self.at_kw("WHERE"):
                raise SqlUnsupported("partial index")
            self.end()
            return {"kind": "create_index", "name": name, "table": table, "cols": cols, "unique": unique, "if_not_exists": ine}
        if unique:
            raise SqlUnsupported("CREATE UNIQUE <not index>")
        self.need_kw("TABLE")
        ine = self.if_clause("NOT", "EXISTS")
        name = self.ident()
        self.need_op("(")
        cols: list[Col] = []
        pk: tuple = ()
        uniques: list[tuple] = []
        extra: list[str] = []
        while True:
            if self.at_kw(*_TABLE_CONSTRAINT_KW):
                seg = self.until_top_comma()
                p = Parser(seg)
                if p.kw("CONSTRAINT"):
                    p.ident()
                if p.kw("PRIMARY"):
                    p.need_kw("KEY")
                    pk = tuple(p.paren_idents())
                elif p.kw("UNIQUE"):
                    uniques.append(tuple(p.paren_idents()))
                else:
                    extra.append(" ".join(x.up for x in seg))
            else:
                cols.append(self.column_def(self.until_top_comma()))
            if not self.op(","):
                break
        self.need_op(")")
        if self.kw("WITHOUT"):
            self.need_kw("ROWID")
        self.kw("STRICT")
        self.end()
        if not pk:
            pk = tuple(c.name for c in cols if c.pk)
        return {"kind": "create_table", "name": name, "cols": cols, "pk": pk, "uniques": uniques + [(c.name,) for c in cols if c.unique], "extra": extra, "if_not_exists": ine}

    def until_top_comma(self) -> list[Tok]:
        depth = 0
        seg = []
        while True:
            p = self.peek()
            if p is None:
                raise SqlUnsupported("unbalanced parentheses in CREATE TABLE")
            if p.kind == "op" and p.val == "(":
                depth += 1
            elif p.kind == "op" and p.val == ")":
                if depth == 0:
                    return seg
                depth -= 1
            elif p.kind == "op" and p.val == "," and depth == 0:
                return seg
            seg.append(self.take())

    def paren_idents(self) -> list[str]:
        self.need_op("(")
        out = []
        while True:
            out.append(self.ident())
            self.kw("ASC", "DESC")
            if not self.op(","):
                break
        self.need_op(")")
        return out

    @staticmethod
    def column_def(seg: list[Tok]) -> Col:
        p = Parser(seg)
        name = p.ident()
        typ = []
        while not p.done() and not p.at_kw(*_COL_CONSTRAINT_KW):
            t = p.take()
            typ.append(t.up if t.kind == "id" else t.val)
        cons = [x.up if x.kind == "id" else x.val for x in seg[p.i:]]
        notnull = pk = unique = autoinc = has_default = False
        default: Any = None
        while not p.done():
            if p.kw("CONSTRAINT"):
                p.ident()
            elif p.kw("PRIMARY"):
                p.need_kw("KEY")
                p.kw("ASC", "DESC")
                pk = True
                if p.kw("AUTOINCREMENT"):
                    autoinc = True
            elif p.kw("NOT"):
                p.need_kw("NULL")
                notnull = True
            elif p.kw("NULL"):
                pass
            elif p.kw("UNIQUE"):
                unique = True
            elif p.kw("DEFAULT"):
                has_default = True
                default = p.unary()
            elif p.kw("COLLATE"):
                p.ident()
            elif p.kw("CHECK"):
                p.need_op("(")
                p.expr()
                p.need_op(")")
            elif p.kw("REFERENCES"):
                p.ident()
                if p.at_op("("):
                    p.paren_idents()
                while p.kw("ON"):
                    p.need_kw("DELETE", "UPDATE")
                    if p.kw("SET"):
                        p.need_kw("NULL", "DEFAULT")
                    elif p.kw("NO"):
                        p.need_kw("ACTION")
                    else:
                        p.need_kw("CASCADE", "RESTRICT")
            else:
                raise SqlUnsupported(f"column constraint `{p.rest()[:30]}`")
        return Col(name, " ".join(typ), " ".join(cons), notnull, default, has_default, pk, unique, autoinc)

    def alter(self) -> dict:
        self.need_kw("ALTER")
        self.need_kw("TABLE")
        table = self.ident()
        if self.kw("ADD"):
            self.kw("COLUMN")
            col = self.column_def(self.t[self.i:])
            return {"kind": "add_column", "table": table, "col": col}
        if self.kw("RENAME"):
            if self.kw("TO"):
                new = self.ident()
                self.end()
                return {"kind": "rename_table", "table": table, "new": new}
            self.kw("COLUMN")
            old = self.ident()
            self.need_kw("TO")
            new = self.ident()
            self.end()
            return {"kind": "rename_column", "table": table, "old": old, "new": new}
        if self.kw("DROP"):
            self.kw("COLUMN")
            c = self.ident()
            self.end()
            return {"kind": "drop_column", "table": table, "col": c}
        raise SqlUnsupported(f"ALTER TABLE form `{self.rest()[:30]}`")

    def drop(self) -> dict:
        self.need_kw("DROP")
        what = self.need_kw("TABLE", "INDEX")
        ie = self.if_clause("EXISTS")
        name = self.ident()
        self.end()
        return {"kind": "drop_" + what.lower(), "name": name, "if_exists": ie}

    def table_ref(self) -> tuple[str, str | None]:
        name = self.ident()
        alias = None
        if self.kw("AS"):
            alias = self.ident()
        elif self.peek() is not None and self.peek().kind in ("id", "qid") and self.peek().up not in _RESERVED_AFTER_TABLE:
            alias = self.ident()
        return name, alias

    def select(self) -> dict:
        self.need_kw("SELECT")
        if self.kw("DISTINCT"):
            raise SqlUnsupported("SELECT DISTINCT")
        items = []
        while True:
            if self.op("*"):
                items.append(("*", None))
            else:
                e = self.expr()
                alias = None
                if self.kw("AS"):
                    alias = self.ident()
                items.append((e, alias))
            if not self.op(","):
                break
        table = alias = None
        where = None
        order: list = []
        limit = None
        if self.kw("FROM"):
            table, alias = self.table_ref()
            if self.at_op(",") or self.at_kw("JOIN", "LEFT", "INNER", "CROSS", "NATURAL"):
                raise SqlUnsupported("joins")
        if self.kw("WHERE"):
            where = self.expr()
        if self.at_kw("GROUP", "HAVING", "UNION"):
            raise SqlUnsupported("GROUP BY / HAVING / UNION")
        if self.kw("ORDER"):
            self.need_kw("BY")
            while True:
                e = self.expr()
                desc = False
                if self.kw("DESC"):
                    desc = True
                else:
                    self.kw("ASC")
                order.append((e, desc))
                if not self.op(","):
                    break
        if self.kw("LIMIT"):
            limit = self.expr()
            if self.at_kw("OFFSET") or self.at_op(","):
                raise SqlUnsupported("LIMIT with OFFSET")
        return {"kind": "select", "items": items, "table": table, "alias": alias, "where": where, "order": order, "limit": limit}

    def insert(self) -> dict:
        mode = "abort"
        if self.kw("REPLACE"):
            mode = "replace"
        else:
            self.need_kw("INSERT")
            if self.kw("OR"):
                mode = self.need_kw("REPLACE", "IGNORE", "ABORT", "FAIL", "ROLLBACK").lower()
        self.need_kw("INTO")
        table = self.ident()
        cols = None
        if self.at_op("(") :
            cols = self.paren_idents()
        rows = None
        sel = None
        if self.kw("VALUES"):
            rows = []
            while True:
                self.need_op("(")
                vals = []
                while True:
                    vals.append(self.expr())
                    if not self.op(","):
                        break
                self.need_op(")")
                rows.append(vals)
                if not self.op(","):
                    break
        elif self.at_kw("SELECT"):
            sel = self.select()
        else:
            raise SqlUnsupported(f"INSERT form `{self.rest()[:30]}`")
        conflict = None
        if self.kw("ON"):
            self.need_kw("CONFLICT")
            target = self.paren_idents() if self.at_op("(") else None
            self.need_kw("DO")
            if self.kw("NOTHING"):
                conflict = {"target": target, "set": None}
            else:
                self.need_kw("UPDATE")
                self.need_kw("SET")
                conflict = {"target": target, "set": self.set_list()}
                if self.kw("WHERE"):
                    raise SqlUnsupported("upsert WHERE")
        self.end()
        return {"kind": "insert", "mode": mode, "table": table, "cols": cols, "rows": rows, "select": sel, "conflict": conflict}

    def set_list(self) -> list:
        out = []
        while True:
            c = self.ident()
            self.need_op("=")
            out.append((c, self.expr()))
            if not self.op(","):
                break
        return out

    def delete(self) -> dict:
        self.need_kw("DELETE")
        self.need_kw("FROM")
        table, alias = self.table_ref()
        where = self.expr() if self.kw("WHERE") else None
        self.end()
        return {"kind": "delete", "table": table, "alias": alias, "where": where}

    def update(self) -> dict:
        self.need_kw("UPDATE")
        table, alias = self.table_ref()
        self.need_kw("SET")
        sets = self.set_list()
        where = self.expr() if self.kw("WHERE") else None
        self.end()
        return {"kind": "update", "table": table, "alias": alias, "set": sets, "where": where}

    # ------------------------------------------------------------------ expressions
    def expr(self):
        l = self.and_expr()
        while self.kw("OR"):
            l = ("or", l, self.and_expr())
        return l

    def and_expr(self):
        l = self.not_expr()
        while self.kw("AND"):
            l = ("and", l, self.not_expr())
        return l

    def not_expr(self):
        if self.kw("NOT"):
            return ("not", self.not_expr())
        return self.cmp()

    def cmp(self):
        l = self.add()
        while True:
            if self.at_op("=", "==", "!=", "<>", "<", "<=", ">", ">="):
                o = self.take().val
                l = ("cmp", {"==": "=", "<>": "!="}.get(o, o), l, self.add())
            elif self.at_kw("IS"):
                self.take()
                neg = self.kw("NOT")
                if self.kw("NULL"):
                    l = ("isnull", l, neg)
                else:
                    l = ("is", l, self.add(), neg)
            elif self.at_kw("IN") or (self.at_kw("NOT") and self.peek(1) is not None and self.peek(1).up == "IN"):
                neg = self.kw("NOT")
                self.need_kw("IN")
                self.need_op("(")
                if self.at_kw("SELECT"):
                    rhs: Any = ("subq", self.select())
                elif self.at_op(")"):
                    rhs = []
                else:
                    rhs = []
                    while True:
                        rhs.append(self.expr())
                        if not self.op(","):
                            break
                self.need_op(")")
                l = ("in", l, rhs, neg)
            elif self.at_kw("LIKE", "BETWEEN", "GLOB", "REGEXP"):
                raise SqlUnsupported(f"operator {self.peek().up}")
            else:
                return l

    def add(self):
        l = self.mul()
        while self.at_op("+", "-", "||"):
            o = self.take().val
            l = ("arith", o, l, self.mul())
        return l

    def mul(self):
        l = self.unary()
        while self.at_op("*", "/", "%"):
            o = self.take().val
            l = ("arith", o, l, self.unary())
        return l

    def unary(self):
        if self.op("-"):
            return ("neg", self.unary())
        if self.op("+"):
            return self.unary()
        return self.primary()

    def primary(self):
        p = self.take()
        if p.kind == "num":
            return ("lit", float(p.val) if "." in p.val else int(p.val))
        if p.kind == "str":
            return ("lit", p.val[1:-1].replace("''", "'"))
        if p.kind == "par":
            self.nparam += 1
            return ("param", self.nparam - 1)
        if p.kind == "op" and p.val == "(":
            if self.at_kw("SELECT"):
                s = self.select()
                self.need_op(")")
                return ("subq", s)
            e = self.expr()
            self.need_op(")")
            return e
        if p.kind == "id" and p.up == "NULL":
            return ("lit", None)
        if p.kind == "id" and p.up in ("CURRENT_TIMESTAMP", "CURRENT_DATE", "CURRENT_TIME"):
            return ("func", p.up, [], False)
        if p.kind == "id" and p.up in ("TRUE", "FALSE"):
            return ("lit", 1 if p.up == "TRUE" else 0)
        if p.kind == "id" and p.up in ("CASE", "CAST", "EXISTS"):
            raise SqlUnsupported(f"expression {p.up}")
        if p.kind in ("id", "qid"):
            if p.kind == "id" and self.at_op("("):
                self.take()
                args, star = [], False
                if self.op("*"):
                    star = True
                elif not self.at_op(")"):
                    if self.kw("DISTINCT"):
                        raise SqlUnsupported("DISTINCT aggregate")
                    while True:
                        args.append(self.expr())
                        if not self.op(","):
                            break
                self.need_op(")")
                return ("func", p.up, args, star)
            if self.at_op("."):
                self.take()
                c = self.ident()
                return ("col", p.val.lower(), c)
            return ("col", None, p.val.lower())
        raise SqlUnsupported(f"unexpected token `{p.val}` in SQL expression")


def parse_sql(text: str) -> list[dict]:
    """All statements of a script."""
    out = []
    for st in split_statements(sql_tokens(text)):
        out.append(Parser(st).statement())
    return out


_PARSE_CACHE: dict[str, dict] = {}
_VALIDATED: dict[tuple[int, int], tuple] = {}


def parse_one(text: str) -> dict:
    hit = _PARSE_CACHE.get(text)
    if hit is not None:
        return hit
    sts = parse_sql(text)
    if len(sts) == 1 and sts[0]["kind"] in ("select", "insert", "delete", "update", "txn", "pragma") and len(_PARSE_CACHE) < 5000:
        _PARSE_CACHE[text] = sts[0]  # DML trees are never mutated by the model
    if len(sts) != 1:
        raise SqlUnsupported(f"expected one SQL statement, got {len(sts)}")
    return sts[0]


def walk_sql(node: Any):
    """Yield every tuple/dict node of a parsed statement."""
    if isinstance(node, dict):
        yield node
        for v in node.values():
            yield from walk_sql(v)
    elif isinstance(node, tuple):
        yield node
        for v in node:
            yield from walk_sql(v)
    elif isinstance(node, list):
        for v in node:
            yield from walk_sql(v)


def column_refs(stmt: dict) -> list[tuple[str | None, str]]:
    """(table, column) pairs a DML statement names; table None when it cannot be attributed."""
    out: list[tuple[str | None, str]] = []

    def scope(s: dict) -> dict[str | None, str | None]:
        sc: dict[str | None, str | None] = {None: s.get("table")}
        if s.get("table"):
            sc[s["table"]] = s["table"]
        if s.get("alias"):
            sc[s["alias"]] = s["table"]
        return sc

    def visit(node: Any, sc: dict) -> None:
        if isinstance(node, dict):
            k = node.get("kind")
            if k in ("select", "delete", "update", "insert"):
                inner = dict(sc)
                inner.update(scope(node))
                if k == "insert":
                    inner["excluded"] = node["table"]
                    for c in node.get("cols") or []:
                        out.append((node["table"], c))
                    if node.get("conflict"):
                        for c in node["conflict"].get("target") or []:
                            out.append((node["table"], c))
                        for c, e in node["conflict"].get("set") or []:
                            out.append((node["table"], c))
                if k == "update":
                    for c, _e in node["set"]:
                        out.append((node["table"], c))
                if node.get("table"):
                    out.append((node["table"], "*table*"))
                for key, v in node.items():
                    if key not in ("kind", "table", "alias", "cols"):
                        visit(v, inner)
                return
            for v in node.values():
                visit(v, sc)
        elif isinstance(node, tuple):
            if node and node[0] == "col":
                q, c = node[1], node[2]
                if q is None:
                    out.append((sc.get(None), c))
                else:
                    out.append((sc.get(q, q), c))
                return
            for v in node:
                visit(v, sc)
        elif isinstance(node, list):
            for v in node:
                visit(v, sc)

    visit(stmt, {})
    return out


# ---------------------------------------------------------------------------- abstract schema


class Schema:
    def __init__(self) -> None:
        self.tables: dict[str, dict] = {}  # name -> {"cols": [Col], "pk": tuple, "uniques": [...], "extra": [...]}
        self.indexes: dict[str, tuple] = {}  # name -> (table, cols, unique)

    def copy(self) -> "Schema":
        return copy.deepcopy(self)

    def columns(self, table: str) -> list[str]:
        return [c.name for c in self.tables[table]["cols"]]

    def canon(self) -> tuple:
        t = tuple(sorted((n, tuple(c.canon() for c in d["cols"]), tuple(d["pk"]), tuple(sorted(d["uniques"])), tuple(d["extra"])) for n, d in self.tables.items()))
        i = tuple(sorted((n, v[0], tuple(v[1]), v[2]) for n, v in self.indexes.items()))
        return (t, i)

    def describe(self) -> dict:
        return {"tables": {n: [c.name for c in d["cols"]] for n, d in sorted(self.tables.items())}, "indexes": {n: [v[0], list(v[1])] for n, v in sorted(self.indexes.items())}}

    def diff(self, other: "Schema") -> str:
        out = []
        for n in sorted(set(self.tables) | set(other.tables)):
            a, b = self.tables.get(n), other.tables.get(n)
            if a is None or b is None:
                out.append(f"table {n} {'missing' if a is None else 'extra'}")
                continue
            ca, cb = [c.canon() for c in a["cols"]], [c.canon() for c in b["cols"]]
            if ca != cb:
                na, nb = [c[0] for c in ca], [c[0] for c in cb]
                if na != nb:
                    out.append(f"table {n}: columns {na} vs {nb}")
                else:
                    out.append(f"table {n}: column definitions differ: {[x for x, y in zip(ca, cb) if x != y][:2]}")
            if tuple(a["pk"]) != tuple(b["pk"]):
                out.append(f"table {n}: primary key {a['pk']} vs {b['pk']}")
        for n in sorted(set(self.indexes) | set(other.indexes)):
            ia, ib = self.indexes.get(n), other.indexes.get(n)
            if ia is None or ib is None:
                x = ib if ia is None else ia
                out.append(f"index {n} on {x[0]}({', '.join(x[1])}) {'missing' if ia is None else 'extra'}")
            elif ia != ib:
                out.append(f"index {n}: {ia} vs {ib}")
        return "; ".join(out) or "equal"

    def apply(self, st: dict, nonempty: bool = True) -> str | None:
        """Apply one DDL statement; returns the SQLite error it would meet, or None.
        ``nonempty``: the altered table may hold rows (a user database does)."""
        k = st["kind"]
        if k == "create_table":
            if st["name"] in self.tables:
                return None if st["if_not_exists"] else f"table {st['name']} already exists"
            if st["name"] in self.indexes:
                return f"there is already an index named {st['name']}"
            names = [c.name for c in st["cols"]]
            if len(set(names)) != len(names):
                return f"duplicate column name in table {st['name']}"
            for c in st["pk"]:
                if c not in names:
                    return f"table {st['name']} has no column named {c} (primary key)"
            self.tables[st["name"]] = {"cols": list(st["cols"]), "pk": tuple(st["pk"]), "uniques": list(st["uniques"]), "extra": list(st["extra"])}
            return None
        if k == "add_column":
            t = self.tables.get(st["table"])
            if t is None:
                return f"no such table: {st['table']}"
            c: Col = st["col"]
            if c.name in [x.name for x in t["cols"]]:
                return f"duplicate column name: {c.name}"
            if c.pk:
                return "Cannot add a PRIMARY KEY column"
            if c.unique:
                return "Cannot add a UNIQUE column"
            if nonempty and c.notnull and (not c.has_default or c.default == ("lit", None)):
                return "Cannot add a NOT NULL column with default value NULL"
            t["cols"].append(c)
            return None
        if k == "create_index":
            if st["name"] in self.indexes:
                return None if st["if_not_exists"] else f"index {st['name']} already exists"
            if st["name"] in self.tables:
                return f"there is already a table named {st['name']}"
            t = self.tables.get(st["table"])
            if t is None:
                return f"no such table: {st['table']}"
            for c in st["cols"]:
                if c not in [x.name for x in t["cols"]]:
                    return f"table {st['table']} has no column named {c}"
            self.indexes[st["name"]] = (st["table"], tuple(st["cols"]), bool(st["unique"]))
            return None
        if k == "drop_table":
            if st["name"] not in self.tables:
                return None if st["if_exists"] else f"no such table: {st['name']}"
            del self.tables[st["name"]]
            for n in [n for n, v in self.indexes.items() if v[0] == st["name"]]:
                del self.indexes[n]
            return None
        if k == "drop_index":
            if st["name"] not in self.indexes:
                return None if st["if_exists"] else f"no such index: {st['name']}"
            del self.indexes[st["name"]]
            return None
        if k == "rename_table":
            if st["table"] not in self.tables:
                return f"no such table: {st['table']}"
            if st["new"] in self.tables or st["new"] in self.indexes:
                return f"there is already another table or index with this name: {st['new']}"
            self.tables[st["new"]] = self.tables.pop(st["table"])
            for n, v in list(self.indexes.items()):
                if v[0] == st["table"]:
                    self.indexes[n] = (st["new"], v[1], v[2])
            return None
        if k == "rename_column":
            t = self.tables.get(st["table"])
            if t is None:
                return f"no such table: {st['table']}"
            names = [x.name for x in t["cols"]]
            if st["old"] not in names:
                return f"no such column: {st['old']}"
            if st["new"] in names:
                return f"duplicate column name: {st['new']}"
            for x in t["cols"]:
                if x.name == st["old"]:
                    x.name = st["new"]
            t["pk"] = tuple(st["new"] if c == st["old"] else c for c in t["pk"])
            for n, v in list(self.indexes.items()):
                if v[0] == st["table"]:
                    self.indexes[n] = (v[0], tuple(st["new"] if c == st["old"] else c for c in v[1]), v[2])
            return None
        if k == "drop_column":
            t = self.tables.get(st["table"])
            if t is None:
                return f"no such table: {st['table']}"
            names = [x.name for x in t["cols"]]
            if st["col"] not in names:
                return f"no such column: {st['col']}"
            if st["col"] in t["pk"] or any(st["col"] in v[1] for v in self.indexes.values() if v[0] == st["table"]):
                return f"cannot drop column {st['col']}: it is indexed or part of the primary key"
            t["cols"] = [x for x in t["cols"] if x.name != st["col"]]
            return None
        raise SqlUnsupported(f"not a DDL statement: {k}")


DDL_KINDS = {"create_table", "add_column", "create_index", "drop_table", "drop_index", "rename_table", "rename_column", "drop_column"}


# ---------------------------------------------------------------------------- model database


class ModelObject:
    """Marker for python objects the interpreter may call into; `_api` whitelists attributes."""

    _api: frozenset = frozenset()


class MiniDB:
    """A model of one SQLite database: abstract schema + rows as dicts.  SQL three-valued logic."""

    TS = "2000-01-01 00:00:00"

    def __init__(self) -> None:
        self.schema = Schema()
        self.data: dict[str, list[dict]] = {}
        self.user_version = 0
        self._snap: tuple | None = None
        self.log: list[str] = []  # kinds of state-changing statements executed
        self.assume_rows = False  # DDL is judged as if every table held user rows
        self.adversarial_order = True  # SQL leaves the order of a SELECT without ORDER BY open: the model returns newest first

    # ------------------------------------------------------------------ state
    def snapshot(self) -> tuple:
        self._schema_shared = True  # copy-on-write: DDL copies the schema before changing it
        return (self.schema, {t: [dict(r) for r in rs] for t, rs in self.data.items()}, self.user_version)

    def restore(self, s: tuple) -> None:
        self.schema, self.user_version = s[0], s[2]
        self._schema_shared = True
        self.data = {t: [dict(r) for r in rs] for t, rs in s[1].items()}

    def state_key(self) -> tuple:
        rows = tuple(sorted((t, tuple(tuple(sorted((k, repr(v)) for k, v in r.items())) for r in rs)) for t, rs in self.data.items()))
        return (self.schema.canon(), rows, self.user_version)

    # ------------------------------------------------------------------ execution
    def script(self, text: str) -> None:
        # sqlite3.Cursor.executescript commits a pending transaction first
        self._snap = None
        for st in parse_sql(text):
            self.run(st, [])

    def execute(self, text: str, params: Any = ()) -> "list[tuple]":
        st = parse_one(text)
        return self.run(st, list(params))

    def run(self, st: dict, params: list) -> list[tuple]:
        k = st["kind"]
        self.rowcount = -1
        if k in DDL_KINDS:
            if getattr(self, "_schema_shared", False):
                self.schema = self.schema.copy()
                self._schema_shared = False
            err = self.schema.apply(st, nonempty=self.assume_rows or bool(self.data.get(st.get("table") or "")))
            if err:
                raise Raised("OperationalError", err)
            if k == "create_table":
                self.data.setdefault(st["name"], [])
            elif k == "drop_table":
                self.data.pop(st["name"], None)
            elif k == "rename_table":
                self.data[st["new"]] = self.data.pop(st["table"], [])
            elif k == "rename_column":
                for r in self.data.get(st["table"], []):
                    r[st["new"]] = r.pop(st["old"], None)
            elif k == "drop_column":
                for r in self.data.get(st["table"], []):
                    r.pop(st["col"], None)
            elif k == "add_column":
                c = st["col"]
                dv = self._const(c.default) if c.has_default else None
                for r in self.data.get(st["table"], []):
                    r[c.name] = dv
            self.log.append(k)
            return []
        if k == "txn":
            if st["what"] == "BEGIN":
                if self._snap is not None:
                    raise Raised("OperationalError", "cannot start a transaction within a transaction")
                self._snap = self.snapshot()
            elif st["what"] == "COMMIT":
                self._snap = None
            elif st["what"] == "ROLLBACK":
                if self._snap is not None:
                    self.restore(self._snap)
                self._snap = None
            return []
        if k == "pragma":
            if st["name"] == "user_version":
                if st["value"] is None:
                    return [(self.user_version,)]
                self.user_version = int(st["value"])
                self.log.append("pragma user_version")
                return []
            if st["name"] == "journal_mode":
                return [((st["value"] or "wal").lower(),)]
            return []
        if k in ("select", "insert", "delete", "update") and (id(st), id(self.schema)) not in _VALIDATED:
            for t, c in column_refs(st):
                if t is None or t == "sqlite_master":
                    continue
                if t not in self.schema.tables:
                    raise Raised("OperationalError", f"no such table: {t}")
                if c != "*table*" and c not in self.schema.columns(t):
                    raise Raised("OperationalError", f"no such column: {c}")
            if len(_VALIDATED) < 20000:
                _VALIDATED[(id(st), id(self.schema))] = (st, self.schema)  # keeps both alive, so the ids stay unique
        if k == "select":
            return self._select(st, params, None)
        if k == "insert":
            return self._insert(st, params)
        if k == "delete":
            rows = self._rows(st["table"])
            keep = [r for r in rows if not self._truth(self._ev(st["where"], self._scope(st, r), params)) ] if st["where"] is not None else []
            self.rowcount = len(rows) - len(keep)
            self.data[st["table"]] = keep
            if self.rowcount:
                self.log.append("delete")
            return []
        if k == "update":
            rows = self._rows(st["table"])
            n = 0
            for r in rows:
                sc = self._scope(st, r)
                if st["where"] is None or self._truth(self._ev(st["where"], sc, params)):
                    new = {c: self._ev(e, sc, params) for c, e in st["set"]}
                    for c in new:
                        self._need_col(st["table"], c)
                    r.update(new)
                    n += 1
            self.rowcount = n
            if n:
                self.log.append("update")
            return []
        raise SqlUnsupported(f"statement kind {k}")

    # ------------------------------------------------------------------ helpers
    def _rows(self, table: str) -> list[dict]:
        if table == "sqlite_master":
            return [{"type": "table", "name": n, "tbl_name": n} for n in self.schema.tables] + [{"type": "index", "name": n, "tbl_name": v[0]} for n, v in self.schema.indexes.items()]
        if table not in self.schema.tables:
            raise Raised("OperationalError", f"no such table: {table}")
        return self.data.setdefault(table, [])

    def _need_col(self, table: str, col: str) -> None:
        if table == "sqlite_master":
            return
        if col not in self.schema.columns(table):
            raise Raised("OperationalError", f"table {table} has no column named {col}")

    def _scope(self, st: dict, row: dict | None, outer: dict | None = None) -> dict:
        """qualifier -> (row, table name); None = the innermost unqualified scope."""
        sc = dict(outer or {})
        t = st.get("table")
        sc[None] = (row, t)
        if t:
            sc[t] = (row, t)
        if st.get("alias"):
            sc[st["alias"]] = (row, t)
        return sc

    @staticmethod
    def _truth(v: Any) -> bool:
        return v is not None and v != 0 and v is not False

    def _const(self, e: Any) -> Any:
        return self._ev(e, {None: (None, None)}, [])

    def _ev(self, e: Any, sc: dict, params: list) -> Any:
        k = e[0]
        if k == "lit":
            return e[1]
        if k == "param":
            if e[1] >= len(params):
                raise Raised("ProgrammingError", f"Incorrect number of bindings supplied: statement needs more than {len(params)}")
            v = params[e[1]]
            return int(v) if isinstance(v, bool) else v
        if k == "col":
            q, c = e[1], e[2]
            if q not in sc:
                raise Raised("OperationalError", f"no such column: {q + '.' if q else ''}{c}")
            row, tname = sc[q]
            if row is None:
                raise Raised("OperationalError", f"no such column: {c}")
            if tname and tname != "sqlite_master" and tname in self.schema.tables:
                if c not in self.schema.columns(tname):
                    raise Raised("OperationalError", f"no such column: {c}")
            elif c not in row:
                raise Raised("OperationalError", f"no such column: {c}")
            return row.get(c)
        if k == "and":
            a, b = self._ev(e[1], sc, params), self._ev(e[2], sc, params)
            if (a is not None and not self._truth(a)) or (b is not None and not self._truth(b)):
                return 0
            return None if a is None or b is None else 1
        if k == "or":
            a, b = self._ev(e[1], sc, params), self._ev(e[2], sc, params)
            if self._truth(a) or self._truth(b):
                return 1
            return None if a is None or b is None else 0
        if k == "not":
            a = self._ev(e[1], sc, params)
            return None if a is None else int(not self._truth(a))
        if k == "neg":
            a = self._ev(e[1], sc, params)
            return None if a is None else -a
        if k == "cmp":
            a, b = self._ev(e[2], sc, params), self._ev(e[3], sc, params)
            if a is None or b is None:
                return None
            try:
                return int({"=": a == b, "!=": a != b, "<": a < b, "<=": a <= b, ">": a > b, ">=": a >= b}[e[1]])
            except TypeError:
                raise SqlUnsupported(f"comparison of {type(a).__name__} with {type(b).__name__} (type affinity is not modelled)")
        if k == "isnull":
            a = self._ev(e[1], sc, params)
            return int((a is None) != e[2])
        if k == "is":
            a, b = self._ev(e[1], sc, params), self._ev(e[2], sc, params)
            return int((a == b and (a is None) == (b is None)) != e[3])
        if k == "in":
            a = self._ev(e[1], sc, params)
            if isinstance(e[2], tuple) and e[2][0] == "subq":
                vals = [r[0] for r in self._select(e[2][1], params, sc)]
            else:
                vals = [self._ev(x, sc, params) for x in e[2]]
            if not vals:
                return int(e[3])  # x IN () is false even for NULL
            if a is None:
                return None
            hit = any(v is not None and v == a for v in vals)
            if hit:
                return int(not e[3])
            if any(v is None for v in vals):
                return None
            return int(e[3])
        if k == "arith":
            a, b = self._ev(e[2], sc, params), self._ev(e[3], sc, params)
            if a is None or b is None:
                return None
            if e[1] == "||":
                return str(a) + str(b)
            try:
                return {"+": lambda: a + b, "-": lambda: a - b, "*": lambda: a * b, "/": lambda: (a // b if isinstance(a, int) and isinstance(b, int) else a / b), "%": lambda: a % b}[e[1]]()
            except ZeroDivisionError:
                return None
            except TypeError:
                raise SqlUnsupported("arithmetic on non-numbers")
        if k == "subq":
            rows = self._select(e[1], params, sc)
            return rows[0][0] if rows else None
        if k == "func":
            name = e[1]
            if name in ("CURRENT_TIMESTAMP", "CURRENT_DATE", "CURRENT_TIME", "DATETIME", "DATE", "TIME", "STRFTIME", "JULIANDAY", "UNIXEPOCH"):
                return self.TS
            args = [self._ev(x, sc, params) for x in e[2]]
            if name in ("COALESCE", "IFNULL"):
                for a in args:
                    if a is not None:
                        return a
                return None
            if name == "NULLIF":
                return None if args[0] == args[1] else args[0]
            if name in ("LOWER", "UPPER") and len(args) == 1:
                return None if args[0] is None else (args[0].lower() if name == "LOWER" else args[0].upper())
            if name == "LENGTH" and len(args) == 1:
                return None if args[0] is None else len(args[0])
            if name in ("MAX", "MIN") and len(args) >= 2:
                return None if any(a is None for a in args) else (max(args) if name == "MAX" else min(args))
            if name == "ABS":
                return None if args[0] is None else abs(args[0])
            raise SqlUnsupported(f"SQL function {name}")
        raise SqlUnsupported(f"SQL expression node {k}")

    def _is_agg(self, e: Any) -> bool:
        return any(isinstance(n, tuple) and n and n[0] == "func" and n[1] in _AGG and (len(n[2]) == 1 or n[3]) for n in walk_sql(e) if not isinstance(n, dict))

    def _select(self, st: dict, params: list, outer: dict | None) -> list[tuple]:
        if st["table"] is None:
            sc = self._scope(st, None, outer)
            return [tuple(self._ev(e, sc, params) for e, _a in st["items"])]
        rows = list(self._rows(st["table"]))
        cols = ["type", "name", "tbl_name"] if st["table"] == "sqlite_master" else self.schema.columns(st["table"])
        if st["where"] is not None:
            rows = [r for r in rows if self._truth(self._ev(st["where"], self._scope(st, r, outer), params))]
        if any(e != "*" and self._is_agg(e) for e, _a in st["items"]):
            out = []
            for e, _a in st["items"]:
                out.append(self._agg(e, st, rows, params, outer))
            return [tuple(out)]
        for e, desc in reversed(st["order"]):
            def key(r, e=e):
                v = self._ev(e, self._scope(st, r, outer), params)
                return (v is not None, v)
            try:
                rows.sort(key=key, reverse=desc)
            except TypeError:
                raise SqlUnsupported("ORDER BY over mixed types")
        if not st["order"] and self.adversarial_order:
            rows.reverse()
        if st["limit"] is not None:
            n = self._ev(st["limit"], self._scope(st, None, outer), params)
            if n is not None and n >= 0:
                rows = rows[: int(n)]
        res = []
        for r in rows:
            sc = self._scope(st, r, outer)
            vals: list = []
            for e, _a in st["items"]:
                if e == "*":
                    vals.extend(r.get(c) for c in cols)
                else:
                    vals.append(self._ev(e, sc, params))
            res.append(tuple(vals))
        return res

    def _agg(self, e: Any, st: dict, rows: list[dict], params: list, outer: dict | None) -> Any:
        if e[0] == "func" and e[1] in _AGG:
            if e[3]:
                return len(rows)
            vals = [self._ev(e[2][0], self._scope(st, r, outer), params) for r in rows]
            vals = [v for v in vals if v is not None]
            if e[1] == "COUNT":
                return len(vals)
            if not vals:
                return 0.0 if e[1] == "TOTAL" else None
            return {"MAX": max, "MIN": min, "SUM": sum, "TOTAL": lambda v: float(sum(v)), "AVG": lambda v: sum(v) / len(v)}[e[1]](vals)
        if e[0] in ("lit", "param"):
            return self._ev(e, {None: (None, None)}, params)
        if e[0] == "arith":
            a, b = self._agg(e[2], st, rows, params, outer), self._agg(e[3], st, rows, params, outer)
            return self._ev(("arith", e[1], ("lit", a), ("lit", b)), {}, params)
        if e[0] == "func":
            args = [("lit", self._agg(x, st, rows, params, outer)) for x in e[2]]
            return self._ev(("func", e[1], args, e[3]), {}, params)
        if e[0] == "neg":
            a = self._agg(e[1], st, rows, params, outer)
            return None if a is None else -a
        raise SqlUnsupported("aggregate expression shape")

    def _insert(self, st: dict, params: list) -> list[tuple]:
        table = st["table"]
        rows = self._rows(table)
        tdef = self.schema.tables[table]
        allcols = [c.name for c in tdef["cols"]]
        cols = st["cols"] or allcols
        for c in cols:
            self._need_col(table, c)
        if st["rows"] is not None:
            sc0 = {None: (None, None)}
            vrows = []
            for vals in st["rows"]:
                if len(vals) != len(cols):
                    raise Raised("OperationalError", f"{len(vals)} values for {len(cols)} columns")
                vrows.append([self._ev(e, sc0, params) for e in vals])
        else:
            vrows = [list(r) for r in self._select(st["select"], params, None)]
            for r in vrows:
                if len(r) != len(cols):
                    raise Raised("OperationalError", f"{len(r)} values for {len(cols)} columns")
        n = 0
        for vals in vrows:
            new = {}
            for c in tdef["cols"]:
                if c.name in cols:
                    new[c.name] = vals[cols.index(c.name)]
                elif c.has_default:
                    new[c.name] = self._const(c.default)
                else:
                    new[c.name] = None
            for c in tdef["cols"]:
                if c.pk and "INT" in c.typ and new[c.name] is None and len(tdef["pk"]) == 1:
                    new[c.name] = max([r[c.name] or 0 for r in rows] + [0]) + 1
            for c in tdef["cols"]:
                if c.notnull and new[c.name] is None:
                    if st["mode"] == "ignore":
                        new = None
                        break
                    raise Raised("IntegrityError", f"NOT NULL constraint failed: {table}.{c.name}")
            if new is None:
                continue
            keys = [k for k in [tuple(tdef["pk"])] + [tuple(u) for u in tdef["uniques"]] if k]
            clash = None
            for key in keys:
                for r in rows:
                    if all(r.get(k) is not None and r.get(k) == new.get(k) for k in key):
                        clash = (r, key)
                        break
                if clash:
                    break
            if clash is None:
                rows.append(new)
                n += 1
                continue
            old, key = clash
            if st["conflict"] is not None and (st["conflict"]["target"] is None or tuple(st["conflict"]["target"]) == tuple(key)):
                if st["conflict"]["set"] is not None:
                    sc = {None: (old, table), table: (old, table), "excluded": (new, table)}
                    upd = {c: self._ev(e, sc, params) for c, e in st["conflict"]["set"]}
                    for c in upd:
                        self._need_col(table, c)
                    old.update(upd)
                    n += 1
                continue
            if st["mode"] == "ignore":
                continue
            if st["mode"] == "replace":
                rows.remove(old)
                rows.append(new)
                n += 1
                continue
            raise Raised("IntegrityError", f"UNIQUE constraint failed: {table}.{', '.join(key)}")
        self.rowcount = n
        if n:
            self.log.append("insert")
        return []


class FakeCursor(ModelObject):
    _api = frozenset({"execute", "executescript", "fetchone", "fetchall", "rowcount", "close", "lastrowid", "executemany"})

    def __init__(self, db: MiniDB):
        self.db = db
        self._res: list[tuple] = []
        self.rowcount = -1
        self.lastrowid = None

    def execute(self, sql: str, params: Any = ()) -> "FakeCursor":
        if not isinstance(sql, str):
            raise Unsupported("non-string SQL reached the model connection")
        self._res = self.db.execute(sql, params)
        self.rowcount = self.db.rowcount
        return self

    def executemany(self, sql: str, seq: Any) -> "FakeCursor":
        for p in seq:
            self.execute(sql, p)
        return self

    def executescript(self, sql: str) -> "FakeCursor":
        self.db.script(sql)
        return self

    def fetchone(self) -> tuple | None:
        return self._res.pop(0) if self._res else None

    def fetchall(self) -> list[tuple]:
        r, self._res = self._res, []
        return r

    def close(self) -> None:
        return None


class FakeConn(ModelObject):
    _api = frozenset({"cursor", "execute", "executescript", "commit", "rollback", "close", "in_transaction"})

    def __init__(self, db: MiniDB):
        self.db = db
        self.closed = False

    @property
    def in_transaction(self) -> bool:
        return self.db._snap is not None

    def cursor(self) -> FakeCursor:
        return FakeCursor(self.db)

    def execute(self, sql: str, params: Any = ()) -> FakeCursor:
        return FakeCursor(self.db).execute(sql, params)

    def executescript(self, sql: str) -> FakeCursor:
        return FakeCursor(self.db).executescript(sql)

    def commit(self) -> None:
        self.db._snap = None

    def rollback(self) -> None:
        if self.db._snap is not None:
            self.db.restore(self.db._snap)
        self.db._snap = None

    def close(self) -> None:
        self.closed = True


# =====================================================================================================
# Part B — XInterp: the framework's AST interpreter extended with objects, methods, with/await/yield
# =====================================================================================================

from ..absint import _BUILTINS, _SAFE_METHODS  # noqa: E402  (private tables of the base interpreter)


class Ext:
    """An opaque name that lives outside the repository (asyncio, datetime, sqlite3 ...)."""

    def __init__(self, dotted_name: str):
        self.dotted = dotted_name

    def __repr__(self) -> str:
        return f"<ext {self.dotted}>"

    def __eq__(self, o: object) -> bool:
        return isinstance(o, Ext) and o.dotted == self.dotted

    def __hash__(self) -> int:
        return hash(self.dotted)


class FnRef:
    def __init__(self, node: ast.AST, module: Module, closure: dict | None = None):
        self.node, self.module, self.closure = node, module, closure


class BoundMethod:
    def __init__(self, recv: Any, fn: FnRef):
        self.recv, self.fn = recv, fn


class ClassRef:
    def __init__(self, ref: str, module: Module, node: ast.ClassDef):
        self.ref, self.module, self.node = ref, module, node
        self.name = node.name

    def __repr__(self) -> str:
        return f"<class {self.ref}>"


class FakeDT(ModelObject):
    """A timestamp token: only identity/label matter to the rules."""

    _api = frozenset({"isoformat", "timestamp"})

    def __init__(self, label: str):
        self.label = label

    def isoformat(self) -> str:
        return self.label

    def __eq__(self, o: object) -> bool:
        return isinstance(o, FakeDT) and o.label == self.label

    def __hash__(self) -> int:
        return hash(self.label)

    def __repr__(self) -> str:
        return f"<dt {self.label}>"

    def __bool__(self) -> bool:
        return True


class FakeLogger(ModelObject):
    _api = frozenset({"debug", "info", "warning", "error", "exception", "critical", "log"})

    def _noop(self, *a: Any, **k: Any) -> None:
        return None

    debug = info = warning = error = exception = critical = log = _noop


class LazyGen(ModelObject):
    """Value of a call to a generator function of the repo: the body runs when it is iterated
    (to completion, yields collected) — good enough wherever no other task interleaves."""

    def __init__(self, runner: Callable[[], list]):
        self._runner = runner
        self._items: list | None = None

    def run(self) -> list:
        if self._items is None:
            self._items = self._runner()
        return self._items

    def __iter__(self):
        return iter(self.run())


class CtxGen(ModelObject):
    """Value of a call to a @contextmanager generator function of the repo."""

    def __init__(self, yielded: list):
        self.yielded = yielded

    def _enter(self, interp: "XInterp", is_async: bool) -> Any:
        if len(self.yielded) != 1:
            raise Unsupported("@contextmanager function did not yield exactly once")
        return self.yielded[0]

    def _exit(self, interp: "XInterp", exc: Any) -> bool:
        return False


class Suppress(ModelObject):
    def __init__(self, *names: Any):
        self.names = {_exc_name(n) for n in names}

    def _enter(self, interp: "XInterp", is_async: bool) -> Any:
        return None

    def _exit(self, interp: "XInterp", exc: Raised | None) -> bool:
        return exc is not None and (exc.name in self.names or "Exception" in self.names or "BaseException" in self.names)


def _exc_name(n: Any) -> str:
    if isinstance(n, Ext):
        return n.dotted.rsplit(".", 1)[-1]
    if isinstance(n, ClassRef):
        return n.name
    return str(n)


_DEQUE_API = {"append", "appendleft", "popleft", "pop", "remove", "clear", "extend", "count", "index"}
_EXTRA_STR = {"splitlines", "title", "isspace", "zfill", "encode", "casefold", "isidentifier"}
_RE_API = {"search", "match", "fullmatch", "group", "groups", "findall", "start", "end", "span"}


class World:
    """State shared by every interpreter instance of one model run."""

    def __init__(self, repo: Any, max_steps: int = 2_000_000):
        self.repo = repo
        self.max_steps = max_steps
        self.steps = 0
        self.classes: dict[str, ClassRef] = {}
        self.method_hooks: dict[tuple[str, str], Callable] = {}
        self.class_hooks: dict[tuple[str, str], Callable] = {}
        self.ctor_hooks: dict[str, Callable] = {}
        self.ext_values: dict[str, Any] = {}
        self.ext_calls: dict[str, Callable] = {
            "re.compile": re.compile,
            "logging.getLogger": lambda *a, **k: FakeLogger(),
            "collections.deque": deque,
            "weakref.WeakValueDictionary": dict,
            "contextlib.suppress": Suppress,
            "time.sleep": lambda *a, **k: None,
            "datetime.datetime.now": lambda *a, **k: FakeDT("NOW"),
            "datetime.datetime.fromisoformat": lambda s: FakeDT(s),
        }
        self._gcache: dict[tuple[str, str], Any] = {}
        self._enum: dict[tuple[str, str], Record] = {}
        self.yield_sink: Callable[[Any], Any] | None = None
        self.await_hook: Callable[[Any], Any] | None = None
        self.trace_calls: list[str] = []

    def interp(self, module: Module, env: dict | None = None) -> "XInterp":
        return XInterp(self, module, env)

    def call(self, ref: str, *args: Any, **kw: Any) -> Any:
        """Call a module-level function ``module:qual`` of the repo (AST interpretation)."""
        m, fn = self.repo.func(ref)
        return self.interp(m).call_fn(FnRef(fn, m), None, list(args), kw)

    def call_method(self, recv: Record, name: str, *args: Any, **kw: Any) -> Any:
        it = XInterp(self, self.classes[recv._cls].module)
        f = it.getattr_(recv, name)
        return it.apply(f, list(args), kw)

    def new(self, ref: str, *args: Any, **kw: Any) -> Record:
        m, c = self.repo.cls(ref)
        return self.interp(m).construct(ClassRef(ref, m, c), list(args), kw)


def _is_generator(fn: ast.AST) -> bool:
    v = getattr(fn, "_x_isgen", None)
    if v is None:
        v = any(isinstance(n, (ast.Yield, ast.YieldFrom)) for n in walk_shallow(fn))
        fn._x_isgen = v  # type: ignore[attr-defined]  (cache on the parsed node; never written to disk)
    return v


def _decorators(fn: ast.AST) -> set[str]:
    v = getattr(fn, "_x_decs", None)
    if v is None:
        v = {(dotted(d.func if isinstance(d, ast.Call) else d) or "").rsplit(".", 1)[-1] for d in getattr(fn, "decorator_list", [])}
        fn._x_decs = v  # type: ignore[attr-defined]
    return v


class XInterp(Interp):
    def __init__(self, world: World, module: Module, env: dict | None = None):
        super().__init__(env, {}, world.max_steps)
        self.world = world
        self.module = module

    # ------------------------------------------------------------------ budget shared through the world
    _DISPATCH: dict[type, str] = {}

    def eval(self, e: ast.AST, env: dict) -> Any:
        w = self.world
        w.steps += 1
        if w.steps > w.max_steps:
            raise Unsupported("step budget of the model run exceeded")
        name = XInterp._DISPATCH.get(type(e))
        if name is None:
            name = "e_" + type(e).__name__
            if not hasattr(self, name):
                raise Unsupported(f"expression {type(e).__name__}: {ast.unparse(e)[:60]}")
            XInterp._DISPATCH[type(e)] = name
        return getattr(self, name)(e, env)

    # ------------------------------------------------------------------ names
    def e_Name(self, e: ast.Name, env: dict) -> Any:
        if e.id in env:
            return env[e.id]
        if e.id in _BUILTINS:
            return _BUILTINS[e.id] if e.id != "isinstance" else self._isinstance
        if e.id == "issubclass":
            return self._issubclass
        if e.id == "type":
            return self._type
        if e.id == "getattr":
            return self._getattr
        if e.id == "hasattr":
            return self._hasattr
        return self.global_lookup(self.module, e.id)

    def global_lookup(self, m: Module, name: str) -> Any:
        key = (m.rel, name)
        w = self.world
        if key in w._gcache:
            return w._gcache[key]
        v = self._global_lookup(m, name)
        w._gcache[key] = v
        return v

    def _global_lookup(self, m: Module, name: str) -> Any:
        w = self.world
        if name == "__name__":
            return m.name
        if name in m.functions:
            return FnRef(m.functions[name], m)
        if name in m.classes:
            return self._classref(f"{m.name}:{name}", m, m.classes[name])
        # module-level assignment (also inside module-level try/if blocks)
        found = None
        for st in ast.walk(m.tree):
            if not isinstance(st, (ast.Assign, ast.AnnAssign)) or enclosing_function(st) is not None or any(isinstance(p, ast.ClassDef) for p in _anc(st)):
                continue
            if isinstance(st, ast.Assign) and any(isinstance(t, ast.Name) and t.id == name for t in st.targets):
                found = st.value
            elif isinstance(st, ast.AnnAssign) and isinstance(st.target, ast.Name) and st.target.id == name and st.value is not None:
                found = st.value
        if found is not None:
            return XInterp(w, m).eval(found, {})
        if name in m.imports:
            r = w.repo.resolve_dotted(m, name)
            if ":" in r:
                modname, _, qual = r.partition(":")
                mod = w.repo.modules.get(modname)
                if mod is not None:
                    if qual in mod.functions:
                        return FnRef(mod.functions[qual], mod)
                    if qual in mod.classes:
                        return self._classref(r, mod, mod.classes[qual])
                    if "." not in qual:
                        return self.global_lookup(mod, qual)
            target = m.imports[name]
            if target in w.ext_values:
                return w.ext_values[target]
            return Ext(target)
        b = getattr(builtins, name, None)
        if isinstance(b, type) and issubclass(b, BaseException):
            return name
        raise Unsupported(f"unbound name `{name}` in {m.rel}")

    def _classref(self, ref: str, m: Module, node: ast.ClassDef) -> ClassRef:
        c = self.world.classes.get(node.name)
        if c is None or c.node is not node:
            c = ClassRef(ref, m, node)
            self.world.classes[node.name] = c
        return c

    # ------------------------------------------------------------------ attributes
    def e_Attribute(self, e: ast.Attribute, env: dict) -> Any:
        return self.getattr_(self.eval(e.value, env), e.attr)

    def getattr_(self, obj: Any, attr: str) -> Any:
        w = self.world
        if isinstance(obj, Record):
            if attr in obj.__dict__:
                return obj.__dict__[attr]
            h = w.method_hooks.get((obj._cls, attr))
            if h is not None:
                return lambda *a, **k: h(obj, *a, **k)
            c = w.classes.get(obj._cls)
            if c is not None:
                for cr in self._mro(c):
                    h = w.method_hooks.get((cr.name, attr))
                    if h is not None:
                        return lambda *a, **k: h(obj, *a, **k)
                    for n in cr.node.body:
                        if isinstance(n, FuncNode) and n.name == attr:
                            decs = _decorators(n)
                            if "staticmethod" in decs:
                                return FnRef(n, cr.module)
                            if "classmethod" in decs:
                                return BoundMethod(cr, FnRef(n, cr.module))
                            if "property" in decs or "cached_property" in decs:
                                return self.call_fn(FnRef(n, cr.module), obj, [], {})
                            return BoundMethod(obj, FnRef(n, cr.module))
                    v = self._class_attr(cr, attr)
                    if v is not _MISSING:
                        return v
            raise Unsupported(f"object {obj._cls} has no attribute `{attr}` known to the model")
        if isinstance(obj, ModelObject):
            if attr in obj._api:
                return getattr(obj, attr)
            raise Unsupported(f"model object {type(obj).__name__} has no attribute `{attr}`")
        if isinstance(obj, Ext):
            d = f"{obj.dotted}.{attr}"
            return w.ext_values[d] if d in w.ext_values else Ext(d)
        if isinstance(obj, ClassRef):
            if attr in ("__name__", "__qualname__"):
                return obj.name
            if attr == "mro":
                return lambda: list(self._mro(obj))
            if attr == "__module__":
                return obj.module.name
            for cr in self._mro(obj):
                h = w.class_hooks.get((cr.name, attr))
                if h is not None:
                    return h
                for n in cr.node.body:
                    if isinstance(n, FuncNode) and n.name == attr:
                        if "classmethod" in _decorators(n):
                            return BoundMethod(obj, FnRef(n, cr.module))
                        return FnRef(n, cr.module)
                v = self._class_attr(cr, attr, enum_owner=obj)
                if v is not _MISSING:
                    return v
            raise Unsupported(f"class {obj.name} has no attribute `{attr}` known to the model")
        if isinstance(obj, deque):
            if attr in _DEQUE_API:
                return getattr(obj, attr)
            raise Unsupported(f"deque attribute {attr}")
        if isinstance(obj, (re.Pattern, re.Match)):
            if attr in _RE_API:
                return getattr(obj, attr)
            raise Unsupported(f"re attribute {attr}")
        if isinstance(obj, (str, list, set, frozenset, dict, tuple)):
            allowed = _SAFE_METHODS.get(type(obj), set())
            if attr in allowed or (isinstance(obj, str) and attr in _EXTRA_STR):
                return getattr(obj, attr)
        raise Unsupported(f"attribute `{attr}` of {type(obj).__name__}")

    # ------------------------------------------------------------------ getattr / hasattr with a computed name
    def _getattr(self, obj: Any, name: Any, *default: Any) -> Any:
        """Builtin ``getattr``: the same lookup as ``obj.<name>`` (fields, properties, methods, class attributes).
        An attribute the model cannot find is *absent* (default / AttributeError) only when the object's class
        hierarchy is completely known (`_attr_absent`); otherwise the lookup stays undecided (Unsupported)."""
        if len(default) > 1:
            raise Raised("TypeError", "getattr expected at most 3 arguments")
        if not isinstance(name, str):
            raise Raised("TypeError", "attribute name must be string")
        try:
            return self.getattr_(obj, name)
        except Raised as r:
            if r.name == "AttributeError" and default:  # a property that raises AttributeError
                return default[0]
            raise
        except Unsupported:
            if not self._attr_absent(obj, name):
                raise
        if default:
            return default[0]
        raise Raised("AttributeError", f"object has no attribute {name}")

    def _hasattr(self, obj: Any, name: Any) -> bool:
        marker = object()
        return self._getattr(obj, name, marker) is not marker

    _ATTR_FREE_BASES = {"object", "ABC", "Protocol", "Generic"}

    def _attr_absent(self, obj: Any, attr: str) -> bool:
        """True only if ``obj`` is an instance of a repository class whose every ancestor is a repository class (or an
        attribute-free marker base), none of which customises attribute lookup or is replaced by a model hook: then the
        instance dict and the class bodies the model has read are all there is."""
        w = self.world
        if not isinstance(obj, Record) or attr in obj.__dict__ or (attr.startswith("__") and attr.endswith("__")):
            return False
        c = w.classes.get(obj._cls)
        if c is None:
            return False
        for cr in self._mro(c):
            if cr.name in w.ctor_hooks or (cr.name, attr) in w.method_hooks or (cr.name, attr) in w.class_hooks:
                return False
            if any(k.arg == "metaclass" and (dotted(k.value) or "").rsplit(".", 1)[-1] != "ABCMeta" for k in cr.node.keywords):
                return False
            for b in cr.node.bases:
                b = b.value if isinstance(b, ast.Subscript) else b
                try:
                    r = w.repo.resolve_dotted(cr.module, ast.unparse(b))
                except Exception:
                    return False
                if not ((":" in r and w.repo._has_cls(r)) or r.rsplit(".", 1)[-1].rsplit(":", 1)[-1] in self._ATTR_FREE_BASES):
                    return False
            for n in cr.node.body:
                if isinstance(n, FuncNode) and n.name in ("__getattr__", "__getattribute__"):
                    return False
                if isinstance(n, FuncNode) and n.name == attr:
                    return False
                if isinstance(n, (ast.Assign, ast.AnnAssign)) and attr in {t.id for t in ast.walk(n) if isinstance(t, ast.Name) and isinstance(t.ctx, ast.Store)}:
                    return False
        return True

    def _mro(self, c: ClassRef) -> list[ClassRef]:
        cached = getattr(c, "_mro_cache", None)
        if cached is not None:
            return cached
        out = [c]
        for r in self.world.repo.mro_names(c.ref):
            if ":" in r and self.world.repo._has_cls(r):
                mm, cc = self.world.repo.cls(r)
                out.append(self._classref(r, mm, cc))
        c._mro_cache = out  # type: ignore[attr-defined]
        return out

    def _is_enum(self, c: ClassRef) -> bool:
        names = [b.rsplit(".", 1)[-1].rsplit(":", 1)[-1] for b in self.world.repo.mro_names(c.ref)]
        return any(n in ("Enum", "IntEnum", "StrEnum") for n in names)

    def _class_attr(self, cr: ClassRef, attr: str, enum_owner: ClassRef | None = None) -> Any:
        for n in cr.node.body:
            val = None
            if isinstance(n, ast.Assign) and any(isinstance(t, ast.Name) and t.id == attr for t in n.targets):
                val = n.value
            elif isinstance(n, ast.AnnAssign) and isinstance(n.target, ast.Name) and n.target.id == attr and n.value is not None:
                val = n.value
            if val is not None:
                if self._is_enum(cr):
                    key = (cr.ref, attr)
                    if key not in self.world._enum:
                        self.world._enum[key] = Record(cr.name, name=attr, value=XInterp(self.world, cr.module).eval(val, {}))
                    return self.world._enum[key]
                return XInterp(self.world, cr.module).eval(val, {})
        return _MISSING

    # ------------------------------------------------------------------ isinstance
    def _isinstance(self, obj: Any, cls: Any) -> bool:
        names = cls if isinstance(cls, tuple) else (cls,)
        for n in names:
            if isinstance(n, type):
                if isinstance(obj, n) and not isinstance(obj, (Record, ModelObject)):
                    return True
                continue
            nm = _exc_name(n)
            if isinstance(obj, Record):
                if nm == obj._cls:
                    return True
                c = self.world.classes.get(obj._cls)
                if c is not None and nm in [x.name for x in self._mro(c)]:
                    return True
                if nm in getattr(obj, "_bases", ()):
                    return True
            elif isinstance(obj, FakeDT) and nm == "datetime":
                return True
            elif isinstance(obj, Raised) and (nm == obj.name or nm in ("Exception", "BaseException")):
                return True
        return False

    def _type(self, obj: Any) -> Any:
        if isinstance(obj, Record) and obj._cls in self.world.classes:
            return self.world.classes[obj._cls]
        raise Unsupported("type() of a value that is not an instance of a repository class")

    def _issubclass(self, a: Any, b: Any) -> bool:
        bs = b if isinstance(b, tuple) else (b,)
        if not isinstance(a, ClassRef):
            raise Unsupported("issubclass on a value that is not a repository class")
        mro = self._mro(a)
        ext = [x.rsplit(".", 1)[-1].rsplit(":", 1)[-1] for x in self.world.repo.mro_names(a.ref)]
        for x in bs:
            if isinstance(x, ClassRef) and any(c.node is x.node for c in mro):
                return True
            if isinstance(x, Ext) and x.dotted.rsplit(".", 1)[-1] in ext:
                return True
        return False

    # ------------------------------------------------------------------ calls
    def apply(self, f: Any, args: list, kw: dict) -> Any:
        if isinstance(f, FnRef):
            return self.call_fn(f, None, args, kw)
        if isinstance(f, BoundMethod):
            return self.call_fn(f.fn, f.recv, args, kw)
        if isinstance(f, ClassRef):
            return self.construct(f, args, kw)
        if isinstance(f, Ext):
            h = self.world.ext_calls.get(f.dotted)
            if h is None:
                raise Unsupported(f"call of external `{f.dotted}` has no model")
            return h(*args, **kw)
        if isinstance(f, tuple) and f and f[0] == "__fn__":
            return self.call_fn(FnRef(f[1], self.module, f[2]), None, args, kw)
        if f is self._isinstance or (getattr(f, "__func__", None) is XInterp._isinstance):
            return self._isinstance(*args)
        return super().apply(f, args, kw)

    def call_fn(self, fr: FnRef, recv: Any, args: list, kw: dict, stream: bool = False) -> Any:
        """``stream``: the callee is a generator whose yields go to the world's sink as they happen
        (the rule drives it); otherwise a generator is run eagerly and its yields returned as a list."""
        fn = fr.node
        a = fn.args
        if a.vararg is not None or a.kwarg is not None:
            raise Unsupported(f"*args/**kwargs in `{fn.name}`")
        pos = [p.arg for p in a.posonlyargs + a.args]
        env: dict[str, Any] = fr.closure if fr.closure is not None else {}
        env = dict(env)
        actual = list(args)
        if recv is not None:
            actual = [recv] + actual
        if len(actual) > len(pos):
            raise Raised("TypeError", f"{fn.name}() takes {len(pos)} positional arguments but {len(actual)} were given")
        bound = dict(zip(pos, actual))
        for k, v in kw.items():
            if k in bound:
                raise Raised("TypeError", f"{fn.name}() got multiple values for argument {k}")
            if k not in pos and k not in [p.arg for p in a.kwonlyargs]:
                raise Raised("TypeError", f"{fn.name}() got an unexpected keyword argument {k}")
            bound[k] = v
        defaults = dict(zip(pos[len(pos) - len(a.defaults):], a.defaults)) if a.defaults else {}
        for p, d in zip(a.kwonlyargs, a.kw_defaults):
            if d is not None:
                defaults[p.arg] = d
        sub = XInterp(self.world, fr.module)
        for p in pos + [p.arg for p in a.kwonlyargs]:
            if p not in bound:
                if p not in defaults:
                    raise Raised("TypeError", f"{fn.name}() missing argument {p}")
                bound[p] = sub.eval(defaults[p], env)
        env.update(bound)
        self.world.trace_calls.append(fn.name)
        if _is_generator(fn) and not stream:
            def run_gen() -> list:
                collected: list = []
                saved = self.world.yield_sink
                self.world.yield_sink = collected.append
                try:
                    sub.exec_block(fn.body, env)
                except _Return:
                    pass
                finally:
                    self.world.yield_sink = saved
                return collected

            if {"contextmanager", "asynccontextmanager"} & _decorators(fn):
                # run to completion before the body (its cleanup only closes model connections)
                return CtxGen(run_gen())
            return LazyGen(run_gen)
        try:
            sub.exec_block(fn.body, env)
        except _Return as r:
            return r.v
        return None

    def construct(self, c: ClassRef, args: list, kw: dict) -> Any:
        w = self.world
        c = self._classref(c.ref, c.module, c.node)
        h = w.ctor_hooks.get(c.name)
        if h is not None:
            return h(*args, **kw)
        mro = self._mro(c)
        plan = getattr(c, "_ctor_plan", None)
        if plan is None:
            init = None
            for cr in mro:
                for n in cr.node.body:
                    if isinstance(n, FuncNode) and n.name == "__init__" and init is None:
                        init = FnRef(n, cr.module)
            flds: list[tuple[str, ast.AST | None, Module]] = []
            for cr in reversed(mro):
                for n in cr.node.body:
                    if isinstance(n, ast.AnnAssign) and isinstance(n.target, ast.Name):
                        if ast.unparse(n.annotation).startswith("ClassVar"):
                            continue
                        flds = [f for f in flds if f[0] != n.target.id] + [(n.target.id, n.value, cr.module)]
            plan = (init, flds)
            c._ctor_plan = plan  # type: ignore[attr-defined]
        init, fields = plan
        if init is not None:
            rec = Record(c.name)
            self.call_fn(init, rec, args, kw)
            return rec
        if not fields and (args or kw):
            raise Unsupported(f"construction of `{c.name}` (no declared fields)")
        names = [f[0] for f in fields]
        if len(args) > len(names):
            raise Raised("TypeError", f"{c.name}() takes {len(names)} positional arguments")
        vals = dict(zip(names, args))
        for k, v in kw.items():
            if k not in names:
                raise Raised("TypeError", f"{c.name}() got an unexpected keyword argument {k}")
            vals[k] = v
        for name, default, mod in fields:
            if name not in vals:
                if default is None:
                    raise Raised("TypeError", f"{c.name}() missing field {name}")
                vals[name] = XInterp(w, mod).eval(default, {})
        return Record(c.name, **vals)

    # ------------------------------------------------------------------ await / yield
    def e_Await(self, e: ast.Await, env: dict) -> Any:
        v = self.eval(e.value, env)
        if self.world.await_hook is not None:
            return self.world.await_hook(v)
        return v

    def e_Yield(self, e: ast.Yield, env: dict) -> Any:
        v = self.eval(e.value, env) if e.value is not None else None
        if self.world.yield_sink is None:
            raise Unsupported("yield outside a modelled generator")
        return self.world.yield_sink(v)

    def e_NamedExpr(self, e: ast.NamedExpr, env: dict) -> Any:
        v = self.eval(e.value, env)
        self.assign(e.target, v, env)
        return v

    # ------------------------------------------------------------------ statements
    def exec(self, s: ast.stmt, env: dict) -> None:
        if isinstance(s, (ast.With, ast.AsyncWith)):
            return self._with(s, env)
        if isinstance(s, ast.Delete):
            for t in s.targets:
                if isinstance(t, ast.Subscript):
                    obj = self.eval(t.value, env)
                    k = self.eval(t.slice, env)
                    try:
                        del obj[k]
                    except KeyError as x:
                        raise Raised("KeyError", str(x))
                    except IndexError as x:
                        raise Raised("IndexError", str(x))
                elif isinstance(t, ast.Name):
                    env.pop(t.id, None)
                elif isinstance(t, ast.Attribute):
                    obj = self.eval(t.value, env)
                    if not isinstance(obj, Record):
                        raise Unsupported("del of attribute on a non-record")
                    obj.__dict__.pop(t.attr, None)
                else:
                    raise Unsupported("del target")
            return None
        if isinstance(s, ast.AsyncFor):
            f = ast.For(target=s.target, iter=s.iter, body=s.body, orelse=s.orelse)
            ast.copy_location(f, s)
            return super().exec(f, env)
        if isinstance(s, ast.AsyncFunctionDef):
            env[s.name] = ("__fn__", s, env)
            return None
        if isinstance(s, ast.Raise) and s.exc is not None:
            # `raise SomeError(...)`: keep the class name; arguments are evaluated for effects only when simple
            e = s.exc.func if isinstance(s.exc, ast.Call) else s.exc
            raise Raised(ast.unparse(e).split(".")[-1], ast.unparse(s.exc)[:80])
        if isinstance(s, ast.Raise) and s.exc is None and "__exc__" in env:
            raise env["__exc__"]
        if isinstance(s, ast.Try):
            return self._try(s, env)
        return super().exec(s, env)

    def _try(self, s: ast.Try, env: dict) -> None:
        try:
            try:
                self.exec_block(s.body, env)
            except Raised as r:
                for h in s.handlers:
                    names = []
                    if h.type is not None:
                        for e in h.type.elts if isinstance(h.type, ast.Tuple) else [h.type]:
                            names.append(ast.unparse(e).split(".")[-1])
                    if h.type is None or r.name in names or "Exception" in names or "BaseException" in names or _exc_sub(r.name, names):
                        if h.name:
                            env[h.name] = r
                        saved = env.get("__exc__")
                        env["__exc__"] = r
                        try:
                            self.exec_block(h.body, env)
                        finally:
                            if saved is None:
                                env.pop("__exc__", None)
                            else:
                                env["__exc__"] = saved
                        break
                else:
                    raise
            else:
                self.exec_block(s.orelse, env)
        finally:
            self.exec_block(s.finalbody, env)

    def _with(self, s: ast.AST, env: dict) -> None:
        is_async = isinstance(s, ast.AsyncWith)
        cms = []
        for item in s.items:
            cm = self.eval(item.context_expr, env)
            if isinstance(cm, ModelObject) and hasattr(cm, "_enter"):
                val = cm._enter(self, is_async)
            elif isinstance(cm, ModelObject):
                val = cm
            else:
                raise Unsupported(f"context manager `{ast.unparse(item.context_expr)[:50]}` has no model")
            cms.append(cm)
            if item.optional_vars is not None:
                self.assign(item.optional_vars, val, env)
        try:
            self.exec_block(s.body, env)
        except Raised as r:
            swallowed = False
            for cm in reversed(cms):
                if hasattr(cm, "_exit") and cm._exit(self, None if swallowed else r):
                    swallowed = True
            if not swallowed:
                raise
        except BaseException:
            for cm in reversed(cms):
                if hasattr(cm, "_exit"):
                    cm._exit(self, None)
            raise
        else:
            for cm in reversed(cms):
                if hasattr(cm, "_exit"):
                    cm._exit(self, None)


_MISSING = object()

_EXC_PARENTS = {
    "TimeoutError": {"OSError"}, "KeyError": {"LookupError"}, "IndexError": {"LookupError"},
    "OperationalError": {"DatabaseError", "Error"}, "IntegrityError": {"DatabaseError", "Error"}, "ProgrammingError": {"DatabaseError", "Error"},
    "JSONDecodeError": {"ValueError"}, "OverflowError": {"ArithmeticError"}, "ZeroDivisionError": {"ArithmeticError"},
}


def _exc_sub(name: str, handler_names: list[str]) -> bool:
    return bool(_EXC_PARENTS.get(name, set()) & set(handler_names))


def _anc(node: ast.AST):
    p = parent(node)
    while p is not None:
        yield p
        p = parent(p)


def model_unsupported(rule: str, what: str, e: Exception) -> AnchorError:
    return AnchorError(f"{rule}: {what} uses a construct the model does not interpret ({e}); the rule cannot decide")


# =====================================================================================================
# Part C — the C28 rules
# =====================================================================================================

EXPLANATION = (
    "Static rules over llama_agents/server/_store/sqlite/migrate.py, migration_utils.py and migrations/*.sql (the .sql files are read "
    "as text by a DDL reader; the Python functions are interpreted as ASTs by sa.absint extended in this module; nothing is imported or run). "
    "R1 (exhaustive over starting points): for every start state — fresh database; every prefix 1..j of the scripts as applied by "
    "`run_migrations` itself when only those j files existed; every legacy database with the first j scripts applied, `PRAGMA user_version` = "
    "version of script j and no `schema_migrations` table; every legacy database already bootstrapped at j — the interpreted `run_migrations` "
    "(with `_bootstrap_schema_migrations`, `iter_migration_files`, `parse_target_version` interpreted too, directory listing given in reverse "
    "order) applied to a model connection whose schema is the abstract DDL state meets no statement that SQLite would reject in that state "
    "(CREATE of an existing table/index without IF NOT EXISTS, ADD COLUMN of an existing column or NOT NULL without default, index on a "
    "missing column, missing table), ends in the same abstract schema as the fresh run, leaves exactly one `schema_migrations` row per script "
    "version for the package, and a second run executes no state-changing statement. "
    "R2 (bookkeeping on failure): with a failing statement injected at the end of script i (every i), the exception propagates, the "
    "database state equals the state after scripts < i (partial DDL rolled back, version i not recorded) and no transaction stays open. "
    "R3: every *.sql file carries a version header that `parse_target_version` reads, versions are 1..N without duplicates in file-name "
    "order; every table/column named by SQL text in sqlite_workflow_store.py / sqlite_state_store.py and by the bookkeeping SQL of "
    "migrate.py exists in the final abstract schema. "
    "R4 (released baseline): for every released version k of fixtures/c28/baseline/sqlite.json (abstract database states computed by this "
    "module's interpreter from the scripts of the confirmed tree: tables, columns, indexes, schema_migrations rows, user_version; no script "
    "text) and each form a deployment can have (tracked in schema_migrations; legacy `PRAGMA user_version = k` without schema_migrations; "
    "legacy already bootstrapped), the interpreted current `run_migrations` over the *current* scripts meets no inapplicable statement, ends "
    "in the abstract schema of the fresh run, records every current version once and a second run is a no-op. A script that a database has "
    "recorded is never run again, so any edit of a released script that changes what it builds (statement moved between released scripts, "
    "added, dropped, column definition changed) leaves upgraded databases different from fresh ones unless a new script compensates; comment/"
    "layout edits, renamed files and compensating new scripts pass; scripts newer than the baseline only extend the fresh-run target. "
    "R5 (durability of the bookkeeping): the model connection carries the transaction state of a connection as `sqlite3.connect(path)` returns it "
    "(the sqlite3 module opens a transaction before INSERT/UPDATE/DELETE/REPLACE given to execute/executemany when none is open; DDL, SELECT, PRAGMA "
    "open none; executescript commits a pending transaction first and runs its text as written; commit()/COMMIT/`with conn:` end it). For every start "
    "state of R1 and every released state of R4, when the interpreted `run_migrations` returns normally, the state a *new* connection would find after "
    "this one is closed without a commit (open transaction rolled back) has the same schema and the same schema_migrations rows as the state the run "
    "itself saw. Necessary: `run_migrations(conn)` is called with a plain connection that is closed right after without a commit "
    "(llama_agents.dbos.runtime:DBOSRuntime.run_migrations; callers are listed in the evidence), so rows the runner leaves in an open transaction are "
    "lost; the next start finds the schema_migrations table (bootstrap returns early) without the versions, re-runs script 1 and fails in script 2 — "
    "'records every version once' and 'running them again changes nothing' are both broken. The fault only shows on paths where no later statement of "
    "the runner commits as a side effect (legacy database already at the newest version: nothing pending), which is why every start state is run. "
    "How the commit is written (conn.commit(), COMMIT, with-block, once at the end of run_migrations) does not matter. The failure path is R2's "
    "(no transaction stays open after a failed script). "
    "Not decided: SQLite's own behaviour (WAL fallback, locking, transactional DDL, the sqlite3 module's implicit BEGIN/COMMIT are modelled, not verified); "
    "connections opened in another transaction mode (isolation_level=None / autocommit=True: R5 refuses to decide when a caller of the runner passes either); "
    "databases whose schema was produced by anything other than these scripts or the released scripts of the baseline (R4 is as good as the "
    "baseline: releases older than the confirmed tree are not in it); the Postgres migrations."
)
TRUSTED = [
    "CPython ast, re",
    "SQLite semantics as modelled by sqlmini in this module (DDL applicability rules, transactional DDL, executescript commits a pending transaction first, "
    "implicit transaction before DML on a default-mode connection, an open transaction is rolled back when the connection is closed); "
    "the model is cross-checked against CPython's sqlite3 on the statement kinds used (checker validation, not a check of /repo)",
    "importlib.resources lists exactly the files of the migrations directory",
]
LEVEL_TEXT = "exhaustive symbolic execution of the migration runner over all start states (abstract DDL schema), necessary conditions only"
LEVEL_NOTE = "a pass means the decided clauses hold for schemas produced by these scripts; SQLite engine behaviour is trusted/modelled"
TECHNIQUE = "AST interpretation (abstract interpretation over a DDL-schema domain) + SQL DDL reader; finite start-state space enumerated completely"

MIG = "llama_agents.server._store.sqlite.migrate"
UTIL = "llama_agents.server._store.migration_utils"
SQL_USERS = ["llama_agents.server._store.sqlite.sqlite_workflow_store", "llama_agents.server._store.sqlite.sqlite_state_store"]
FIXTURE_DIR = "fixtures/c28"
_FAIL_STMT = "\nALTER TABLE verif_no_such_table ADD COLUMN verif_x TEXT;\n"


class FileModel(ModelObject):
    _api = frozenset({"name", "read_text", "suffix", "stem"})

    def __init__(self, name: str, text: str, flags: list):
        self.name, self._text, self._flags = name, text, flags
        self.suffix = "." + name.rsplit(".", 1)[-1] if "." in name else ""
        self.stem = name.rsplit(".", 1)[0]

    def read_text(self, *a: Any, **k: Any) -> str:
        return self._text


class DirModel(ModelObject):
    _api = frozenset({"iterdir", "glob", "joinpath"})

    def __init__(self, files: list[FileModel]):
        self.files = files

    def iterdir(self) -> list[FileModel]:
        return list(self.files)

    def glob(self, pattern: str) -> list[FileModel]:
        import fnmatch

        return [f for f in self.files if fnmatch.fnmatch(f.name, pattern)]


class MigrationSet:
    """The migration directory as the runner sees it."""

    def __init__(self, entries: list[tuple[str, str]]):
        self.entries = sorted(entries)  # (file name, text), including non-.sql entries
        self.sql = [(n, t) for n, t in self.entries if n.endswith(".sql")]


def _bind_migrations(repo: Any, w: World) -> tuple[str, MigrationSet]:
    m = repo.module(MIG)
    try:
        pkg = w.interp(m).global_lookup(m, "_MIGRATIONS_PKG")
    except Unsupported as e:
        raise AnchorError(f"C28: cannot evaluate `_MIGRATIONS_PKG` in {m.rel}: {e}")
    if not isinstance(pkg, str) or pkg not in repo.modules:
        raise AnchorError(f"C28: `_MIGRATIONS_PKG` = {pkg!r} does not name a package of the repository")
    d = repo.modules[pkg].rel.rsplit("/", 1)[0]
    entries = []
    for rel in repo.glob(d + "/*"):
        name = rel.rsplit("/", 1)[-1]
        if name.endswith(".pyc") or name.startswith("__pycache__"):
            continue
        try:
            entries.append((name, repo.read_text(rel)))
        except (AnchorError, UnicodeDecodeError):
            continue  # a directory or a binary file: never a migration
    return pkg, MigrationSet(entries)


# ---------------------------------------------------------------------------- transaction state (R5)

_DML_KINDS = ("insert", "update", "delete")


class TxnDB(MiniDB):
    """MiniDB + the transaction control of a connection as `sqlite3.connect(path)` returns it (legacy `isolation_level=""`):
    before an INSERT/UPDATE/DELETE/REPLACE given to `execute`/`executemany` the sqlite3 module opens a transaction when none is
    open (also for `executemany` over an empty sequence); DDL, SELECT and PRAGMA open none; `executescript` commits a pending
    transaction first and then runs its statements as written (no implicit BEGIN).  `_snap` (inherited) is the last committed
    state while a transaction is open, i.e. exactly what a new connection sees after this one is closed without a commit.
    Cross-checked against CPython 3.12 sqlite3 (checker validation; nothing of /repo is run)."""

    def __init__(self) -> None:
        super().__init__()
        self.implicit_opened = 0  # transactions the sqlite3 module opened for a DML statement outside BEGIN…COMMIT
        self.opened_by: str | None = None  # what opened the transaction that is open now
        self._in_script = False

    def begin_implicit(self, what: str) -> None:
        if self._snap is None and not self._in_script:
            self._snap = self.snapshot()
            self.implicit_opened += 1
            self.opened_by = f"{what} (transaction opened implicitly by the sqlite3 module)"

    def script(self, text: str) -> None:
        self._in_script = True
        try:
            super().script(text)
        finally:
            self._in_script = False

    def run(self, st: dict, params: list) -> list[tuple]:
        k = st["kind"]
        if k in _DML_KINDS:
            self.begin_implicit(f"{k.upper()} on `{st.get('table')}`")
        elif k == "txn" and st["what"] == "BEGIN" and self._snap is None:
            self.opened_by = "BEGIN"
        return super().run(st, params)

    def settle(self) -> None:
        """A caller that commits after the runner returned (SqliteWorkflowStore does): whatever is open becomes durable."""
        self._snap = None

    def uncommitted(self) -> str:
        """What the open transaction holds, as a difference of the visible state to the last committed one."""
        if self._snap is None:
            return ""
        schema0, data0, uv0 = self._snap
        out = []
        def key(r: dict) -> tuple:
            return tuple(sorted((k, repr(v)) for k, v in r.items()))

        def show(rs: list[dict]) -> list:
            cols = [c for c in ("package", "version") if c in rs[0]] or sorted(rs[0])
            return [tuple(r.get(c) for c in cols) for r in rs][:8]

        for t in sorted(set(data0) | set(self.data)):
            was, now = {key(r) for r in data0.get(t, [])}, {key(r) for r in self.data.get(t, [])}
            new = [r for r in self.data.get(t, []) if key(r) not in was]
            gone = [r for r in data0.get(t, []) if key(r) not in now]
            if new or gone:
                out.append(f"`{t}`: " + ", ".join(x for x in (f"+{len(new)} row(s) {show(new)}" if new else "", f"-{len(gone)} row(s) {show(gone)}" if gone else "") if x))
        if schema0.canon() != self.schema.canon():
            out.append("schema: " + self.schema.diff(schema0))
        if uv0 != self.user_version:
            out.append(f"user_version {uv0}->{self.user_version}")
        return "; ".join(out) or "no visible change"

    def reopened(self) -> "TxnDB":
        """The database a new connection finds after this connection is closed as it is (open transaction rolled back)."""
        db = TxnDB()
        db.assume_rows, db.adversarial_order = self.assume_rows, self.adversarial_order
        db.restore(self._snap if self._snap is not None else self.snapshot())
        return db


class TxnCursor(FakeCursor):
    def executemany(self, sql: str, seq: Any) -> "FakeCursor":
        if isinstance(sql, str) and isinstance(self.db, TxnDB):
            st = parse_one(sql)
            if st["kind"] in _DML_KINDS:
                self.db.begin_implicit(f"{st['kind'].upper()} on `{st.get('table')}` (executemany)")
        return super().executemany(sql, list(seq))


class TxnConn(FakeConn):
    """Connection over a TxnDB; `with conn:` commits on success and rolls back on an exception (it does not close)."""

    _api = FakeConn._api | frozenset({"executemany"})

    def cursor(self) -> FakeCursor:
        return TxnCursor(self.db)

    def execute(self, sql: str, params: Any = ()) -> FakeCursor:
        return TxnCursor(self.db).execute(sql, params)

    def executemany(self, sql: str, seq: Any) -> FakeCursor:
        return TxnCursor(self.db).executemany(sql, seq)

    def executescript(self, sql: str) -> FakeCursor:
        return TxnCursor(self.db).executescript(sql)

    def _enter(self, interp: Any, is_async: bool) -> Any:
        return self

    def _exit(self, interp: Any, exc: Any) -> bool:
        if exc is None:
            self.commit()
        else:
            self.rollback()
        return False


class Runner:
    """Interprets `run_migrations` of the analysed tree against model databases."""

    def __init__(self, repo: Any, pkg: str | None = None):
        self.repo = repo
        self.pkg = pkg
        self.flags: list[str] = []

    def world(self, files: list[tuple[str, str]], order: str) -> World:
        w = World(self.repo, max_steps=400_000)
        fl = [FileModel(n, t, self.flags) for n, t in files]
        fl = list(reversed(fl)) if order == "reversed" else fl
        w.ext_calls["importlib.import_module"] = lambda name: ("pkg", name)
        w.ext_calls["importlib.resources.files"] = lambda p: DirModel(fl)
        w.ext_calls["importlib.resources.contents"] = lambda p: [f.name for f in fl]
        return w

    def run(self, db: MiniDB, files: list[tuple[str, str]], order: str = "reversed") -> None:
        w = self.world(files, order)
        w.call(f"{MIG}:run_migrations", TxnConn(db) if isinstance(db, TxnDB) else FakeConn(db))

    def versions(self, files: list[tuple[str, str]]) -> list[Any]:
        w = self.world(files, "sorted")
        return [w.call(f"{UTIL}:parse_target_version", t) for _n, t in files]


def _migration_rows(db: MiniDB, package: str = "server") -> list[Any]:
    if "schema_migrations" not in db.schema.tables:
        return []
    cols = db.schema.columns("schema_migrations")
    if "package" not in cols or "version" not in cols:
        raise AnchorError("C28: `schema_migrations` has no package/version columns")
    return sorted(r["version"] for r in db.data.get("schema_migrations", []) if r.get("package") == package)


def _fresh() -> TxnDB:
    db = TxnDB()
    db.assume_rows = True
    return db


# ---------------------------------------------------------------------------- released baseline (R4)

BASELINE_REL = FIXTURE_DIR + "/baseline/sqlite.json"
BASELINE_FORMS = ("tracked", "legacy", "bootstrapped")
_COL_FIELDS = ("name", "typ", "constraints", "notnull", "default", "has_default", "pk", "unique", "autoinc")


def _enc(v: Any) -> Any:
    if isinstance(v, tuple):
        return {"tuple": [_enc(x) for x in v]}
    if isinstance(v, list):
        return [_enc(x) for x in v]
    if isinstance(v, dict):
        return {"dict": {str(k): _enc(x) for k, x in v.items()}}
    if v is None or isinstance(v, (str, int, float, bool)):
        return v
    raise AnchorError(f"C28.R4: value {v!r} of the abstract state cannot be stored in the baseline")


def _dec(v: Any) -> Any:
    if isinstance(v, list):
        return [_dec(x) for x in v]
    if isinstance(v, dict):
        if set(v) == {"tuple"}:
            return tuple(_dec(x) for x in v["tuple"])
        if set(v) == {"dict"}:
            return {k: _dec(x) for k, x in v["dict"].items()}
        raise AnchorError(f"C28.R4: malformed baseline value {v!r}")
    return v


def dump_state(db: MiniDB) -> dict:
    """The abstract state of a model database as plain JSON (schema, non-empty tables' rows, user_version)."""
    tables = {}
    for n, d in sorted(db.schema.tables.items()):
        tables[n] = {"cols": [{f: _enc(getattr(c, f)) for f in _COL_FIELDS} for c in d["cols"]], "pk": list(d["pk"]),
                     "uniques": [list(u) for u in d["uniques"]], "extra": list(d["extra"])}
    indexes = {n: {"table": v[0], "cols": list(v[1]), "unique": bool(v[2])} for n, v in sorted(db.schema.indexes.items())}
    rows = {t: [{k: _enc(x) for k, x in sorted(r.items())} for r in rs] for t, rs in sorted(db.data.items()) if rs}
    return {"tables": tables, "indexes": indexes, "rows": rows, "user_version": db.user_version}


def load_state(st: dict) -> MiniDB:
    try:
        db = _fresh()
        for n, d in st["tables"].items():
            cols = [Col(*[_dec(c[f]) for f in _COL_FIELDS]) for c in d["cols"]]
            db.schema.tables[n] = {"cols": cols, "pk": tuple(d["pk"]), "uniques": [tuple(u) for u in d["uniques"]], "extra": list(d["extra"])}
            db.data[n] = []
        for n, v in st["indexes"].items():
            db.schema.indexes[n] = (v["table"], tuple(v["cols"]), bool(v["unique"]))
        for t, rs in st["rows"].items():
            db.data[t] = [{k: _dec(x) for k, x in r.items()} for r in rs]
        db.user_version = int(st["user_version"])
        return db
    except (KeyError, TypeError, ValueError) as e:
        raise AnchorError(f"C28.R4: malformed baseline state ({e!r}); regenerate with bin/gen_c28_baseline on the confirmed tree")


def compute_baseline(repo: Any) -> dict:
    """Per released version k of the given tree: the abstract database states a deployment of that release can be in
    (tracked / legacy user_version / legacy bootstrapped), computed by this module's interpreter.  Used by bin/gen_c28_baseline only."""
    _pkg, ms = _bind_migrations(repo, World(repo))
    rn = Runner(repo)
    vers = rn.versions(ms.sql)
    if vers != list(range(1, len(vers) + 1)):
        raise AnchorError(f"C28: baseline tree has versions {vers}, not 1..N")
    other = [e for e in ms.entries if not e[0].endswith(".sql")]
    states = []
    for j in range(1, len(ms.sql) + 1):
        subset = other + ms.sql[:j]
        tracked = _fresh()
        rn.run(tracked, subset)
        legacy = _fresh()
        for _n, t in ms.sql[:j]:
            legacy.script(t)
        legacy.user_version = vers[j - 1]
        booted = load_state(dump_state(legacy))
        rn.run(booted, subset)
        states.append({"version": vers[j - 1], "tracked": dump_state(tracked), "legacy": dump_state(legacy), "bootstrapped": dump_state(booted)})
    return {"migrator": "sqlite", "states": states}


def load_baseline(rel: str = BASELINE_REL) -> dict:
    import json

    from ..report import VERIF

    p = VERIF / rel
    if not p.is_file():
        raise AnchorError(f"C28.R4: released baseline {p} is missing (bin/gen_c28_baseline writes it from the confirmed tree)")
    try:
        b = json.loads(p.read_text())
        vs = [s["version"] for s in b["states"]]
    except (ValueError, KeyError, TypeError) as e:
        raise AnchorError(f"C28.R4: released baseline {p} is unreadable: {e!r}")
    if vs != list(range(1, len(vs) + 1)) or any(f not in s for s in b["states"] for f in BASELINE_FORMS):
        raise AnchorError(f"C28.R4: released baseline {p} does not hold versions 1..K in the forms {BASELINE_FORMS}")
    return b


def runner_callers(repo: Any) -> list[tuple[str, bool]]:
    """Call sites of the SQLite `run_migrations` in the repository's sources (resolved through imports, aliases included):
    (`module:function`, whether that function calls `.commit()` on the connection it handed over, after the call)."""
    out = []
    target = f"{MIG}:run_migrations"
    for rel in sorted(repo.by_rel):
        m = repo.by_rel[rel]
        if not any(v.endswith("run_migrations") for v in m.imports.values()):
            continue
        for c in ast.walk(m.tree):
            if not (isinstance(c, ast.Call) and isinstance(c.func, ast.Name) and c.args and repo.resolve_dotted(m, c.func.id) == target):
                continue
            fn = enclosing_function(c)
            recv = ast.unparse(c.args[0])
            commits = fn is not None and any(
                isinstance(k, ast.Call) and isinstance(k.func, ast.Attribute) and k.func.attr == "commit" and ast.unparse(k.func.value) == recv
                and (k.lineno, k.col_offset) > (c.lineno, c.col_offset) for k in ast.walk(fn))
            out.append((f"{m.name}:{qualname_of(fn) if fn is not None else '<module>'}", bool(commits)))
    return out


def nondefault_connects(repo: Any) -> list[str]:
    """`connect(...)` calls that choose a transaction mode (`isolation_level=` / `autocommit=`) in modules that call the SQLite runner:
    R5's model is the default mode, so it must not decide for them."""
    out = []
    target = f"{MIG}:run_migrations"
    for rel in sorted(repo.by_rel):
        m = repo.by_rel[rel]
        if not any(repo.resolve_dotted(m, k) == target for k, v in m.imports.items() if v.endswith("run_migrations")):
            continue
        for c in ast.walk(m.tree):
            if isinstance(c, ast.Call) and last(call_name(c)) == "connect" and any(k.arg in ("isolation_level", "autocommit") for k in c.keywords):
                out.append(f"{m.rel}:{c.lineno}")
    return out


_R4_WHY = ("; a database that the released scripts left at version {k} has recorded those versions and never runs them again, so what an edited "
           "released script now builds reaches fresh databases only: leave released scripts as they were and put the change into a new script")


def analyse_set(repo: Any, ms: MigrationSet, label: str, baseline: dict | None = None) -> dict:
    """All R1/R2/R3-header (and, given the released baseline, R4) verdicts for one migration set: {'checked': [(rule, instance, text, ok, why)], ...}."""
    res: dict = {"problems": [], "checked": [], "states": 0, "released_states": 0, "final": None, "durable_states": 0, "implicit_states": 0}
    relying = [c for c, commits in runner_callers(repo) if not commits]
    rn = Runner(repo)
    sql = ms.sql
    n = len(sql)
    try:
        vers = rn.versions(sql)
    except Unsupported as e:
        raise model_unsupported("C28.R3", "`parse_target_version`", e)
    # ---- R3 headers
    for (name, _t), v in zip(sql, vers):
        ok = isinstance(v, int) and v > 0
        res["checked"].append(("C28.R3", f"header:{name}", f"`{name}` carries a version header readable by parse_target_version (got {v!r})", ok,
                               "" if ok else "file has no readable `-- migration: N` header: run_migrations skips it silently, its statements are never applied"))
    good = [v for v in vers if isinstance(v, int) and v > 0]
    okseq = good == list(range(1, len(good) + 1)) and len(good) == n
    res["checked"].append(("C28.R3", "header-sequence", f"versions in file-name order are 1..{n} without gaps or duplicates (got {vers})", okseq,
                           "" if okseq else f"versions {vers} are not 1..{n} in file-name order: a duplicate is skipped as already applied, a gap/disorder breaks the legacy user_version seeding 1..j"))
    # ---- R1 start states
    def guarded(what: str, f: Callable[[], Any]) -> tuple[bool, str]:
        try:
            f()
            return True, ""
        except Raised as r:
            return False, f"{what}: {r}"
        except SqlUnsupported as e:
            raise AnchorError(f"C28.R1: {what}: SQL outside the reader's subset: {e}")
        except Unsupported as e:
            raise model_unsupported("C28.R1", f"the migration runner ({what})", e)

    ref = _fresh()
    ok, why = guarded("fresh database", lambda: rn.run(ref, ms.entries))
    res["states"] += 1
    res["checked"].append(("C28.R1", "start:fresh:applies", "fresh database: every statement of every script is applicable in the state it meets", ok, why))
    ref_schema = ref.schema.copy()
    res["final"] = ref_schema
    expect_rows = sorted(v for v in vers if isinstance(v, int) and v > 0)

    def after(db: MiniDB, inst: str, desc: str, rule: str = "C28.R1", hint: str = "") -> None:
        same = db.schema.canon() == ref_schema.canon()
        res["checked"].append((rule, f"{inst}:schema", f"{desc}: final schema equals the fresh-database schema", same, "" if same else f"final schema differs (this database vs fresh): {db.schema.diff(ref_schema)}{hint}"))
        rows = _migration_rows(db)
        okr = rows == expect_rows
        res["checked"].append((rule, f"{inst}:recorded", f"{desc}: schema_migrations holds every script version exactly once ({expect_rows})", okr, "" if okr else f"recorded versions {rows}, expected {expect_rows}"))
        before, nlog = db.state_key(), len(db.log)
        ok2, why2 = guarded(f"{desc}, second run", lambda: rn.run(db, ms.entries))
        idem = ok2 and db.state_key() == before and len(db.log) == nlog
        res["checked"].append((rule, f"{inst}:rerun", f"{desc}: running the migrations again changes nothing", idem,
                               why2 or ("" if idem else f"second run executed {db.log[nlog:]} / changed the database state")))

    def durable(db: TxnDB, inst: str, desc: str) -> None:
        """R5: what this run did to the schema and to schema_migrations is committed when run_migrations returns."""
        res["durable_states"] += 1
        res["implicit_states"] += 1 if db.implicit_opened else 0
        okd, why = True, ""
        if db._snap is not None:
            lost = db.reopened()
            okd = lost.schema.canon() == db.schema.canon() and lost.data.get("schema_migrations", []) == db.data.get("schema_migrations", [])
            if not okd:
                held, by, found = db.uncommitted(), db.opened_by, _migration_rows(lost)
                ok2, why2 = guarded("next start", lambda: rn.run(lost, ms.entries))
                nxt = f"the next start fails ({why2})" if not ok2 else f"the next start executes {lost.log or 'nothing'} again"
                why = (f"run_migrations returned with a transaction still open (opened by {by}) that holds {held}. Nothing the runner executes on this path "
                       "commits it (only a later executescript/COMMIT of a pending script would, and none is pending here), so whether the bookkeeping survives is left to the caller: "
                       f"a caller that just closes the connection ({', '.join(relying) or 'any direct user of run_migrations'}) loses it. A new connection then finds recorded versions "
                       f"{found} instead of {_migration_rows(db)}; {nxt}. Make the runner commit its own writes on every path to its return: `conn.commit()` after the "
                       "statement(s), `with conn:` around them, or the write inside an explicit BEGIN…COMMIT")
        res["checked"].append(("C28.R5", f"{inst}:durable", f"{desc}: when run_migrations returns, what it did to the schema and to schema_migrations is committed "
                               "(no open transaction holds it for the caller to commit or lose)", okd, why))
        db.settle()  # R1/R4 go on as before: the view of a caller that does commit

    if ok:
        durable(ref, "start:fresh", "fresh database")
        after(ref, "start:fresh", "fresh database")
    for j in range(1, n + 1):
        subset = [e for e in ms.entries if not e[0].endswith(".sql")] + sql[:j]
        # (a) prefix j produced by the runner itself when only j scripts existed
        db = _fresh()
        okp, whyp = guarded(f"building prefix {j}", lambda: rn.run(db, subset))
        if okp:
            res["states"] += 1
            db.settle()
            db.implicit_opened = 0
            oka, whya = guarded(f"upgrade from prefix {j}", lambda: rn.run(db, ms.entries))
            res["checked"].append(("C28.R1", f"start:prefix{j}:applies", f"database at scripts 1..{j} (recorded in schema_migrations): remaining scripts are applicable", oka, whya))
            if oka:
                durable(db, f"start:prefix{j}", f"database at scripts 1..{j}")
                after(db, f"start:prefix{j}", f"database at scripts 1..{j}")
        # (b) legacy database: scripts 1..j applied, user_version = version of script j, no schema_migrations
        for boot in (False, True):
            db = _fresh()
            try:
                for _nm, t in sql[:j]:
                    db.script(t)
            except Raised:
                break  # already reported for the fresh start
            except SqlUnsupported as e:
                raise AnchorError(f"C28.R1: SQL outside the reader's subset: {e}")
            vj = vers[j - 1]
            if not (isinstance(vj, int) and vj > 0):
                break
            db.user_version = vj
            db.log.clear()
            inst = f"start:legacy{j}" + ("+bootstrapped" if boot else "")
            desc = f"legacy database (user_version={vj}, scripts 1..{j} applied" + (", bootstrapped by a release that had only these scripts)" if boot else ", no schema_migrations)")
            if boot:
                okb, _w = guarded(f"bootstrapping legacy {j}", lambda: rn.run(db, subset))
                if not okb:
                    continue
                db.settle()
                db.implicit_opened = 0
            res["states"] += 1
            okl, whyl = guarded(desc, lambda: rn.run(db, ms.entries))
            res["checked"].append(("C28.R1", f"{inst}:applies", f"{desc}: remaining scripts are applicable, none is re-applied", okl, whyl))
            if okl:
                durable(db, inst, desc)
                after(db, inst, desc)
    # ---- R4 released baseline: every state a released version left behind, upgraded with the current scripts
    if ok and baseline is not None:
        for st in baseline["states"]:
            k = st["version"]
            for form in BASELINE_FORMS:
                db = load_state(st[form])
                db.log.clear()
                inst = f"released:{form}{k}"
                desc = {"tracked": f"database left by the released scripts 1..{k} (recorded in schema_migrations)",
                        "legacy": f"legacy database left by the released scripts 1..{k} (user_version={k}, no schema_migrations)",
                        "bootstrapped": f"legacy database left by the released scripts 1..{k}, bootstrapped by that release"}[form]
                res["released_states"] += 1
                oku, whyu = guarded(desc, lambda: rn.run(db, ms.entries))
                hint = _R4_WHY.format(k=k)
                res["checked"].append(("C28.R4", f"{inst}:applies", f"{desc}: the current scripts it has not recorded are applicable", oku, whyu + (hint if whyu else "")))
                if oku:
                    durable(db, inst, desc)
                    after(db, inst, desc, "C28.R4", hint)
    # ---- R2 failure bookkeeping
    if ok:
        for i in range(n):
            name = sql[i][0]
            broken = [e for e in ms.entries if not e[0].endswith(".sql")] + sql[:i] + [(name, sql[i][1] + _FAIL_STMT)] + sql[i + 1:]
            before_files = [e for e in ms.entries if not e[0].endswith(".sql")] + sql[:i]
            want = _fresh()
            okw, _ = guarded("reference for failure injection", lambda: rn.run(want, before_files))
            if not okw:
                continue
            db = _fresh()
            raised = False
            try:
                rn.run(db, broken)
            except Raised:
                raised = True
            except SqlUnsupported as e:
                raise AnchorError(f"C28.R2: SQL outside the reader's subset: {e}")
            except Unsupported as e:
                raise model_unsupported("C28.R2", "the migration runner (failure path)", e)
            res["checked"].append(("C28.R2", f"fail:{i + 1}:propagates", f"a failing statement in `{name}` makes run_migrations raise", raised,
                                   "" if raised else "the failure is swallowed: later scripts run on a partially migrated schema"))
            clean = db.schema.canon() == want.schema.canon() and _migration_rows(db) == _migration_rows(want) and db._snap is None
            res["checked"].append(("C28.R2", f"fail:{i + 1}:rolled-back", f"after a failure in `{name}` the schema and schema_migrations equal the state before that script and no transaction stays open", clean,
                                   "" if clean else f"schema: {db.schema.diff(want.schema)}; recorded {_migration_rows(db)} vs {_migration_rows(want)}; open transaction: {db._snap is not None}"))
    res["flags"] = list(rn.flags)
    return res


# ---------------------------------------------------------------------------- R3: SQL text of the stores vs. final schema

_SQL_START = re.compile(r"^\s*(SELECT|INSERT|UPDATE|DELETE|REPLACE|CREATE|ALTER|DROP)\b")
_SQL_FRAG = re.compile(r"^\s*(AND|OR|WHERE|ORDER\s+BY|LIMIT|GROUP\s+BY|SET)\b|\bIS\s+(NOT\s+)?NULL\b|\bIN\s*\(")
_SQL_WORDS = {
    "AND", "OR", "NOT", "NULL", "IS", "IN", "WHERE", "ORDER", "BY", "LIMIT", "ASC", "DESC", "SET", "VALUES", "LIKE", "BETWEEN", "EXCLUDED", "AS", "ON",
    "GROUP", "HAVING", "OFFSET", "CURRENT_TIMESTAMP", "TRUE", "FALSE", "CONFLICT", "DO", "UPDATE", "NOTHING",
}


def _string_text(node: ast.AST) -> tuple[str, list[ast.AST]] | None:
    """Text of a str constant / f-string with every interpolation replaced by `?`; plus the interpolated expressions."""
    if isinstance(node, ast.Constant) and isinstance(node.value, str):
        return node.value, []
    if isinstance(node, ast.JoinedStr):
        out, holes = [], []
        for v in node.values:
            if isinstance(v, ast.Constant):
                out.append(str(v.value))
            else:
                out.append(" ? ")
                holes.append(v.value)
        return "".join(out), holes
    return None


def _is_docstring(node: ast.AST) -> bool:
    p = parent(node)
    return isinstance(p, ast.Expr) and isinstance(parent(p), FuncNode + (ast.ClassDef, ast.Module))


def sql_sites(m: Module) -> list[dict]:
    """SQL text read inside a function: a string literal / f-string written there, or a bare name that reads a module-level
    string constant (`_module_constant`: bound once, unconditionally, never rebound or shadowed) — the site is then the *use*
    in the function, the text is the constant's."""
    sites = []
    for node in ast.walk(m.tree):
        if isinstance(node, ast.Name) and isinstance(node.ctx, ast.Load) and enclosing_function(node) is not None:
            v = _module_constant(m, node.id, node)
            st = _string_text(v) if isinstance(v, ast.Constant) else None  # (an f-string at module level has no function-local holes: not read)
        elif not isinstance(node, (ast.Constant, ast.JoinedStr)):
            continue
        elif isinstance(parent(node), (ast.JoinedStr, ast.FormattedValue)) or _is_docstring(node):
            continue
        else:
            st = _string_text(node)
        if st is None:
            continue
        text, holes = st
        fn = enclosing_function(node)
        if fn is None:
            continue
        stripped = re.sub(r"^(\s*\?\s*)+", "", text)
        if _SQL_START.match(stripped) and stripped is text:
            sites.append({"node": node, "fn": fn, "text": text, "kind": "statement", "holes": holes})
        elif _SQL_START.match(text):
            sites.append({"node": node, "fn": fn, "text": text, "kind": "statement", "holes": holes})
        elif _SQL_FRAG.search(stripped):
            sites.append({"node": node, "fn": fn, "text": stripped, "kind": "fragment", "holes": holes})
    return sites


def _module_constant(m: Module, name: str, at: ast.AST) -> ast.AST | None:
    """Value expression of a module-level constant `NAME = <expr>` / `NAME: T = <expr>` read as a bare name at ``at``.
    A *constant*: not shadowed by a parameter/local/`global` of any enclosing function, bound exactly once in the whole
    module by an unconditional top-level statement, and never rebound, deleted or mutated in place anywhere in the module."""
    from ..astx import MUTATORS
    f = enclosing_function(at)
    while f is not None:
        a = f.args
        if name in {p.arg for p in a.posonlyargs + a.args + a.kwonlyargs + [x for x in (a.vararg, a.kwarg) if x is not None]}:
            return None
        f = enclosing_function(f)
    value, binder = None, None
    for st in m.tree.body:
        if isinstance(st, ast.Assign) and len(st.targets) == 1 and isinstance(st.targets[0], ast.Name) and st.targets[0].id == name:
            if binder is not None:
                return None
            value, binder = st.value, st.targets[0]
        elif isinstance(st, ast.AnnAssign) and isinstance(st.target, ast.Name) and st.target.id == name and st.value is not None:
            if binder is not None:
                return None
            value, binder = st.value, st.target
    if binder is None:
        return None
    for n in ast.walk(m.tree):
        if isinstance(n, ast.Name) and n.id == name and isinstance(n.ctx, (ast.Store, ast.Del)) and n is not binder:
            return None  # rebound somewhere (another assignment, a loop/with/except target, a local that shadows it, ...)
        if isinstance(n, (ast.Global, ast.Nonlocal)) and name in n.names:
            return None
        if isinstance(n, FuncNode + (ast.ClassDef,)) and n.name == name:
            return None
        if isinstance(n, ast.alias) and (n.asname or n.name.split(".")[0]) == name:
            return None
        if isinstance(n, ast.ExceptHandler) and n.name == name:
            return None
        if isinstance(n, ast.arg) and n.arg == name:
            return None  # a parameter of some function/lambda: keep the reading simple, one meaning per module
        if isinstance(n, ast.Call) and isinstance(n.func, ast.Attribute) and n.func.attr in MUTATORS and isinstance(n.func.value, ast.Name) and n.func.value.id == name:
            return None
        if isinstance(n, ast.Subscript) and isinstance(n.ctx, (ast.Store, ast.Del)) and isinstance(n.value, ast.Name) and n.value.id == name:
            return None
    if not isinstance(value, (ast.Tuple, ast.Constant, ast.JoinedStr)):
        # a mutable table (list literal) could be changed through an alias: it may only ever be iterated over
        # (str / number constants and f-strings are immutable values: reading them anywhere is harmless)
        for n in ast.walk(m.tree):
            if isinstance(n, ast.Name) and n.id == name and isinstance(n.ctx, ast.Load):
                p = parent(n)
                if not (isinstance(p, (ast.For, ast.AsyncFor, ast.comprehension)) and p.iter is n):
                    return None
    return value


def _table_driven(arg: ast.Name, call: ast.Call, m: Module | None = None) -> list[tuple[ast.AST, str]] | None:
    """`for column, values in [("a", x), ("b", y)]: helper(column, values)` — the constants a loop variable ranges over.
    The table is a literal in the loop header, a straight-line local bound to one, or a module-level constant
    (`_module_constant`); every row must give a string constant at the loop variable's position, and the loop variable
    must not be rebound inside the loop."""
    from ..astx import assigned_names, expand
    from ..index import parent
    p = parent(call)
    while p is not None and not isinstance(p, (ast.FunctionDef, ast.AsyncFunctionDef)):
        if isinstance(p, ast.For):
            tg = p.target
            elts = tg.elts if isinstance(tg, ast.Tuple) else [tg]
            idx = next((i for i, e in enumerate(elts) if isinstance(e, ast.Name) and e.id == arg.id), None)
            if idx is not None:
                if any(arg.id in assigned_names(st) for st in p.body):
                    return None
                it = expand(p.iter, p, depth=1)
                if isinstance(it, ast.Name) and m is not None:
                    it = _module_constant(m, it.id, p)
                if not isinstance(it, (ast.List, ast.Tuple)):
                    return None
                out = []
                for row in it.elts:
                    cell = row.elts[idx] if isinstance(tg, ast.Tuple) and isinstance(row, ast.Tuple) and len(row.elts) > idx else (row if not isinstance(tg, ast.Tuple) else None)
                    if not (isinstance(cell, ast.Constant) and isinstance(cell.value, str)):
                        return None
                    out.append((cell, cell.value))
                return out
        p = parent(p)
    return None


def _column_args(m: Module, site: dict) -> list[tuple[ast.AST, str]]:
    """Constant strings passed for a parameter of a local helper that is interpolated into SQL text
    (`add_in_clause("status", ...)` with f"{column} IN (...)")."""
    out = []
    fn = site["fn"]
    params = [a.arg for a in fn.args.posonlyargs + fn.args.args]
    for h in site["holes"]:
        if isinstance(h, ast.Name) and h.id in params:
            idx = params.index(h.id)
            scope = enclosing_function(fn) or m.tree
            for c in ast.walk(scope):
                if isinstance(c, ast.Call) and isinstance(c.func, ast.Name) and c.func.id == fn.name:
                    arg = c.args[idx] if len(c.args) > idx else next((k.value for k in c.keywords if k.arg == h.id), None)
                    if isinstance(arg, ast.Constant) and isinstance(arg.value, str):
                        out.append((arg, arg.value))
                    elif isinstance(arg, ast.Name) and _table_driven(arg, c, m) is not None:
                        out += _table_driven(arg, c, m)
                    elif arg is not None:
                        raise AnchorError(f"C28.R3: column name passed to `{fn.name}` in {m.rel} is not a constant (`{ast.unparse(arg)[:40]}`)")
    return out


def check_sql_users(chk: Any, schema: Schema, mods: list[str], extra_tables: Schema | None = None) -> None:
    repo = chk.repo
    n_stmt = n_frag = n_cols = 0
    for modname in mods:
        m = repo.module(modname)
        sites = sql_sites(m)
        seen_frag: dict = {}
        tables_by_fn: dict[int, set[str]] = {}
        mod_tables: set[str] = set()
        parsed = []
        for s in sites:
            if s["kind"] != "statement":
                continue
            try:
                sts = parse_sql(s["text"])
            except SqlUnsupported as e:
                raise AnchorError(f"C28.R3: SQL text at {m.rel}:{s['node'].lineno} is outside the reader's subset: {e}")
            for st in sts:
                if st["kind"] in ("txn", "pragma"):
                    continue
                parsed.append((s, st))
                for t, _c in column_refs(st) if st["kind"] in ("select", "insert", "delete", "update") else []:
                    if t:
                        tables_by_fn.setdefault(id(s["fn"]), set()).add(t)
                        mod_tables.add(t)
        for s, st in parsed:
            n_stmt += 1
            if st["kind"] not in ("select", "insert", "delete", "update"):
                continue
            missing = []
            for t, c in column_refs(st):
                if t is None or t == "sqlite_master":
                    continue
                sch = schema if t in schema.tables else (extra_tables if extra_tables is not None and t in extra_tables.tables else None)
                if sch is None:
                    missing.append(f"table {t}")
                elif c != "*table*" and c not in sch.columns(t):
                    missing.append(f"{t}.{c}")
            tabs = sorted({t for t, _c in column_refs(st) if t})
            chk.ob("C28.R3", f"{st['kind'].upper()} on {','.join(tabs)} names only tables/columns of the final migrated schema", not missing,
                   m=m, node=s["node"], fn=s["fn"], instance=f"sql:{st['kind']}:{','.join(tabs)}:{_ordinal(parsed, s, st)}",
                   reason="" if not missing else f"not in the schema the migrations converge to: {sorted(set(missing))}")
        for s in sites:
            idents: list[tuple[ast.AST, str]] = []
            if s["kind"] == "fragment":
                n_frag += 1
                try:
                    toks = sql_tokens(s["text"])
                except SqlUnsupported:
                    continue
                for i, t in enumerate(toks):
                    if t.kind == "id" and t.up not in _SQL_WORDS and not (i + 1 < len(toks) and toks[i + 1].val == "("):
                        if i > 0 and toks[i - 1].val == ".":
                            continue
                        idents.append((s["node"], t.val.lower()))
            idents += [(n, v.lower()) for n, v in _column_args(m, s)]
            for node, ident in idents:
                n_cols += 1
                fn = s["fn"]
                seen_frag[(id(fn), ident)] = seen_frag.get((id(fn), ident), -1) + 1
                cand = set()
                f: ast.AST | None = fn
                while f is not None and not cand:
                    cand = tables_by_fn.get(id(f), set())
                    f = enclosing_function(f)
                cand = cand or mod_tables
                ok = any(t in schema.tables and ident in schema.columns(t) for t in cand)
                chk.ob("C28.R3", f"SQL fragment column `{ident}` exists in a table this code queries ({', '.join(sorted(cand))})", ok,
                       m=m, node=node, fn=fn, instance=f"sqlfrag:{ident}:{seen_frag[(id(fn), ident)]}", reason=f"`{ident}` is not a column of {sorted(cand)} in the final migrated schema")
    chk.floor("C28.R3", "SQL statements in the SQLite stores parsed and compared with the final schema", n_stmt, 12)
    chk.floor("C28.R3", "SQL fragment column names compared with the final schema", n_cols, 6)


def _ordinal(parsed: list, s: dict, st: dict) -> int:
    k = 0
    for s2, st2 in parsed:
        if s2["fn"] is s["fn"] and st2["kind"] == st["kind"]:
            if s2 is s and st2 is st:
                return k
            k += 1
    return k


# ---------------------------------------------------------------------------- run


def _load_fixture(name: str) -> MigrationSet:
    from ..report import VERIF

    d = VERIF / FIXTURE_DIR / name
    if not d.is_dir():
        raise AnchorError(f"C28: fixture directory {d} is missing")
    return MigrationSet([(p.name, p.read_text()) for p in sorted(d.iterdir()) if p.is_file()])


def run(chk: Any) -> None:
    repo = chk.repo
    m = repo.module(MIG)
    mu = repo.module(UTIL)
    for ref in (f"{MIG}:run_migrations", f"{MIG}:_bootstrap_schema_migrations", f"{UTIL}:parse_target_version", f"{UTIL}:iter_migration_files"):
        mod, fn = repo.func(ref)
        chk.note_fn(mod, fn)
    w = World(repo)
    pkg, ms = _bind_migrations(repo, w)
    chk.floor("C28.R1", "migration scripts (*.sql) found through `_MIGRATIONS_PKG`", len(ms.sql), 4)
    _, run_fn = repo.func(f"{MIG}:run_migrations")
    _, ptv_fn = repo.func(f"{UTIL}:parse_target_version")

    baseline = load_baseline()
    res = analyse_set(repo, ms, "repo", baseline)
    anchor = {"C28.R1": (m, run_fn), "C28.R2": (m, run_fn), "C28.R3": (mu, ptv_fn), "C28.R4": (m, run_fn), "C28.R5": (m, run_fn)}
    for rule, inst, desc, ok, why in res["checked"]:
        mod, fn = anchor[rule]
        chk.ob(rule, desc, ok, m=mod, node=fn, fn=fn, instance=inst, reason=why)
    chk.floor("C28.R1", "start states executed symbolically (fresh, prefixes, legacy, legacy+bootstrapped)", res["states"], 1 + 3 * len(ms.sql) if all(o[3] for o in res["checked"] if o[0] != "C28.R2") else 1)
    chk.floor("C28.R2", "failure-injection runs (one per script)", sum(1 for o in res["checked"] if o[1].endswith(":propagates")), len(ms.sql) if all(o[3] for o in res["checked"] if o[1] == "start:fresh:applies") else 0)
    fresh_ok = all(o[3] for o in res["checked"] if o[1] == "start:fresh:applies")
    chk.floor("C28.R4", "released versions in the committed baseline (fixtures/c28/baseline/sqlite.json)", len(baseline["states"]), 4)
    chk.floor("C28.R4", "released database states (tracked, legacy user_version, legacy bootstrapped per version) upgraded with the current scripts",
              res["released_states"], len(BASELINE_FORMS) * len(baseline["states"]) if fresh_ok else 0)
    all_ran = all(o[3] for o in res["checked"] if o[0] not in ("C28.R2", "C28.R5"))  # otherwise some start states could not be run to their end
    chk.floor("C28.R5", "start states (R1 and released R4 states) after whose run the connection's transaction state was inspected", res["durable_states"],
              1 + 3 * len(ms.sql) + len(BASELINE_FORMS) * len(baseline["states"]) if all_ran else 0)
    chk.floor("C28.R5", "of these, runs in which the runner wrote outside an explicit BEGIN…COMMIT (sqlite3 opened the transaction implicitly: the legacy seeding) "
              "and was seen to commit before it returned", res["implicit_states"], len(ms.sql) + len(baseline["states"]) if all_ran else 0)
    odd = nondefault_connects(repo)
    if odd:
        raise AnchorError(f"C28.R5: a caller of run_migrations opens its connection with an explicit transaction mode ({', '.join(odd)}); the rule models the default mode only and cannot decide")
    callers = runner_callers(repo)
    chk.extra["runner_callers"] = [{"caller": c, "commits_itself": k} for c, k in callers]
    chk.observe("callers of the SQLite run_migrations in the sources: " + (", ".join(f"{c} ({'commits afterwards' if k else 'closes the connection without a commit: relies on the runner (R5)'})" for c, k in callers) or "none"))
    chk.exhaustive = True
    chk.extra["start_states"] = res["states"]
    chk.extra["released_states"] = res["released_states"]
    final: Schema = res["final"]
    chk.extra["final_schema"] = final.describe()

    # R3: SQL text of the stores (and the runner's own bookkeeping SQL) against the final schema
    book = Schema()
    try:
        ddl = w.interp(m).global_lookup(m, "_SCHEMA_MIGRATIONS_DDL")
        for st in parse_sql(ddl):
            if st["kind"] in DDL_KINDS:
                book.apply(st)
    except (Unsupported, AnchorError):
        book = final
    full = final.copy()
    for t, d in book.tables.items():
        full.tables.setdefault(t, d)
    check_sql_users(chk, full, SQL_USERS + [MIG])

    # planted positive example: the rules must report the fixture's defects on every run
    nbad = 0
    for fxname in ("bad_migrations", "inapplicable"):
        # the fixtures are run through the *analysed tree's* runner, so only "something is reported" is stable
        fx = analyse_set(repo, _load_fixture(fxname), "fixture")
        bad = {(r, i) for r, i, _d, ok, _w in fx["checked"] if not ok and r in ("C28.R1", "C28.R3")}
        nbad += len(bad)
        if not bad:
            raise AnchorError(f"C28.R1: the planted fixture ({FIXTURE_DIR}/{fxname}) was not reported; the rule is blind")
    chk.floor("C28.R1", "planted fixture defects reported (inapplicable statement, diverging schema, bad header sequence)", nbad, 2)
    # planted positive example for R4: the released scripts with one statement moved from a later into an earlier released script
    fx = analyse_set(repo, _load_fixture("edited_release"), "fixture", baseline)
    bad4 = {i for r, i, _d, ok, _w in fx["checked"] if not ok and r == "C28.R4"}
    # (a runner of the analysed tree that cannot even migrate the fixture's fresh database is reported by R1 above; R4 needs the fresh target)
    fx_fresh = all(o[3] for o in fx["checked"] if o[1] == "start:fresh:applies")
    if fx_fresh and not bad4:
        raise AnchorError(f"C28.R4: the planted fixture ({FIXTURE_DIR}/edited_release) was not reported; the rule is blind")
    chk.floor("C28.R4", "planted fixture (statement moved between released scripts): released states reported as not converging", len(bad4), 1 if fx_fresh else 0)

    # planted positive example for R5: a runner whose legacy seeding is never committed by the runner itself
    # (it runs over the analysed tree's scripts and migration_utils: what it must report is only fixed when those are sound themselves)
    sound = all(o[3] for o in res["checked"])
    r5 = planted_runner(repo, ms, baseline, sound)
    chk.floor("C28.R5", "planted runner (fixtures/c28/uncommitted_seed: legacy seed rows left in an open transaction when nothing is pending): states reported", len(r5), 1 if sound else 0)

    chk.observe("`run_migrations` issues BEGIN through executescript and COMMIT through cursor.execute; atomicity of script + version row relies on "
                "SQLite transactional DDL and on sqlite3 not auto-committing in between (modelled, not verified). The legacy seed rows are written outside "
                "BEGIN…COMMIT (implicit transaction of the sqlite3 module) and committed by `conn.commit()` in the bootstrap (R5).")


R5_FIXTURE = FIXTURE_DIR + "/uncommitted_seed/migrate.py"


def planted_runner(repo: Any, ms: MigrationSet, baseline: dict, strict: bool = True) -> set[str]:
    """R5 expects no finding on the repository: the planted runner (correct except that the legacy seed rows are not committed) is
    interpreted over the repository's scripts on every run; exactly the legacy databases with nothing pending must be reported."""
    from ..report import VERIF

    path = VERIF / R5_FIXTURE
    if not path.is_file():
        raise AnchorError(f"C28.R5: fixture {path} is missing")
    view = repo.with_overlay({repo.module(MIG).rel: path.read_text()})
    fx = analyse_set(view, ms, "fixture", baseline)
    other = sorted({(r, i) for r, i, _d, ok, _w in fx["checked"] if not ok and r != "C28.R5"})
    got = {i for r, i, _d, ok, _w in fx["checked"] if not ok and r == "C28.R5"}
    n, k = len(ms.sql), len(baseline["states"])
    want = {f"start:legacy{n}:durable"} | ({f"released:legacy{k}:durable"} if k == n else set())
    if strict and (other or got != want):
        raise AnchorError(f"C28.R5: on the planted runner {R5_FIXTURE} (only defect: legacy seed rows never committed by the runner) R5 reported {sorted(got)}, "
                          f"expected exactly {sorted(want)}; other rules reported {other}, expected none; the rule or the transaction model is off")
    return got


# ---------------------------------------------------------------------------- twins

_D = "packages/llama-agents-server/src/llama_agents/server/_store/"
_PM = _D + "sqlite/migrate.py"
_PU = _D + "migration_utils.py"
_PW = _D + "sqlite/sqlite_workflow_store.py"
_S1, _S2, _S3, _S4 = (_D + "sqlite/migrations/" + n for n in ("0001_init.sql", "0002_extend_handlers.sql", "0003_add_idle_since.sql", "0004_add_ticks.sql"))

# The four copy-pasted `IN` filter blocks of `_build_filters` up to the end of the class, and the same method driven by a
# module-level table of (column, HandlerQuery attribute) pairs read with `getattr` (shared with the C16/C24 twins).
IN_BLOCKS_OLD = (
    "        if query.workflow_name_in is not None:\n            if len(query.workflow_name_in) == 0:\n                return None\n"
    "            add_in_clause(\"workflow_name\", query.workflow_name_in)\n\n"
    "        if query.handler_id_in is not None:\n            if len(query.handler_id_in) == 0:\n                return None\n"
    "            add_in_clause(\"handler_id\", query.handler_id_in)\n\n"
    "        if query.run_id_in is not None:\n            if len(query.run_id_in) == 0:\n                return None\n"
    "            add_in_clause(\"run_id\", query.run_id_in)\n\n"
    "        if query.status_in is not None:\n            if len(query.status_in) == 0:\n                return None\n"
    "            add_in_clause(\"status\", query.status_in)\n\n"
    "        if query.is_idle is not None:\n            if query.is_idle:\n                clauses.append(\"idle_since IS NOT NULL\")\n"
    "            else:\n                clauses.append(\"idle_since IS NULL\")\n\n"
    "        if not clauses:\n            return clauses, params\n\n        return clauses, params\n\n\n"
    "def _row_to_persistent_handler("
)
IN_TABLE_ROWS = '("workflow_name", "workflow_name_in"), ("handler_id", "handler_id_in"), ("run_id", "run_id_in"), ("status", "status_in")'


def in_blocks_table_driven(rows: str = IN_TABLE_ROWS, read: str = "getattr(query, attr_name)", table: str = "({rows},)", extra: str = "") -> str:
    return (
        "        for column, attr_name in _IN_FILTER_COLUMNS:\n"
        f"            values = {read}\n"
        "            if values is None:\n                continue\n"
        "            if len(values) == 0:\n                return None\n"
        "            add_in_clause(column, values)\n\n"
        "        if query.is_idle is not None:\n"
        "            clauses.append(\"idle_since IS NOT NULL\" if query.is_idle else \"idle_since IS NULL\")\n\n"
        "        return clauses, params\n\n\n"
        f"_IN_FILTER_COLUMNS: Any = {table.format(rows=rows)}\n{extra}\n\n"
        "def _row_to_persistent_handler("
    )


# The event INSERT of `append_event` with its text moved verbatim into a module-level constant, the payload bound to a local inside
# the same `with` block, `_connect` as an early `return` after yielding the persistent connection and the notify block as an
# early return (benign B11_patch_5 shape; shared with the C16/C24 twins).
EVENT_INSERT_VALUES = "?, COALESCE((SELECT MAX(sequence) FROM events WHERE run_id = ?), -1) + 1, CURRENT_TIMESTAMP, ?"


def event_insert_as_constant(cols: str = "run_id, sequence, timestamp, event_json", values: str = EVENT_INSERT_VALUES, args: str = "(run_id, run_id, event_json)",
                             before: str = "", after_binding: str = "") -> tuple[str, str]:
    return multi(_PW, [
        ("_TICK_PAGE_SIZE = 100\n",
         f'_TICK_PAGE_SIZE = 100\n\n_INSERT_EVENT_SQL = """INSERT INTO events ({cols})\n                VALUES ({values})"""\n{after_binding}'),
        ('            conn.execute(\n                """INSERT INTO events (run_id, sequence, timestamp, event_json)\n'
         '                VALUES (?, COALESCE((SELECT MAX(sequence) FROM events WHERE run_id = ?), -1) + 1, CURRENT_TIMESTAMP, ?)""",\n'
         "                (\n                    run_id,\n                    run_id,\n                    event.model_dump_json(),\n                ),\n            )\n",
         f"            event_json = event.model_dump_json()\n{before}            conn.execute(_INSERT_EVENT_SQL, {args})\n"),
        ("            yield self._persistent_conn\n        else:\n            conn = sqlite3.connect(self.db_path, timeout=30.0)\n            try:\n                yield conn\n"
         "            finally:\n                conn.close()\n",
         "            yield self._persistent_conn\n            return\n\n        conn = sqlite3.connect(self.db_path, timeout=30.0)\n        try:\n            yield conn\n"
         "        finally:\n            conn.close()\n"),
        ("        if condition is not None:\n            async with condition:\n                condition.notify_all()\n\n    async def query_events",
         "        if condition is None:\n            return\n        async with condition:\n            condition.notify_all()\n\n    async def query_events"),
    ])


# The legacy seeding of `_bootstrap_schema_migrations` as it is (loop + commit) and as one `executemany` (seed S137's form drops the commit with the loop).
_SEED_LOOP = (
    "        for v in range(1, legacy_version + 1):\n            cur.execute(\n"
    "                \"INSERT OR IGNORE INTO schema_migrations (package, version) VALUES (?, ?)\",\n"
    "                (\"server\", v),\n            )\n        conn.commit()\n"
)
_SEED_MANY = (
    "        cur.executemany(\n            \"INSERT OR IGNORE INTO schema_migrations (package, version) VALUES (?, ?)\",\n"
    "            [(\"server\", v) for v in range(1, legacy_version + 1)],\n        )\n"
)
_SEED_LOOP_ONLY = _SEED_LOOP.replace("        conn.commit()\n", "")
_RUN_END = "                applied.add(target_version)\n"

TWINS = [
    # ---- R5 breaking: bookkeeping rows left in an open transaction when run_migrations returns
    Twin("legacy seed rows written by one executemany, commit gone with the loop (seed S137)", _PM, _SEED_LOOP, _SEED_MANY, "C28.R5"),
    Twin("legacy seed loop kept, commit dropped (left to the implicit COMMIT of the next executescript)", _PM, _SEED_LOOP, _SEED_LOOP_ONLY, "C28.R5"),
    Twin("commit issued before the seeding instead of after it", _PM, _SEED_LOOP, "        conn.commit()\n" + _SEED_LOOP_ONLY, "C28.R5"),
    Twin("commit guarded by a condition that is false whenever something was seeded", _PM, _SEED_LOOP,
         _SEED_LOOP_ONLY + "        if legacy_version < 1:\n            conn.commit()\n", "C28.R5"),
    Twin("COMMIT after the version row dropped: each script is committed by the next executescript, the last one by nobody", _PM,
         '                cur.execute("COMMIT")\n', "", "C28.R5"),
    # ---- R5 benign: the commit is written differently / elsewhere, still made by the runner on every path
    Twin("benign: legacy seed rows by one executemany, commit kept", _PM, _SEED_LOOP, _SEED_MANY + "        conn.commit()\n", None),
    Twin("benign: seeding inside `with conn:` (commits on leaving the block)", _PM, _SEED_LOOP,
         "        with conn:\n" + "".join("    " + ln + "\n" for ln in _SEED_LOOP_ONLY.splitlines()), None),
    Twin("benign: seed rows committed with a COMMIT statement", _PM, _SEED_LOOP, _SEED_LOOP_ONLY + '        cur.execute("COMMIT")\n', None),
    Twin("benign: one commit at the end of run_migrations instead of in the bootstrap", _PM,
         *multi(_PM, [(_SEED_LOOP, _SEED_LOOP_ONLY), (_RUN_END, _RUN_END + "\n    conn.commit()\n")]), None),
    # ---- R3: statement text in a module-level string constant
    Twin("benign: event INSERT text in a module-level constant, payload in a local", _PW, *event_insert_as_constant(), None),
    Twin("module-level INSERT constant names a column no script creates", _PW, *event_insert_as_constant(cols="run_id, sequence, timestamp, payload_json"), "C28.R3"),
    # ---- R3: table-driven filters over a module-level constant
    Twin("benign: IN filters driven by a module-level table of (column, attribute) pairs", _PW, IN_BLOCKS_OLD, in_blocks_table_driven(), None),
    Twin("benign: module-level table is a list literal", _PW, IN_BLOCKS_OLD, in_blocks_table_driven(table="[{rows}]"), None),
    Twin("module-level filter table names a column no script creates", _PW, IN_BLOCKS_OLD,
         in_blocks_table_driven(IN_TABLE_ROWS.replace('("status", "status_in")', '("state", "status_in")')), "C28.R3"),
    Twin("module-level filter table uses the attribute name as the column", _PW, IN_BLOCKS_OLD,
         in_blocks_table_driven(IN_TABLE_ROWS.replace('("run_id", "run_id_in")', '("run_id_in", "run_id_in")')), "C28.R3"),
    # ---- R1 breaking
    Twin("index on a column a later script adds", _S1, "    ctx TEXT\n);", "    ctx TEXT\n);\nCREATE INDEX IF NOT EXISTS idx_handlers_run_id ON handlers (run_id);", "C28.R1"),
    Twin("legacy seeding off by one", _PM, "for v in range(1, legacy_version + 1):", "for v in range(1, legacy_version):", "C28.R1"),
    Twin("applied-version skip dropped", _PM, "if target_version in applied or target_version == 0:", "if target_version == 0:", "C28.R1"),
    Twin("applied versions read for the wrong package key", _PM, "            (package_name,),\n        ).fetchall()", "            (source_pkg,),\n        ).fetchall()", "C28.R1"),
    Twin("NOT NULL column without default added to a populated table", _S2, "ALTER TABLE handlers ADD COLUMN run_id TEXT;", "ALTER TABLE handlers ADD COLUMN run_id TEXT NOT NULL;", "C28.R1"),
    Twin("scripts applied in directory order", _PU, "return sorted(files, key=lambda p: p.name)", "return list(files)", "C28.R1"),
    Twin("duplicate version header hides a script", _S3, "-- migration: 3", "-- migration: 2", "C28.R1"),
    Twin("legacy bootstrap seeds under another package name", _PM, '                ("server", v),', '                ("llama_agents", v),', "C28.R1"),
    # ---- R2 breaking
    Twin("failed migration swallowed", _PM, '                cur.execute("ROLLBACK")\n                raise\n', '                cur.execute("ROLLBACK")\n', "C28.R2"),
    Twin("failed migration not rolled back", _PM, '                cur.execute("ROLLBACK")\n                raise\n', "                raise\n", "C28.R2"),
    Twin("version recorded even when the script failed", _PM, "            else:\n                cur.execute(\n                    \"INSERT INTO schema_migrations", "            finally:\n                cur.execute(\n                    \"INSERT INTO schema_migrations", "C28.R2"),
    # ---- R3 breaking
    Twin("header pushed off the first line", _S3, "-- migration: 3\n", "-- Add idle tracking\n-- migration: 3\n", "C28.R3"),
    Twin("version gap", _S4, "-- migration: 4", "-- migration: 5", "C28.R3"),
    Twin("store filters on a column no script creates", _PW, '"idle_since IS NULL"', '"idle_at IS NULL"', "C28.R3"),
    Twin("store reads a column no script creates", _PW, '"SELECT ctx FROM handlers WHERE run_id = ?"', '"SELECT context FROM handlers WHERE run_id = ?"', "C28.R3"),
    Twin("column dropped from the script but still written by the store", _S2, "ALTER TABLE handlers ADD COLUMN completed_at TEXT;\n", "", "C28.R3"),
    # ---- R4 breaking (an already released script is edited; the seed's own two-file form is the planted fixture fixtures/c28/edited_release)
    Twin("index dropped from a released script (databases at that release keep it, fresh ones never get it)", _S4, "CREATE INDEX IF NOT EXISTS idx_handlers_run_id ON handlers (run_id);\n", "", "C28.R4"),
    Twin("index added to a released script instead of a new one", _S2, "ALTER TABLE handlers ADD COLUMN run_id TEXT;", "ALTER TABLE handlers ADD COLUMN run_id TEXT;\nCREATE INDEX IF NOT EXISTS idx_handlers_run ON handlers (run_id);", "C28.R4"),
    Twin("column added to a released script instead of a new one", _S3, "-- migration: 3\n", "-- migration: 3\nALTER TABLE handlers ADD COLUMN idle_reason TEXT;\n", "C28.R4"),
    Twin("column type changed in a released script", _S2, "ALTER TABLE handlers ADD COLUMN run_id TEXT;", "ALTER TABLE handlers ADD COLUMN run_id VARCHAR(64);", "C28.R4"),
    Twin("bookkeeping table of the runner gains a column that existing databases never get", _PM, "    applied_at TEXT NOT NULL DEFAULT (datetime('now')),\n", "    applied_at TEXT NOT NULL DEFAULT (datetime('now')),\n    checksum TEXT,\n", "C28.R4"),
    # ---- R4 benign
    Twin("benign: released script re-laid out, commented, keywords in lower case", _S2, "ALTER TABLE handlers ADD COLUMN run_id TEXT;", "-- the run the handler belongs to\nalter table handlers\n    add column run_id text ;", None),
    Twin("benign: index also created by the earlier released script (the later one still creates it IF NOT EXISTS)", _S2, "ALTER TABLE handlers ADD COLUMN run_id TEXT;", "ALTER TABLE handlers ADD COLUMN run_id TEXT;\nCREATE INDEX IF NOT EXISTS idx_handlers_run_id ON handlers (run_id);", None),
    Twin("benign: statements of a released script reordered (same end state)", _S4, "CREATE INDEX IF NOT EXISTS idx_events_run_id_sequence ON events (run_id, sequence);\n\nCREATE INDEX IF NOT EXISTS idx_handlers_run_id ON handlers (run_id);\n", "CREATE INDEX IF NOT EXISTS idx_handlers_run_id ON handlers (run_id);\n\nCREATE INDEX IF NOT EXISTS idx_events_run_id_sequence ON events (run_id, sequence);\n", None),
    # ---- benign
    Twin("benign: IF NOT EXISTS removed (bookkeeping already prevents re-application)", _S4, "CREATE TABLE IF NOT EXISTS ticks (", "CREATE TABLE ticks (", None),
    Twin("benign: seeding guard removed (empty range)", _PM, "    if legacy_version > 0:\n", "    if True:\n", None),
    Twin("benign: header searched in the whole text", _PU, "match = VERSION_PATTERN.search(first_line)", "match = VERSION_PATTERN.search(sql_text or first_line)", None),
    Twin("benign: skip test rewritten", _PM, "if target_version in applied or target_version == 0:", "if not target_version or target_version in applied:", None),
    Twin("benign: plain INSERT in the guarded bootstrap", _PM, '"INSERT OR IGNORE INTO schema_migrations (package, version) VALUES (?, ?)"', '"INSERT INTO schema_migrations (package, version) VALUES (?, ?)"', None),
    Twin("benign: case-insensitive file order", _PU, "key=lambda p: p.name)", "key=lambda p: p.name.lower())", None),
    Twin("benign: suffix filter dropped (only empty __init__.py is added)", _PU, 'files = (p for p in root.iterdir() if p.name.endswith(".sql"))', "files = (p for p in root.iterdir())", None),
    Twin("benign: table alias in store SQL", _PW, '"SELECT ctx FROM handlers WHERE run_id = ?"', '"SELECT h.ctx FROM handlers h WHERE h.run_id = ?"', None),
    Twin("benign: early continue replaced by nested if", _PM, "            if target_version in applied or target_version == 0:\n                continue\n\n            try:", "            if target_version in applied or target_version == 0:\n                continue\n            assert target_version > 0\n\n            try:", None),
    Twin("benign: commit through the connection", _PM, '                cur.execute("COMMIT")', "                conn.commit()", None),
]
