"""C33 — backup archives restore exactly what was backed up.

Writer/reader agreement rules over control_plane/backup/archive.py and encryption.py.  The regular
language toolkit is imported from props/c32.py (shared helper kept in a property module).

R6 extends the agreement from *which* codec to *how it is configured*: a writer option may change the layout of the text
but must not move it outside what the reader's decoder returns unchanged (yaml allow_unicode=True -> raw U+0085 -> folded
into a space by safe_load; yaml default_style='>'; json separators that are not JSON).  The option tables below say which
options are known harmless, which are known lossy, and everything else is an analysis error.

R7 extends it to *presence*: an optional per-deployment value (secrets[name], generations[name]) is absent exactly when the
reader's BackupEntry field comes out None; whatever decides on the writing side whether its file is written (and on the reading
side whether it is stored / handed on) must therefore be a test of absence (`is not None`, `name in map`), never of truthiness:
the declared value types admit falsy payloads ({} = a Secret without keys, generation 0).  Decided by finite evaluation
(absint.Interp over the path tests, the payload, the reader's store and the field expression) for the falsy and a truthy member of
each kind the declared type admits, not by the spelling of the test.
"""

from __future__ import annotations

import ast
import copy
from pathlib import Path

from ..absint import Interp, Raised, Record
from ..absint import Unsupported as EvalUnsupported
from ..astx import atoms, call_name, dotted, enclosing_stmt, expand, facts_at, kwarg, last, reaching_def
from ..cfg import CFG
from ..index import AnchorError, FuncNode, _set_parents, ancestors, enclosing_function, parent
from ..selftest import Twin
from .c17 import _multi
from .c32 import Alphabet, L_all, L_union, L_word, Unsupported, regex_charsets, regex_match_lang, regex_preds

EXPLANATION = (
    "R1 (file-name table, decided on regular languages): for every kind of file create_backup_archive writes (name template = deployment "
    "name + literal suffix, or a fixed name) and every valid deployment name (the language of `_DNS_1035_RE`), the file name falls into "
    "exactly one branch of read_backup_archive's decision list over the member name (an if/elif chain or `continue` guards; branch language = its own test minus "
    "the tests that path facts show to be already decided false where it is evaluated), that branch strips "
    "exactly the suffix the writer appended, decodes with the inverse codec chain (yaml/json/encrypt vs safe_load/loads/decrypt) and stores "
    "into the container that feeds the BackupEntry field of the writer's source (deployments->cr, secrets->secret, generations->generation); "
    "a write funnelled through one call with member name and payload in locals bound by the arms of a preceding `if` is analysed per arm (the call is sunk into the arms, "
    "so name and payload of the same arm are paired), and a value bound in the only arm of an `if` that does not leave (the other raises) is followed through that arm; "
    "file names of different kinds never collide. "
    "R2 (wire layout): encrypt returns salt+nonce+ciphertext whose segment offsets/lengths (module constants, evaluated) equal the slices "
    "decrypt takes for the value it passes to the key derivation, as nonce and as ciphertext; both use the same key derivation, which "
    "depends on the password; associated data agree. "
    "R3 (one predicate for 'encrypted'): the manifest flag, the writer's choice between encrypted and clear secret files, and the reader's "
    "demand for a password test `encryption_password` the same way (`is not None` vs truthiness). "
    "R4 (keys): every manifest/meta key the reader takes is written; every BackupEntry field is populated. "
    "R5 (the password value): at each hand-over of the password (create_backup_archive -> encrypt, read_backup_archive -> decrypt, encrypt/decrypt -> the key "
    "derivation function, that function -> the primitive `.derive(...)`) the value-dependence slice of the argument (every assignment that can flow into it by value, "
    "flow-insensitive; tests that only decide whether an assignment runs are not part of it) is taken. password-verbatim:<site>: the slice consists of the function's own "
    "password parameter and operations that keep distinct passwords distinct (copies, str(), a strict text encoding, a constant affix) - a strip/lower/slice/lossy encoding "
    "anywhere makes an archive open with a password other than the one it was written with; a constant or another name reaching the sink means the caller's password is not "
    "(the only thing) used. password-agrees: the set of value-changing operations on the writing side equals the set on the reading side (`.encode()` spellings normalised) - "
    "an operation only one side applies makes the two sides derive different keys from the same password, so the archive cannot be read back. An operation the rule cannot "
    "classify is an analysis error, not a pass. Not decided by R5: that equal sets of operations are applied in the same order and under the same conditions. "
    "R6 (codec options agree): for every encoding call that feeds an archive file (yaml.dump / yaml.safe_dump / json.dumps; encrypt/decrypt take nothing but data and the password, which R5 owns) the "
    "keyword options, read as constants (literals, module-level constants, straight-line locals), must keep the written text inside what the matching decoder returns unchanged. "
    "Known lossy and reported: yaml `allow_unicode=<true>` - PyYAML then writes non-ASCII raw, U+0085 (NEL) lands unescaped in a quoted scalar, is a YAML line break and is folded into a space by safe_load, "
    "so a CR field / secret key / secret value containing it is restored as a different string, with or without encryption (accepted only when the payload is built from ASCII literals, numbers, booleans and "
    "lengths alone, or together with default_style='\"', where line breaks are escaped); yaml `default_style='>'` (folded scalars re-fold lines that start with a space); json `separators` whose parts are not "
    "`,` / `:` up to blanks (not JSON any more). Known harmless (layout only; for yaml measured with triage/t_c33_yaml_options.py over every code point U+0001..U+2FFF and folding-prone strings as values, items and keys): "
    "yaml default_flow_style, sort_keys, indent, width, explicit_start, explicit_end, canonical, line_break, default_style in (None, '\"', \"'\", '|'), encoding None/utf-8, Dumper=yaml.SafeDumper/yaml.Dumper; "
    "json indent, sort_keys, ensure_ascii, check_circular, allow_nan (these change the text or what is refused, never what loads returns). Any other option (json default/skipkeys/cls, yaml tags/version/stream, C emitters), "
    "a non-constant option value, `**kwargs`, or any value-replacing option on the decoding side (json.loads parse_*/object_hook/cls, yaml.load with a loader other than the pure-Python ones) is an analysis error, not a pass. "
    "R7 (present-but-empty is not absent; finite evaluation): for each optional per-deployment value - a map parameter of the writer other than the deployment list (secrets -> BackupEntry.secret, generations -> "
    "BackupEntry.generation) - the values one entry can hold are sampled from the declared type `dict[str, V]`: for every kind V admits (dict, list, str, int, float, bool; undeclared / Any: all of them) its falsy member "
    "and a truthy one ({} and {'k': 'v'}; 0 and 1), each with and without a password. present-is-written:<map>: with map[name] set to the sample, every test on every path to some write of that value's file (edge dominators "
    "of the write in the CFG, so nested ifs, early continue / return, a walrus inside the test, a local holding the lookup and a helper folded back all read the same) evaluates - on the AST, locals resolved through their reaching definition - to the outcome that reaches "
    "the write. A truthiness test (`if secret_data:`, `if x := m.get(name):`, `and len(x) > 0`, `m.get(name)` for an int) fails this for the falsy sample: nothing is written, read_backup_archive returns None for a value that was "
    "backed up, restore never re-creates the (empty) Secret. Truthiness of the *map* next to a membership test (`generations and name in generations`) passes, because an empty map has no entry. "
    "restored-as-backed-up:<map>: the payload expression of the reached write is evaluated (codecs modelled as exact inverses - their agreement is R1/R6), handed as member content to the reader branch R1 routes the file to, the tests on the way to that "
    "branch's store are evaluated, then the stored value and the BackupEntry field expression; the field must equal the sample (same type, same value), and with no entry at all it must be None (`x or None`, `.get(name, {})`, "
    "`if loaded:` before the store, `dump(x or None)` all fail). A test or expression on that route the evaluator cannot decide is an analysis error when the value can flow into it and is skipped otherwise. "
    "Not decided by R7: values nested deeper than one entry (a secret whose *value* is ''), maps keyed by anything but the deployment name, presence decisions taken outside archive.py (the service that fills the maps). "
    "Not decided: YAML/JSON value fidelity under default options for values outside str/int/float/bool/None/list/dict, tar/gzip, AES-GCM and PBKDF2 guarantees (trusted), deployments without a valid name."
)
TRUSTED = ["CPython ast, re._parser", "yaml/json round-trip, tarfile, cryptography (AES-GCM authenticates key and data)"]
LEVEL_NOTE = "writer-reader agreement decided on file-name languages, byte layouts, predicates, encoder options and (by finite evaluation) presence of optional values; value fidelity under the accepted options is trusted to yaml/json"
TECHNIQUE = "regular-language decision list for the reader chain; segment/slice algebra; predicate classification; finite evaluation of presence tests over falsy/truthy samples of the declared types"

ARCHIVE = "llama_agents.control_plane.backup.archive"
ENCRYPTION = "llama_agents.control_plane.backup.encryption"
CORE = "llama_agents.core.schema.deployments"
DNS_CONST = "_DNS_1035_RE"
WRITER, READER = "create_backup_archive", "read_backup_archive"
FIXTURE = "fixtures/c33/planted.py"
ROLE_FIELD = {"deployments": "cr", "secrets": "secret", "generations": "generation"}


def _strip_bytes(e: ast.AST) -> ast.AST:
    while True:
        if isinstance(e, ast.Await):
            e = e.value
        elif isinstance(e, ast.Call) and isinstance(e.func, ast.Attribute) and e.func.attr in ("encode", "decode") and len(e.args) <= 1:
            e = e.func.value
        else:
            return e


def codec_chain(e: ast.AST) -> tuple[list[str], ast.AST]:
    """(operations applied in order, innermost payload expression)."""
    e = _strip_bytes(e)
    if isinstance(e, ast.Call):
        n = call_name(e) or ""
        l = last(n)
        if n in ("yaml.dump", "yaml.safe_dump"):
            return ["yaml"], e.args[0]
        if n == "json.dumps":
            return ["json"], e.args[0]
        if n in ("yaml.safe_load", "yaml.load", "yaml.full_load"):
            ops, root = codec_chain(e.args[0])
            return ops + ["yaml"], root
        if n == "json.loads":
            ops, root = codec_chain(e.args[0])
            return ops + ["json"], root
        if l == "encrypt" and e.args:
            ops, root = codec_chain(e.args[0])
            return ops + ["enc"], root
        if l == "decrypt" and e.args:
            ops, root = codec_chain(e.args[0])
            return ops + ["enc"], root
    return [], e


def _template(e: ast.AST) -> tuple[str | None, str]:
    """File-name expression -> (name variable | None, literal suffix / whole literal)."""
    if isinstance(e, ast.Constant) and isinstance(e.value, str):
        return None, e.value
    if isinstance(e, ast.JoinedStr):
        parts = e.values
        if len(parts) == 2 and isinstance(parts[0], ast.FormattedValue) and isinstance(parts[0].value, ast.Name) and isinstance(parts[1], ast.Constant) and parts[0].format_spec is None:
            return parts[0].value.id, parts[1].value
    if isinstance(e, ast.BinOp) and isinstance(e.op, ast.Add) and isinstance(e.left, ast.Name) and isinstance(e.right, ast.Constant) and isinstance(e.right.value, str):
        return e.left.id, e.right.value
    raise AnchorError(f"file name expression `{ast.unparse(e)[:60]}` is not <name variable> + <literal suffix>")


def _tar_helper(funcs: dict[str, ast.AST]) -> tuple[str, int, int] | None:
    """A module function that wraps TarInfo(name=<param>) + addfile: (function name, index of name param, index of data param)."""
    for name, fn in funcs.items():
        params = [a.arg for a in fn.args.args]
        ti = [c for c in ast.walk(fn) if isinstance(c, ast.Call) and last(call_name(c)) == "TarInfo"]
        add = [c for c in ast.walk(fn) if isinstance(c, ast.Call) and last(call_name(c)) == "addfile"]
        if ti and add:
            nm = kwarg(ti[0], "name", 0)
            if isinstance(nm, ast.Name) and nm.id in params:
                data = [p for p in params if p != nm.id and any(isinstance(x, ast.Name) and x.id == p for a in add for x in ast.walk(a))]
                data = [p for p in data if any(isinstance(x, ast.Name) and x.id == p for c in ast.walk(fn) if isinstance(c, ast.Call) and last(call_name(c)) == "BytesIO" for x in ast.walk(c))] or data
                if data:
                    return name, params.index(nm.id), params.index(data[-1])
    return None


def _root_param(e: ast.AST, fn: ast.AST, at: ast.AST) -> str | None:
    """Which parameter of ``fn`` a payload expression is taken from (through locals and for-targets)."""
    params = {a.arg for a in fn.args.args + fn.args.kwonlyargs}
    x = expand(e, at, depth=4)
    names = [n.id for n in ast.walk(x) if isinstance(n, ast.Name)]
    for n in names:
        if n in params and n in ROLE_FIELD:
            return n
    # loop variables
    for n in names:
        for loop in ast.walk(fn):
            if isinstance(loop, (ast.For, ast.AsyncFor)) and any(isinstance(t, ast.Name) and t.id == n for t in ast.walk(loop.target)):
                for m in ast.walk(loop.iter):
                    if isinstance(m, ast.Name) and m.id in params:
                        return m.id
    return None


_LEAVES = (ast.Return, ast.Raise, ast.Continue, ast.Break)


def _sink_into_branches(fn: ast.AST, is_site) -> ast.AST:
    """Copy of ``fn`` in which a site statement that follows (directly, or after straight-line statements, which travel with
    it) an `if` whose arms bind names the site reads is moved into the arms (`if c: A else: B; T; S`  ==  `if c: A; T; S else: B; T; S`;
    an arm that leaves by return / raise / continue / break does not reach S and does not get it).  A write funnelled through one call with the member name and payload held in
    locals is thereby analysed per branch, name and payload of the *same* branch together, exactly like the unfunnelled form."""
    from ..astx import assigned_names
    from ..inline import clone

    fn2 = clone(fn)

    def step() -> bool:
        for node in ast.walk(fn2):
            for fld in ("body", "orelse", "finalbody"):
                lst = getattr(node, fld, None)
                if not isinstance(lst, list):
                    continue
                for i in range(1, len(lst)):
                    s = lst[i]
                    if not (isinstance(s, ast.stmt) and is_site(s)):
                        continue
                    read = {n.id for n in ast.walk(s) if isinstance(n, ast.Name) and isinstance(n.ctx, ast.Load)}
                    # nearest preceding `if` of the block that binds a name the site reads; the straight-line statements in
                    # between travel with the site (they may re-bind what the arms bound)
                    j = next((k for k in range(i - 1, -1, -1) if isinstance(lst[k], ast.If) and read & assigned_names(lst[k])), None)
                    if j is None or any(isinstance(x, (ast.If, ast.For, ast.AsyncFor, ast.While, ast.Try, ast.With, ast.AsyncWith) + FuncNode) for x in lst[j + 1:i]):
                        continue
                    prev, tail = lst[j], lst[j + 1:i + 1]
                    for arm in (prev.body, prev.orelse):
                        if _always_leaves(arm):
                            continue
                        arm.extend(clone(x) for x in tail)
                    del lst[j + 1:i + 1]
                    return True
        return False

    n = 0
    while step():
        n += 1
        if n > 50:
            raise AnchorError(f"`{fn.name}`: branch-sinking of funnelled archive writes does not terminate")
    _set_parents(fn2)
    fn2._parent = parent(fn)  # type: ignore[attr-defined]
    return fn2


class Writer:
    def __init__(self, fn: ast.AST, funcs: dict[str, ast.AST]):
        helper = _tar_helper(funcs)
        if helper:
            fn = _sink_into_branches(fn, lambda st: isinstance(st, ast.Expr) and isinstance(st.value, ast.Call) and isinstance(st.value.func, ast.Name) and st.value.func.id == helper[0])
        self.fn = fn
        self.data_idx = helper[2] if helper else 1
        self.entries: list[dict] = []
        sites: list[tuple[ast.Call, ast.AST, ast.AST]] = []
        for c in ast.walk(fn):
            if not isinstance(c, ast.Call):
                continue
            if helper and isinstance(c.func, ast.Name) and c.func.id == helper[0]:
                if len(c.args) <= max(helper[1], helper[2]):
                    raise AnchorError(f"call of `{helper[0]}` at line {c.lineno} does not pass name and data positionally")
                sites.append((c, c.args[helper[1]], c.args[helper[2]]))
        if not sites:
            raise AnchorError(f"`{WRITER}` adds no files through a TarInfo helper")
        for c, name_e, data_e in sites:
            st = enclosing_stmt(c)
            var, suffix = _template(expand(name_e, st, depth=1) if isinstance(name_e, ast.Name) else name_e)  # a local holding the member name: one level
            data_x = expand(data_e, st, depth=4)
            ops, payload = codec_chain(data_x)
            root = _root_param(data_e, fn, st) or _root_by_flow(data_e, fn)
            keys = None
            pe = payload
            if isinstance(pe, ast.Name):
                pe = expand(pe, st)
            if isinstance(pe, ast.Dict):
                keys = [k.value for k in pe.keys if isinstance(k, ast.Constant)]
            self.entries.append({"call": c, "var": var, "suffix": suffix, "ops": ops, "root": root, "keys": keys, "payload": pe, "data_x": data_x})
        vars_ = {e["var"] for e in self.entries if e["var"] is not None}
        if len(vars_) > 1:
            raise AnchorError(f"writer file names use several name variables {sorted(vars_)}")


def _always_leaves(stmts: list[ast.stmt]) -> bool:
    if not stmts:
        return False
    s = stmts[-1]
    if isinstance(s, _LEAVES):
        return True
    return isinstance(s, ast.If) and bool(s.orelse) and _always_leaves(s.body) and _always_leaves(s.orelse)


def _guarded_def(name: str, at: ast.AST) -> tuple[ast.AST, ast.AST] | None:
    """(value, binding statement) of `name` at statement `at` when its nearest binding sits in an `if` that precedes `at`
    in the same block and every other arm of that `if` leaves (raise / return / continue / break): the shape
    `if missing: raise …  else: x = v` an inlined guard-then-compute helper has.  The binding then is the only one that
    reaches `at`, although it is written conditionally."""
    from ..astx import assigned_names, stmt_list_of

    stmt = enclosing_stmt(at)
    loc = stmt_list_of(stmt) if stmt is not None else None
    if loc is None:
        return None
    lst, i = loc
    for prev in reversed(lst[:i]):
        if name not in assigned_names(prev):
            continue
        if isinstance(prev, ast.If):
            live = [arm for arm in (prev.body, prev.orelse) if not _always_leaves(arm)]
            if len(live) == 1 and live[0]:
                for s_ in reversed(live[0]):
                    if name in assigned_names(s_):
                        if isinstance(s_, ast.Assign) and len(s_.targets) == 1 and isinstance(s_.targets[0], ast.Name) and s_.targets[0].id == name:
                            return s_.value, s_
                        return None
        return None
    return None


def _xexpand(e: ast.AST, at: ast.AST, depth: int = 4) -> ast.AST:
    """`expand`, continued through bindings guarded by a leaving arm (see _guarded_def)."""
    x = expand(e, at, depth=depth)
    for _round in range(depth):
        sub: dict[str, ast.AST] = {}
        for n in ast.walk(x):
            if isinstance(n, ast.Name) and isinstance(n.ctx, ast.Load) and n.id not in sub and reaching_def(n.id, at) is None:
                g = _guarded_def(n.id, at)
                if g is not None:
                    sub[n.id] = expand(g[0], g[1], depth=depth)
        if not sub:
            break

        class _S(ast.NodeTransformer):
            def visit_Name(self, node):  # noqa: N802
                return copy.deepcopy(sub[node.id]) if isinstance(node.ctx, ast.Load) and node.id in sub else node

        x = _S().visit(copy.deepcopy(x))
    return x


class Reader:
    """The reader's decision list over the member name: every `if` whose test is a recognised test of the name variable
    (`name == "lit"` / `name.endswith("lit")`). Which earlier tests are already decided where a test is evaluated is read
    from path facts (dominating branch edges), so an if/elif chain, a sequence of `if …: …; continue` guards and inverted
    `if not …: continue` guards give the same table."""

    def __init__(self, fn: ast.AST):
        self.fn = fn
        self.cfg = CFG(fn)
        self._facts: dict[int, set] = {}
        by_subject: dict[str, list[dict]] = {}
        for n in ast.walk(fn):
            if isinstance(n, ast.If) and enclosing_function(n) is fn:
                neg = False
                t_ = n.test
                while isinstance(t_, ast.UnaryOp) and isinstance(t_.op, ast.Not):
                    neg, t_ = not neg, t_.operand
                t = self._test(t_)
                if t is None:
                    continue
                at = atoms(t_, True)
                if len(at) != 1:
                    continue
                t["atom"] = at[0]  # (normalised text, polarity) meaning "the test holds"
                t["node"] = n
                t["negated"] = neg
                by_subject.setdefault(t["subject"], []).append(t)
        cands = [v for v in by_subject.values() if len(v) >= 2]
        if not cands:
            raise AnchorError(f"`{READER}` has no decision list (if/elif chain or `continue` guards) over file names")
        if len(cands) > 1:
            raise AnchorError(f"reader tests several variables {sorted(by_subject)}")
        self.branches = sorted(cands[0], key=lambda b: (b["node"].lineno, b["node"].col_offset))
        self.subject = self.branches[0]["subject"]
        self.head = self.branches[0]["node"]
        # the same test written twice would make the table ambiguous
        if len({b["atom"][0] for b in self.branches}) != len(self.branches):
            raise AnchorError("reader tests the same file-name condition twice")
        for b in self.branches:
            known_t, known_f = [], []
            for node in self.cfg.nodes_of(b["node"]):
                f = self.facts(node)
                for j, o in enumerate(self.branches):
                    if o is b:
                        continue
                    txt, pol = o["atom"]
                    if (txt, pol) in f:
                        known_t.append(j)
                    elif (txt, not pol) in f:
                        known_f.append(j)
            b["known_true"], b["known_false"] = sorted(set(known_t)), sorted(set(known_f))

    def facts(self, node) -> set:
        if id(node) not in self._facts:
            self._facts[id(node)] = facts_at(self.cfg, node)
        return self._facts[id(node)]

    def _test(self, t: ast.AST) -> dict | None:
        if isinstance(t, ast.Compare) and len(t.ops) == 1 and isinstance(t.ops[0], ast.Eq):
            l, r = t.left, t.comparators[0]
            if isinstance(l, ast.Constant):
                l, r = r, l
            if isinstance(l, ast.Name) and isinstance(r, ast.Constant) and isinstance(r.value, str):
                return {"subject": l.id, "kind": "eq", "text": r.value}
        if isinstance(t, ast.Call) and isinstance(t.func, ast.Attribute) and t.func.attr == "endswith" and isinstance(t.func.value, ast.Name) and len(t.args) == 1 and isinstance(t.args[0], ast.Constant) and isinstance(t.args[0].value, str):
            return {"subject": t.func.value.id, "kind": "suffix", "text": t.args[0].value}
        return None

    def analyse_branch(self, b: dict) -> None:
        """strip suffix, destination container, codec chain of the stored value: read from the assignments that execute
        only when the branch's test holds (path fact), wherever they are written."""
        b["strip"] = None
        b["dest"] = None
        b["ops"] = None
        b["codec_expr"] = None
        b["store"] = None  # the statement that stores the decoded value (R7 evaluates it)
        for n in ast.walk(self.fn):
            if isinstance(n, ast.Assign) and len(n.targets) == 1 and enclosing_function(n) is self.fn:
                nodes = self.cfg.nodes_of(n)
                if not nodes or not all(b["atom"] in self.facts(x) for x in nodes):
                    continue
                tgt, val = n.targets[0], n.value
                if isinstance(tgt, ast.Subscript) and isinstance(tgt.value, ast.Name):
                    b["dest"] = tgt.value.id
                    key = expand(tgt.slice, n, depth=1)
                    b["strip"] = _strip_of(key, self.subject)
                    b["codec_expr"] = _xexpand(val, n, depth=4)
                    ops, _root = codec_chain(b["codec_expr"])
                    b["ops"] = ops
                    b["store"] = n
                elif isinstance(tgt, ast.Name):
                    ops, root = codec_chain(val)
                    if ops and b["dest"] is None and not any(isinstance(x, ast.Name) and x.id == self.subject for x in ast.walk(val)):
                        b["dest"] = tgt.id
                        b["ops"] = ops
                        b["codec_expr"] = val
                        b["strip"] = ""


def _strip_of(key: ast.AST, subject: str) -> str | None:
    """Literal suffix removed from the file name to obtain the key (None if not understood)."""
    if isinstance(key, ast.Call) and isinstance(key.func, ast.Attribute) and isinstance(key.func.value, ast.Name) and key.func.value.id == subject:
        if key.func.attr == "removesuffix" and len(key.args) == 1 and isinstance(key.args[0], ast.Constant):
            return key.args[0].value
    if isinstance(key, ast.Subscript) and isinstance(key.value, ast.Name) and key.value.id == subject and isinstance(key.slice, ast.Slice) and key.slice.lower is None:
        up = key.slice.upper
        if isinstance(up, ast.UnaryOp) and isinstance(up.op, ast.USub):
            v = up.operand
            if isinstance(v, ast.Constant) and isinstance(v.value, int):
                return "?" * v.value  # length only
            if isinstance(v, ast.Call) and call_name(v) == "len" and isinstance(v.args[0], ast.Constant):
                return v.args[0].value
    if isinstance(key, ast.Name) and key.id == subject:
        return ""
    return None


def _source_names(e: ast.AST) -> set[str]:
    """Names a value is taken *from*: for `X.get(k, d)` / `X[k]` only X (k is a key, not a source)."""
    if isinstance(e, ast.Call) and isinstance(e.func, ast.Attribute) and e.func.attr == "get":
        return _source_names(e.func.value)
    if isinstance(e, ast.Subscript):
        return _source_names(e.value)
    return {n.id for n in ast.walk(e) if isinstance(n, ast.Name)}


def _dest_fields(fn: ast.AST, dests: set[str]) -> dict[str, set[str]]:
    """container variable -> BackupEntry fields it feeds."""
    out: dict[str, set[str]] = {d: set() for d in dests}
    ctor = [c for c in ast.walk(fn) if isinstance(c, ast.Call) and last(call_name(c)) == "BackupEntry"]
    if not ctor:
        raise AnchorError("reader builds no BackupEntry")
    for c in ctor:
        for k in c.keywords:
            names = _source_names(k.value)
            for _round in range(2):
                for n in list(names):
                    # plain locals (`meta = meta_files.get(name, {})`)
                    for a in ast.walk(fn):
                        if isinstance(a, ast.Assign) and len(a.targets) == 1 and isinstance(a.targets[0], ast.Name) and a.targets[0].id == n and not isinstance(a.value, (ast.Dict, ast.List, ast.Constant)):
                            names |= _source_names(a.value)
                    # loop targets (`for name, cr in cr_files.items()`)
                    for loop in ast.walk(fn):
                        if isinstance(loop, ast.For) and any(isinstance(t, ast.Name) and t.id == n for t in ast.walk(loop.target)) and any(x_ is c for x_ in ast.walk(loop)):
                            names |= {m.id for m in ast.walk(loop.iter) if isinstance(m, ast.Name)}
                        # the same loop written as a comprehension (`[BackupEntry(…) for name, cr in cr_files.items()]`)
                        if isinstance(loop, (ast.ListComp, ast.GeneratorExp, ast.SetComp)) and any(x_ is c for x_ in ast.walk(loop.elt)):
                            for g in loop.generators:
                                if any(isinstance(t, ast.Name) and t.id == n for t in ast.walk(g.target)):
                                    names |= {m.id for m in ast.walk(g.iter) if isinstance(m, ast.Name)}
            for d in dests:
                if d in names:
                    out[d].add(k.arg)
    return out


# ------------------------------------------------------------------------------ R6 helpers (codec options)
_UNREAD = object()
YAML_DUMP, YAML_LOAD = ("yaml.dump", "yaml.safe_dump"), ("yaml.safe_load", "yaml.load", "yaml.full_load")
# Options of the PyYAML writer with no effect on what safe_load returns (layout only); measured by triage/t_c33_yaml_options.py
# over every code point U+0001..U+2FFF in three positions plus folding-prone strings, as values, list items and keys.
YAML_LAYOUT = {"default_flow_style", "sort_keys", "indent", "width", "explicit_start", "explicit_end", "canonical", "line_break"}
YAML_STYLES_OK = (None, '"', "'", "|")  # measured lossless; '>' (folded) is measured lossy: lines that start with a space are re-folded
YAML_DUMPERS = {"yaml.SafeDumper", "yaml.Dumper", "SafeDumper", "Dumper"}  # pure-Python emitters (same Emitter class as the default)
YAML_LOADERS = {"yaml.SafeLoader", "yaml.FullLoader", "yaml.Loader", "yaml.UnsafeLoader", "SafeLoader", "FullLoader", "Loader", "UnsafeLoader"}
JSON_LAYOUT = {"indent", "sort_keys", "ensure_ascii", "check_circular", "allow_nan"}  # text layout / what is refused; never what loads returns


def _opt_value(e: ast.AST, consts: dict[str, ast.AST], depth: int = 0):
    """The constant an option expression always evaluates to (literal, tuple of literals, ±literal, `float("inf")`, a module-level
    constant), or _UNREAD."""
    if isinstance(e, ast.Constant):
        return e.value
    if isinstance(e, ast.UnaryOp) and isinstance(e.op, (ast.USub, ast.Not)):
        v = _opt_value(e.operand, consts, depth + 1)
        if v is _UNREAD:
            return v
        return (not v) if isinstance(e.op, ast.Not) else (-v if isinstance(v, (int, float)) else _UNREAD)
    if isinstance(e, (ast.Tuple, ast.List)):
        vs = [_opt_value(x, consts, depth + 1) for x in e.elts]
        return _UNREAD if any(v is _UNREAD for v in vs) else tuple(vs)
    if isinstance(e, ast.Call) and call_name(e) == "float" and len(e.args) == 1 and isinstance(e.args[0], ast.Constant) and isinstance(e.args[0].value, str) and not e.keywords:
        try:
            return float(e.args[0].value)
        except ValueError:
            return _UNREAD
    if isinstance(e, ast.Name) and e.id in consts and depth < 4:
        return _opt_value(consts[e.id], consts, depth + 1)
    if isinstance(e, ast.Attribute) and dotted(e) in ("math.inf", "sys.maxsize"):
        return float("inf")
    return _UNREAD


def _ascii_only(e: ast.AST) -> bool:
    """The value is built from ASCII literals, numbers, booleans and lengths only: no caller-supplied text can occur in it."""
    if isinstance(e, ast.Constant):
        return e.value is None or isinstance(e.value, (bool, int, float)) or (isinstance(e.value, str) and e.value.isascii() and e.value.isprintable())
    if isinstance(e, ast.Dict):
        return all(k is not None and _ascii_only(k) for k in e.keys) and all(_ascii_only(v) for v in e.values)
    if isinstance(e, (ast.List, ast.Tuple)):
        return all(_ascii_only(x) for x in e.elts)
    if isinstance(e, ast.Call) and call_name(e) in ("len", "bool", "int") and not e.keywords:
        return True
    if isinstance(e, ast.Compare):
        return True
    if isinstance(e, ast.UnaryOp) and isinstance(e.op, ast.Not):
        return True
    return False


def _codec_calls(e: ast.AST | None, names: tuple) -> list[ast.Call]:
    return [c for c in ast.walk(e) if isinstance(c, ast.Call) and (call_name(c) or "") in names] if e is not None else []


def _kw_items(c: ast.Call, npos: int, what: str) -> list[tuple[str, ast.AST]]:
    if len(c.args) > npos:
        raise AnchorError(f"C33.R6: {what} at line {c.lineno} passes options positionally: cannot tell which")
    out = []
    for k in c.keywords:
        if k.arg is None:
            raise AnchorError(f"C33.R6: {what} at line {c.lineno} takes its options from `**{ast.unparse(k.value)[:40]}`: cannot tell which are passed")
        out.append((k.arg, k.value))
    return out


def writer_option_faults(c: ast.Call, consts: dict[str, ast.AST]) -> list[str]:
    """Options of one encoding call that take the output outside what the matching decoder reads back unchanged (reasons; [] = none).
    An option the table does not know, or a value that is not a constant, raises AnchorError."""
    n = call_name(c) or ""
    faults: list[str] = []
    if n in YAML_DUMP:
        items = _kw_items(c, 1, f"`{n}`")
        style = _opt_value(dict(items)["default_style"], consts) if "default_style" in dict(items) else None
        for k, v in items:
            if k in YAML_LAYOUT:
                continue
            val = _opt_value(v, consts)
            if k == "Dumper":
                if dotted(v) in YAML_DUMPERS:
                    continue
                raise AnchorError(f"C33.R6: `{n}(…, Dumper={ast.unparse(v)[:40]})` at line {c.lineno}: an emitter whose escaping the rule does not know")
            if val is _UNREAD:
                raise AnchorError(f"C33.R6: option `{k}={ast.unparse(v)[:40]}` of `{n}` at line {c.lineno} is not a constant the rule can read")
            if k == "default_style":
                if val == ">":
                    faults.append("`default_style='>'` writes every string as a folded block scalar; text lines that begin with a space are re-folded on reading (measured: `' x x x …'` does not come back)")
                elif val not in YAML_STYLES_OK:
                    raise AnchorError(f"C33.R6: `default_style={val!r}` of `{n}` at line {c.lineno}: a scalar style the rule has no measurement for")
                continue
            if k == "allow_unicode":
                if val:
                    if (c.args and _ascii_only(c.args[0])) or style == '"':
                        continue  # nothing but ASCII can occur / double-quoted scalars escape the line-break characters (\N, \L, \P) even when written raw otherwise
                    faults.append("`allow_unicode=True` makes PyYAML write non-ASCII characters raw instead of as escapes; U+0085 (NEL) is then emitted unescaped inside a quoted scalar, "
                                  "it is a YAML line break, and the loader folds it into a space (`'a\\x85b'` comes back as `'a b'`): a deployment field, secret key or secret value "
                                  "containing it is restored as a different string, encrypted or not. Leave allow_unicode at its default (everything non-ASCII escaped)")
                continue
            if k == "encoding" and (val is None or (isinstance(val, str) and val.lower().replace("-", "") == "utf8")):
                continue
            raise AnchorError(f"C33.R6: option `{k}` of `{n}` at line {c.lineno}: the rule does not know its effect on the round trip")
    elif n == "json.dumps":
        for k, v in _kw_items(c, 1, "`json.dumps`"):
            if k in JSON_LAYOUT:
                continue
            val = _opt_value(v, consts)
            if k == "separators":
                if val is None:
                    continue
                if val is _UNREAD or not (isinstance(val, tuple) and len(val) == 2 and all(isinstance(x, str) for x in val)):
                    raise AnchorError(f"C33.R6: `separators={ast.unparse(v)[:40]}` of json.dumps at line {c.lineno} is not a constant pair")
                if val[0].strip() != "," or val[1].strip() != ":":
                    faults.append(f"`separators={val!r}` writes text that is not JSON: json.loads rejects it (or splits it differently), the file cannot be read back")
                continue
            raise AnchorError(f"C33.R6: option `{k}` of json.dumps at line {c.lineno}: the rule does not know its effect on the round trip")
    return faults


def reader_option_check(c: ast.Call) -> None:
    """Decoding calls may carry only options that do not change the decoded value; anything else cannot be judged (AnchorError)."""
    n = call_name(c) or ""
    if n in ("yaml.safe_load", "yaml.full_load"):
        if _kw_items(c, 1, f"`{n}`"):
            raise AnchorError(f"C33.R6: `{n}` at line {c.lineno} is given options")
    elif n == "yaml.load":
        ld = kwarg(c, "Loader", 1)
        if ld is None or dotted(ld) not in YAML_LOADERS or len(c.keywords) + len(c.args) > 2:
            raise AnchorError(f"C33.R6: `yaml.load` at line {c.lineno}: loader `{ast.unparse(ld)[:40] if ld is not None else None}` is not one whose scanner the rule knows")
    elif n == "json.loads":
        for k, v in _kw_items(c, 1, "`json.loads`"):
            if k != "strict":
                raise AnchorError(f"C33.R6: option `{k}` of json.loads at line {c.lineno} replaces decoded values by something the rule cannot evaluate")


# ------------------------------------------------------------------------------ R2 helpers
def _const_int(e: ast.AST, consts: dict[str, ast.AST], depth: int = 0) -> int | None:
    if isinstance(e, ast.Constant) and isinstance(e.value, int):
        return e.value
    if isinstance(e, ast.Name) and e.id in consts and depth < 5:
        return _const_int(consts[e.id], consts, depth + 1)
    if isinstance(e, ast.BinOp) and isinstance(e.op, (ast.Add, ast.Sub, ast.Mult)):
        a, b = _const_int(e.left, consts, depth + 1), _const_int(e.right, consts, depth + 1)
        if a is None or b is None:
            return None
        return a + b if isinstance(e.op, ast.Add) else a - b if isinstance(e.op, ast.Sub) else a * b
    return None


def _flatten_add(e: ast.AST, depth: int = 3) -> list[ast.AST]:
    """Operands of a concatenation, looking through a local that names a partial concatenation (`header = salt + nonce`)."""
    if isinstance(e, ast.BinOp) and isinstance(e.op, ast.Add):
        return _flatten_add(e.left, depth) + _flatten_add(e.right, depth)
    if isinstance(e, ast.Name) and depth > 0:
        d = reaching_def(e.id, e)
        if isinstance(d, ast.BinOp) and isinstance(d.op, ast.Add):
            return _flatten_add(d, depth - 1)
    return [e]


def _resolve(e: ast.AST, depth: int = 6) -> ast.AST:
    """The expression a local stands for, through straight-line assignments, tuple packing and unpacking
    (`t = (a, b); x, y = t`  ->  x is a)."""
    while depth > 0:
        depth -= 1
        if isinstance(e, ast.Name) and isinstance(e.ctx, ast.Load) and parent(e) is not None:
            d = reaching_def(e.id, e)
            if d is None:
                return e
            e = d
        elif isinstance(e, ast.Subscript) and isinstance(e.slice, ast.Constant) and isinstance(e.slice.value, int):
            inner = _resolve(e.value, depth)
            if isinstance(inner, (ast.Tuple, ast.List)) and -len(inner.elts) <= e.slice.value < len(inner.elts) and not any(isinstance(x, ast.Starred) for x in inner.elts):
                e = inner.elts[e.slice.value]
            else:
                return e
        else:
            return e
    return e


def layout_of_encrypt(fn: ast.AST, consts: dict[str, ast.AST]) -> dict:
    rets = [r for r in ast.walk(fn) if isinstance(r, ast.Return) and r.value is not None]
    if len(rets) != 1:
        raise AnchorError("encrypt has not exactly one return")
    parts = _flatten_add(rets[0].value)
    segs = []
    off: int | None = 0
    for p in parts:
        x = expand(p, rets[0], depth=3)
        length = None
        role = "?"
        if isinstance(x, ast.Call) and last(call_name(x)) in ("urandom", "token_bytes") and x.args:
            length = _const_int(x.args[0], consts)
            if length is None:
                raise AnchorError("random segment length is not a module constant")
        elif isinstance(x, ast.Call) and isinstance(x.func, ast.Attribute) and x.func.attr == "encrypt":
            role = "ciphertext"
        segs.append({"expr": p, "name": dotted(p), "off": off, "len": length, "role": role})
        off = None if (off is None or length is None) else off + length
    # roles of the random segments from their use
    kdf = [c for c in ast.walk(fn) if isinstance(c, ast.Call) and last(call_name(c)) not in (None,) and "derive" in (last(call_name(c)) or "")]
    enc = [c for c in ast.walk(fn) if isinstance(c, ast.Call) and isinstance(c.func, ast.Attribute) and c.func.attr == "encrypt"]
    if not kdf or not enc:
        raise AnchorError("encrypt has no key derivation / AEAD encrypt call")
    for s in segs:
        if s["role"] == "?" and s["name"]:
            if any(isinstance(a, ast.Name) and a.id == s["name"] for a in kdf[0].args + [k.value for k in kdf[0].keywords]):
                s["role"] = "salt"
            elif enc[0].args and isinstance(enc[0].args[0], ast.Name) and enc[0].args[0].id == s["name"]:
                s["role"] = "nonce"
    return {"segs": segs, "kdf": kdf[0], "aead": enc[0]}


def layout_of_decrypt(fn: ast.AST, consts: dict[str, ast.AST]) -> dict:
    params = [a.arg for a in fn.args.args]
    if not params:
        raise AnchorError("decrypt takes no data parameter")
    data = params[0]
    def data_slice(a: ast.AST) -> tuple[int | None, int | None] | None:
        """[lo:hi] when the argument is (a local standing for) a constant slice of the data parameter."""
        sub = _resolve(a)
        if isinstance(sub, ast.Subscript) and isinstance(sub.value, ast.Name) and sub.value.id == data and isinstance(sub.slice, ast.Slice) and sub.slice.step is None:
            lo = 0 if sub.slice.lower is None else _const_int(sub.slice.lower, consts)
            hi = None if sub.slice.upper is None else _const_int(sub.slice.upper, consts)
            if lo is None or (sub.slice.upper is not None and hi is None):
                raise AnchorError(f"slice bound in decrypt is not a constant expression: {ast.unparse(sub)}")
            return (lo, hi)
        return None

    kdf = [c for c in ast.walk(fn) if isinstance(c, ast.Call) and "derive" in (last(call_name(c)) or "")]
    dec = [c for c in ast.walk(fn) if isinstance(c, ast.Call) and isinstance(c.func, ast.Attribute) and c.func.attr == "decrypt"]
    if not kdf or not dec:
        raise AnchorError("decrypt has no key derivation / AEAD decrypt call")
    roles: dict[str, tuple[int | None, int | None] | None] = {"salt": None, "nonce": None, "ciphertext": None}
    for a in kdf[0].args + [k.value for k in kdf[0].keywords]:
        sl = data_slice(a)
        if sl is not None:
            roles["salt"] = sl
    if len(dec[0].args) >= 2:
        roles["nonce"] = data_slice(dec[0].args[0])
        roles["ciphertext"] = data_slice(dec[0].args[1])
    return {"roles": roles, "kdf": kdf[0], "aead": dec[0], "data": data}


# ------------------------------------------------------------------------------ R3 helpers
def classify_tests(root: ast.AST, var: str) -> list[tuple[ast.AST, str, bool]]:
    """Tests of ``var`` under root: (node, 'none'|'truthy'|'other', polarity: True = 'password present')."""
    out = []
    for n in ast.walk(root):
        if isinstance(n, ast.Name) and n.id == var and isinstance(n.ctx, ast.Load):
            p = parent(n)
            if isinstance(p, ast.Compare) and len(p.ops) == 1 and p.left is n:
                op, r = p.ops[0], p.comparators[0]
                if isinstance(op, (ast.Is, ast.IsNot)) and isinstance(r, ast.Constant) and r.value is None:
                    out.append((p, "none", isinstance(op, ast.IsNot)))
                else:
                    out.append((p, "other", True))
            elif isinstance(p, (ast.If, ast.IfExp, ast.While)) and p.test is n:
                out.append((n, "truthy", True))
            elif isinstance(p, ast.UnaryOp) and isinstance(p.op, ast.Not):
                out.append((p, "truthy", False))
            elif isinstance(p, ast.BoolOp):
                out.append((n, "truthy", True))
            elif isinstance(p, ast.Call) and call_name(p) == "bool":
                out.append((p, "truthy", True))
    return out


def _contains(root: ast.AST, node: ast.AST) -> bool:
    return any(x is node for x in ast.walk(root))



# ------------------------------------------------------------------------------ R5 helpers
_LOSSY_STR_METHODS = {
    "strip", "lstrip", "rstrip", "lower", "upper", "casefold", "title", "capitalize", "swapcase", "replace", "split", "rsplit",
    "splitlines", "partition", "rpartition", "removeprefix", "removesuffix", "expandtabs", "translate", "center", "ljust", "rjust", "zfill",
}


def _value_defs(fn: ast.AST) -> dict[str, list[ast.AST]]:
    """name -> every expression whose value may be bound to it anywhere in fn (flow-insensitive)."""
    table: dict[str, list[ast.AST]] = {}

    def bind(t: ast.AST, v: ast.AST) -> None:
        if isinstance(t, ast.Name):
            table.setdefault(t.id, []).append(v)
        elif isinstance(t, (ast.Tuple, ast.List)):
            if isinstance(v, (ast.Tuple, ast.List)) and len(v.elts) == len(t.elts) and not any(isinstance(x, ast.Starred) for x in t.elts + v.elts):
                for a, b in zip(t.elts, v.elts):
                    bind(a, b)
            else:
                for a in t.elts:
                    bind(a.value if isinstance(a, ast.Starred) else a, v)

    for st in ast.walk(fn):
        if isinstance(st, ast.Assign):
            for t in st.targets:
                bind(t, st.value)
        elif isinstance(st, ast.AnnAssign) and st.value is not None:
            bind(st.target, st.value)
        elif isinstance(st, ast.AugAssign) and isinstance(st.target, ast.Name):
            bind(st.target, ast.BinOp(left=ast.Name(id=st.target.id, ctx=ast.Load()), op=st.op, right=st.value))
        elif isinstance(st, ast.NamedExpr):
            bind(st.target, st.value)
        elif isinstance(st, (ast.For, ast.AsyncFor, ast.comprehension)):
            bind(st.target, st.iter)
        elif isinstance(st, (ast.With, ast.AsyncWith)):
            for it in st.items:
                if it.optional_vars is not None:
                    bind(it.optional_vars, it.context_expr)
    return table


def _subst(e: ast.AST, targets: set[int]) -> ast.AST:
    """Copy of e with the sub-expressions whose identity is in targets replaced by the placeholder PW."""
    if id(e) in targets:
        return ast.Name(id="PW", ctx=ast.Load())
    new = copy.copy(e)
    for fld, val in ast.iter_fields(e):
        if isinstance(val, ast.AST):
            setattr(new, fld, _subst(val, targets))
        elif isinstance(val, list):
            setattr(new, fld, [(_subst(v, targets) if isinstance(v, ast.AST) else v) for v in val])
    return new


def _codec(c: ast.AST | None) -> str | None:
    if c is None:
        return "utf8"
    if isinstance(c, ast.Constant) and isinstance(c.value, str):
        return c.value.lower().replace("-", "").replace("_", "")
    return None


def _classify_op(e: ast.AST, carriers: list[ast.AST]) -> tuple[str, str]:
    """(kind, normal form) of one operation applied to the password value(s) `carriers` inside e.
    kind: 'same' (value unchanged), 'inj' (distinct passwords stay distinct: a strict text encoding, a constant affix),
    'lossy' (distinct passwords can become equal), 'unknown'."""
    text = " ".join(ast.unparse(_subst(e, {id(c) for c in carriers})).split())
    one = carriers[0] if len(carriers) == 1 else None
    if isinstance(e, ast.Call) and one is not None:
        kws = {k.arg: k.value for k in e.keywords}
        if isinstance(e.func, ast.Attribute) and e.func.value is one:
            if e.func.attr == "encode" and None not in kws:
                enc = e.args[0] if e.args else kws.get("encoding")
                err = e.args[1] if len(e.args) > 1 else kws.get("errors")
                cod = _codec(enc)
                if cod is not None and len(e.args) <= 2 and set(kws) <= {"encoding", "errors"}:
                    if err is None or (isinstance(err, ast.Constant) and err.value == "strict"):
                        return "inj", f"encode[{cod}]"
                    return "lossy", text
            if e.func.attr in _LOSSY_STR_METHODS:
                return "lossy", text
            return "unknown", text
        fname = call_name(e)
        if fname == "str" and e.args == [one] and not kws:
            return "same", text
        if last(fname) == "cast" and len(e.args) == 2 and e.args[1] is one and not kws:
            return "same", text
        if fname == "bytes" and e.args and e.args[0] is one:
            enc = e.args[1] if len(e.args) > 1 else kws.get("encoding")
            err = e.args[2] if len(e.args) > 2 else kws.get("errors")
            cod = _codec(enc) if enc is not None else None
            if cod is not None and set(kws) <= {"encoding", "errors"}:
                if err is None or (isinstance(err, ast.Constant) and err.value == "strict"):
                    return "inj", f"encode[{cod}]"
                return "lossy", text
        return "unknown", text
    if isinstance(e, ast.Subscript) and e.value is one:
        return "lossy", text
    if isinstance(e, ast.JoinedStr) and one is not None:
        fv = [v for v in e.values if isinstance(v, ast.FormattedValue)]
        if len(fv) == 1 and fv[0].value is one and fv[0].conversion in (-1, 115) and fv[0].format_spec is None:
            return ("same" if len(e.values) == 1 else "inj"), text
        return "unknown", text
    if isinstance(e, ast.FormattedValue):
        return "unknown", text
    if isinstance(e, ast.BinOp) and isinstance(e.op, ast.Add) and one is not None:
        other = e.right if e.left is one else e.left
        if isinstance(other, ast.Constant) and isinstance(other.value, (str, bytes)):
            return "inj", text
    return "unknown", text


class PwFlow:
    """What can reach one password sink, by value: does the function's own password parameter reach it, which operations
    are applied to it on the way (flow-insensitive over the function's assignments; the tests that merely decide *whether*
    an assignment runs are control, not value), and which other sources (constants, other names) can reach it instead."""

    def __init__(self, fn: ast.AST, param: str, sink: ast.AST):
        self.fn, self.param, self.sink = fn, param, sink
        self.ops: list[tuple[str, str, ast.AST]] = []  # (kind, normal form, node)
        self.foreign: list[str] = []
        self.hit = False
        self.defs = _value_defs(fn)
        derived = {param}
        grew = True
        while grew:
            grew = False
            for n, vals in self.defs.items():
                if n not in derived and any(self._carries(v, derived) for v in vals):
                    derived.add(n)
                    grew = True
        self.derived = derived
        self._seen: set[str] = set()
        self._visit(sink)

    @staticmethod
    def _carries(e: ast.AST, derived: set[str]) -> bool:
        return any(isinstance(x, ast.Name) and isinstance(x.ctx, ast.Load) and x.id in derived for x in ast.walk(e))

    def _visit(self, e: ast.AST) -> None:
        if isinstance(e, ast.Name):
            if e.id == self.param:
                self.hit = True
            if e.id in self._seen:
                return
            self._seen.add(e.id)
            vals = self.defs.get(e.id, [])
            if not vals and e.id != self.param:
                self.foreign.append(f"`{e.id}`")
            for v in vals:
                self._visit(v)
        elif isinstance(e, ast.Constant):
            if e.value is not None:
                self.foreign.append(f"the constant {e.value!r}")
        elif isinstance(e, ast.IfExp):
            self._visit(e.body)
            self._visit(e.orelse)
        elif isinstance(e, ast.BoolOp):
            for v in e.values:
                self._visit(v)
        elif isinstance(e, ast.NamedExpr):
            self._visit(e.value)
        else:
            if isinstance(e, ast.Call) and isinstance(e.func, ast.Attribute):
                children = [e.func.value] + list(e.args) + [k.value for k in e.keywords]
            elif isinstance(e, ast.JoinedStr):
                children = [v.value for v in e.values if isinstance(v, ast.FormattedValue)]
            else:
                children = [c for c in ast.iter_child_nodes(e) if isinstance(c, ast.expr)]
            carriers = [c for c in children if self._carries(c, self.derived)]
            if not carriers:
                self.foreign.append(f"`{ast.unparse(e)[:50]}`")
                return
            kind, form = _classify_op(e, carriers)
            self.ops.append((kind, form, e))
            for c in carriers:
                self._visit(c)

    def forms(self) -> set[str]:
        """Normal forms of the value-changing operations (and foreign sources) on the way to the sink."""
        return {f for k, f, _n in self.ops if k != "same"} | {"from " + s for s in self.foreign} | (set() if self.hit else {"parameter unused"})


def _kdf_input(kfn: ast.AST) -> ast.AST:
    """The expression handed to the primitive key derivation inside a key-derivation function."""
    for c in ast.walk(kfn):
        if isinstance(c, ast.Call) and isinstance(c.func, ast.Attribute) and c.func.attr == "derive" and c.args:
            return c.args[0]
        if isinstance(c, ast.Call) and last(call_name(c)) == "pbkdf2_hmac":
            a = kwarg(c, "password", 1)
            if a is not None:
                return a
    raise AnchorError(f"`{getattr(kfn, 'name', '?')}` hands nothing to a primitive key derivation (`.derive(...)` / `pbkdf2_hmac`) the rule recognises")


# ------------------------------------------------------------------------------ R7 helpers (optional values: present-but-empty is not absent)
_N = "web"  # the deployment name the finite evaluation uses (a word of the `_DNS_1035_RE` language)
_SAMPLES: dict[str, list] = {
    "dict": [{}, {"k": "v"}], "list": [[], ["x"]], "str": ["", "x"], "int": [0, 1], "float": [0.0, 1.5], "bool": [False, True],
}
_TYPE_ALIASES = {"Dict": "dict", "Mapping": "dict", "MutableMapping": "dict", "List": "list", "Sequence": "list"}
_ENCODERS, _DECODERS = YAML_DUMP + ("json.dumps",), YAML_LOAD + ("json.loads",)


def _type_head(t: ast.AST | None) -> str | None:
    if isinstance(t, ast.Subscript):
        t = t.value
    n = last(dotted(t)) if t is not None else None
    return _TYPE_ALIASES.get(n, n) if n else None


def _strip_optional(t: ast.AST | None) -> list[ast.AST]:
    """Members of a declared type other than None (`X | None`, `Optional[X]`, `Union[X, None]`)."""
    if t is None:
        return []
    if isinstance(t, ast.Constant) and isinstance(t.value, str):
        try:
            t = ast.parse(t.value, mode="eval").body
        except SyntaxError:
            return []
    if isinstance(t, ast.BinOp) and isinstance(t.op, ast.BitOr):
        return _strip_optional(t.left) + _strip_optional(t.right)
    if isinstance(t, ast.Constant) and t.value is None:
        return []
    if isinstance(t, ast.Subscript) and last(dotted(t.value)) in ("Optional", "Union"):
        elts = t.slice.elts if isinstance(t.slice, ast.Tuple) else [t.slice]
        return [m for x in elts for m in _strip_optional(x)]
    return [t]


def value_samples(ann: ast.AST | None) -> tuple[str, list]:
    """The values a map parameter may hold under one name, read from its declared type `dict[str, V]` (optional or not): for
    every kind V admits, its falsy member and a truthy one.  Undeclared / `Any` / a type the table does not know: every kind."""
    every = [v for vs in _SAMPLES.values() for v in vs]
    members = _strip_optional(ann)
    if len(members) != 1 or _type_head(members[0]) != "dict" or not isinstance(members[0], ast.Subscript):
        return "Any", every
    sl = members[0].slice
    if not (isinstance(sl, ast.Tuple) and len(sl.elts) == 2):
        return "Any", every
    out: list = []
    for m in _strip_optional(sl.elts[1]):
        h = _type_head(m)
        if h not in _SAMPLES:
            return "Any", every
        out += [v for v in _SAMPLES[h] if not any(type(v) is type(o) and v == o for o in out)]
    return ast.unparse(sl.elts[1]), out or every


def _text_of(v) -> Record:
    """Model of an encoded document: whatever is done to it as text / bytes (`.encode()`, encryption) leaves what it decodes to."""
    r = Record("EncodedText", value=v)
    r.__dict__["encode"] = r.__dict__["decode"] = lambda *a, **k: r
    return r


_LOCALS: dict[int, tuple[ast.AST, set[str]]] = {}  # function (kept alive with its id) -> names it binds


class _Ev(Interp):
    """absint.Interp over expressions *in place* (nodes of the analysed function): a name the environment does not bind is
    the loop / comprehension variable of an enclosing loop (first element of the evaluated iterable), or stands for its one
    reaching straight-line definition (also the `if missing: raise … else: x = v` shape), evaluated where it is written.
    Codecs are modelled as exact inverses (their agreement is R1 / R6): dump -> EncodedText(value), load -> value, encrypt /
    decrypt -> the data argument; `<file>.read()` gives the member's content the rule injected."""

    def __init__(self, content=None):
        super().__init__({})
        self.content = content
        self.depth = 0

    def e_NamedExpr(self, e, env):
        v = self.eval(e.value, env)
        env[e.target.id] = v
        return v

    def e_Name(self, e, env):
        if e.id in env or not isinstance(e.ctx, ast.Load) or parent(e) is None or self.depth > 12:
            return super().e_Name(e, env)
        below: ast.AST = e
        for a in ancestors(e):
            gens = a.generators if isinstance(a, (ast.ListComp, ast.SetComp, ast.DictComp, ast.GeneratorExp)) else [a] if isinstance(a, (ast.For, ast.AsyncFor)) and below is not a.iter else []
            for g in gens:
                if any(isinstance(t, ast.Name) and t.id == e.id for t in ast.walk(g.target)):
                    items = list(self.eval(g.iter, env))
                    if not items:
                        raise EvalUnsupported(f"loop over `{ast.unparse(g.iter)[:40]}` has no element in the sample")
                    self.assign(g.target, items[0], env)
                    return env[e.id]
            if isinstance(a, FuncNode):
                break
            below = a
        d = reaching_def(e.id, e)
        if d is None:
            g_ = _guarded_def(e.id, e)
            d = g_[0] if g_ is not None else None
        fn_ = enclosing_function(e) or e
        if d is None and e.id not in _LOCALS.setdefault(id(fn_), (fn_, set(_value_defs(fn_))))[1]:
            # not a local at all: a module-level constant (`_NO_SECRET = None`), bound once at the top level
            top = [x for x in ancestors(e) if isinstance(x, ast.Module)]
            tops = [n.value for n in (top[0].body if top else []) if isinstance(n, (ast.Assign, ast.AnnAssign)) and n.value is not None
                    and any(isinstance(t, ast.Name) and t.id == e.id for t in (n.targets if isinstance(n, ast.Assign) else [n.target]))]
            d = tops[0] if len(tops) == 1 else None
        if d is not None:
            self.depth += 1
            try:
                return self.eval(d, env)
            finally:
                self.depth -= 1
        return super().e_Name(e, env)

    def e_Call(self, e, env):
        n = call_name(e) or ""
        if n in _ENCODERS and e.args:
            return _text_of(self.eval(e.args[0], env))
        if n in _DECODERS and e.args:
            x = self.eval(e.args[0], env)
            return x.value if isinstance(x, Record) and x._cls == "EncodedText" else x
        if last(n) in ("encrypt", "decrypt") and e.args and not isinstance(e.func, ast.Attribute):
            vals = [self.eval(a, env) for a in e.args] + [self.eval(k.value, env) for k in e.keywords]
            return vals[0]
        if isinstance(e.func, ast.Attribute) and e.func.attr == "read" and not e.args and self.content is not None:
            return self.content
        return super().e_Call(e, env)


def _same(a, b) -> bool:
    return type(a) is type(b) and a == b


def _path_tests(cfg: CFG, stmt: ast.AST) -> list[tuple[ast.AST, bool]]:
    """(if / while statement, outcome of its test) for every branch edge each path from the function entry to `stmt` takes."""
    out: dict[int, tuple[ast.AST, bool]] = {}
    for n in cfg.nodes_of(stmt):
        for t, lab in cfg.guards(n):
            if t.kind == "test" and lab in ("T", "F") and getattr(t.ast, "test", None) is not None:
                out[id(t.ast)] = (t.ast, lab == "T")
    return sorted(out.values(), key=lambda x: (x[0].lineno, x[0].col_offset))


def _may_read(e: ast.AST, defs: dict[str, list[ast.AST]], names: set[str], reads_file: bool = False) -> bool:
    """Can the value of `e` depend (through any assignment of the function, flow-insensitive) on one of `names` / on file content?"""
    seen: set[str] = set()
    work = [e]
    while work:
        x = work.pop()
        for n in ast.walk(x):
            if isinstance(n, ast.Name):
                if n.id in names:
                    return True
                if n.id not in seen:
                    seen.add(n.id)
                    work.extend(defs.get(n.id, []))
            elif reads_file and isinstance(n, ast.Call) and isinstance(n.func, ast.Attribute) and n.func.attr == "read":
                return True
    return False


def _root_by_flow(data_e: ast.AST, fn: ast.AST) -> str | None:
    """Role parameter a payload is taken from when it is not reachable through straight-line locals (a name bound by `:=`
    inside a test, bound in both arms of an `if`, …): any assignment that can flow into it; a map role wins over `deployments`
    (the deployment name, which every payload is looked up under, comes from there)."""
    params = {a.arg for a in fn.args.args + fn.args.kwonlyargs}
    defs = _value_defs(fn)
    hit = [r for r in ROLE_FIELD if r in params and _may_read(data_e, defs, {r})]
    return next((r for r in hit if r != "deployments"), hit[0] if hit else None)


def _run_tests(ev: _Ev, tests: list[tuple[ast.AST, bool]], env: dict, defs, names: set[str], selectors: set[str], reads_file: bool, what: str) -> list[tuple[ast.AST, str]]:
    """Evaluate the tests on the way to a site that the value under study (`names` / file content) or a selector (the password,
    the member name: they choose *which* site handles the value) can flow into; [(failing test, why)].  Every other test is about
    something else (the deployment document, the tar member) and is taken to let the site be reached.  A test of the value that the
    evaluator cannot decide is an analysis error; an undecidable selector test is skipped."""
    failing: list[tuple[ast.AST, str]] = []
    for node, want in tests:
        dep = _may_read(node.test, defs, names, reads_file)
        if not dep and not _may_read(node.test, defs, selectors):
            continue
        try:
            got = ev.truth(ev.eval(node.test, env))
        except EvalUnsupported as x:
            if dep:
                raise AnchorError(f"C33.R7: the test `{ast.unparse(node.test)[:60]}` at line {node.lineno} on the way to {what} cannot be evaluated ({x})")
            continue
        except Raised as x:
            failing.append((node, f"`{ast.unparse(node.test)[:60]}` raises {x}"))
            break
        if got != want:
            failing.append((node, f"`{ast.unparse(node.test)[:70]}` (line {node.lineno}) comes out {'false' if want else 'true'}"))
            break
    return failing


def presence_rules(W: "Writer", R: "Reader", wfn: ast.AST, rfn: ast.AST, pw: str, rpw: str, dest_fields: dict[str, set[str]]):
    """R7: for every optional per-deployment value (a role map of the writer other than the deployment list) and every value
    its declared type admits under one name, including each falsy one, follow the value from the writer's presence test through
    the written payload, the reader branch that takes the file, the stored container and the BackupEntry field expression."""
    wf = W.fn
    wcfg = CFG(wf)
    wdefs, rdefs = _value_defs(wf), _value_defs(rfn)
    wparams = {a.arg: a for a in wf.args.args + wf.args.kwonlyargs}
    name_var = next((e["var"] for e in W.entries if e["var"] is not None), None)
    ctor = [c for c in ast.walk(rfn) if isinstance(c, ast.Call) and last(call_name(c)) == "BackupEntry"]
    if name_var is None or not ctor:
        raise AnchorError("C33.R7: no per-deployment file / no BackupEntry construction to follow")
    cr_dest = next((d for d, fs in dest_fields.items() if "cr" in fs), None)
    crdoc = {"metadata": {"name": _N}}
    tests_of: dict[int, list] = {}
    nroles = ntests = nsamples = nfollowed = 0
    for role, field in ROLE_FIELD.items():
        if role == "deployments":
            continue
        if role not in wparams:
            raise AnchorError(f"C33.R7: `{WRITER}` has no `{role}` parameter")
        nroles += 1
        tname, samples = value_samples(wparams[role].annotation)
        ents = [e for e in W.entries if e["var"] is not None and e["root"] == role]
        kwv = next((k.value for k in ctor[0].keywords if k.arg == field), None)
        missed: list[str] = []
        lost: list[str] = []
        miss_node: ast.AST = ents[0]["call"] if ents else wf
        lost_node: ast.AST = kwv if kwv is not None else ctor[0]
        seen_tests: set[int] = set()

        def field_value(containers: dict) -> object:
            fenv = {d: {} for d in dest_fields}
            if cr_dest is not None:
                fenv[cr_dest] = {_N: crdoc}
            fenv.update(containers)
            return _Ev().eval(kwv, fenv)

        for v in samples:
            for p in (None, "pw"):
                nsamples += 1
                shown = f"{role}[name] == {v!r}" + (", no password" if p is None else ", with a password")
                live, nearest = [], None
                for e in ents:
                    st = enclosing_stmt(e["call"])
                    if id(st) not in tests_of:
                        tests_of[id(st)] = _path_tests(wcfg, st)
                    env = {r: {} for r in ROLE_FIELD if r in wparams}
                    env.update({"deployments": [crdoc], role: {_N: v}, name_var: _N, pw: p, "namespace": "ns", "timestamp": "ts"})
                    ev = _Ev()
                    failing = _run_tests(ev, tests_of[id(st)], env, wdefs, {role}, {pw}, False, f"the write of `<name>{e['suffix']}`")
                    for node, _w in tests_of[id(st)]:
                        if _may_read(node.test, wdefs, {role}):
                            seen_tests.add(id(node))
                    if not failing:
                        live.append((e, ev, env))
                    elif nearest is None or _may_read(failing[0][0].test, wdefs, {role}):
                        nearest = (e, failing[0])
                if not live:
                    nfollowed += 1  # verdict: nothing is written for this value
                    if nearest is not None:
                        miss_node = nearest[1][0]
                    missed.append(f"with {shown} {nearest[1][1] if nearest else 'no write site is reached'}, so no `<name>{'` / `<name>'.join(sorted({e['suffix'] for e in ents}))}` file is written")
                    continue
                for e, ev, env in live:
                    nfollowed += 1  # every reached write is taken to a verdict below (or is one R1 / R4 already report), or the run ends in an analysis error
                    b = e.get("branch")
                    if b is None or kwv is None:
                        continue  # not routed to exactly one reader branch / field not populated: R1 `routed:` / R4 `entry-field:` report exactly that
                    if b.get("store") is None:
                        raise AnchorError(f"C33.R7: reader branch `{b['text']}` stores nothing the rule can follow")
                    try:
                        text = ev.eval(e["call"].args[W.data_idx], env)
                        rev = _Ev(content=text)
                        renv = {rpw: p, R.subject: _N + e["suffix"]}
                        store = b["store"]
                        failing = _run_tests(rev, _path_tests(R.cfg, store), renv, rdefs, set(), {rpw, R.subject}, True, f"the store of `{b['text']}` files")
                        if failing:
                            lost.append(f"with {shown} the reader's test {failing[0][1]}, so the `{b['text']}` file is not stored")
                            lost_node = failing[0][0]
                            continue
                        stored = rev.eval(store.value, renv)
                        key = rev.eval(store.targets[0].slice, renv)
                        got = field_value({b["dest"]: {key: stored}})
                    except EvalUnsupported as x:
                        raise AnchorError(f"C33.R7: cannot follow `{role}` through `<name>{e['suffix']}` into BackupEntry.{field}: {x}")
                    except Raised as x:
                        lost.append(f"with {shown} following the value through `<name>{e['suffix']}` raises {x}")
                        continue
                    if not _same(got, v):
                        lost.append(f"{shown} is written to `<name>{e['suffix']}` and comes back as BackupEntry.{field} == {got!r}")
        if kwv is not None:
            try:
                got = field_value({})
            except EvalUnsupported as x:
                raise AnchorError(f"C33.R7: cannot evaluate BackupEntry.{field} for a deployment without a `{role}` entry: {x}")
            except Raised as x:
                got = f"<raises {x}>"
            if got is not None:
                lost.append(f"a deployment with no entry in `{role}` (no file written) comes back as BackupEntry.{field} == {got!r} instead of None")
        ntests += len(seen_tests)
        n_, k_ = len(samples), ", ".join(repr(v) for v in samples)
        yield ("ob", "C33.R7", f"present-is-written:{role}", f"every value `{role}[name]: {tname}` can hold ({n_} samples incl. each falsy one: {k_}; with and without a password) passes the tests "
               f"on the way to a write of its file: present-but-empty is not treated as absent", not missed, "a", miss_node, wfn,
               "; ".join(missed[:3]) + f". `{READER}` then returns BackupEntry.{field} = None for a deployment that was backed up with a value, and restore never re-creates it. "
               f"The test that decides whether the file is written must be the test of absence itself (`is not None` / `name in {role}`), as on the reading side, not truthiness, which conflates 'absent' with 'present but empty'")
        yield ("ob", "C33.R7", f"restored-as-backed-up:{role}", f"every such value, followed through the written payload, the reader branch of its file and the BackupEntry.{field} expression (codecs taken as exact inverses), "
               f"comes back identical; no entry comes back as None", not lost, "a", lost_node, rfn, "; ".join(lost[:3]))
    yield ("floor", "C33.R7", "optional values followed from writer to BackupEntry field", nroles)
    yield ("floor", "C33.R7", "writer tests that read an optional value's map, evaluated", ntests)
    yield ("floor", "C33.R7", "(value, password) samples evaluated", nsamples)
    yield ("floor", "C33.R7", "verdicts (no write reached for a value / a reached write followed through the reader into the BackupEntry field)", nfollowed)


# ------------------------------------------------------------------------------ evaluation
def eval_rules(arch_tree: ast.AST, enc_tree: ast.AST, dns_pattern: str):
    """Yields ('ob', rule, instance, desc, ok, which-tree, node, fn, reason) / ('floor', rule, what, n)."""
    afuncs = {n.name: n for n in arch_tree.body if isinstance(n, FuncNode)}
    efuncs = {n.name: n for n in enc_tree.body if isinstance(n, FuncNode)}
    for need, table in ((WRITER, afuncs), (READER, afuncs), ("encrypt", efuncs), ("decrypt", efuncs)):
        if need not in table:
            raise AnchorError(f"function `{need}` not found")
    wfn, rfn = afuncs[WRITER], afuncs[READER]
    W = Writer(wfn, afuncs)
    R = Reader(rfn)
    for b in R.branches:
        R.analyse_branch(b)

    # ---------------------------------------------------------------- R1 on languages
    texts = [e["suffix"] for e in W.entries] + [b["text"] for b in R.branches]
    singles, sets = regex_charsets(dns_pattern)
    for t in texts:
        singles |= set(t)
    try:
        A = Alphabet(singles, sets, regex_preds(dns_pattern))
        NAME = regex_match_lang(A, dns_pattern, strict_end=True)
    except Unsupported as e:
        raise AnchorError(f"C33: cannot build the deployment-name language: {e}")
    K = A.K
    lit = lambda s: L_word(K, A.word(s))  # noqa: E731
    blang = []
    conds = [lit(b["text"]) if b["kind"] == "eq" else L_all(K).concat(lit(b["text"])) for b in R.branches]
    for b, C in zip(R.branches, conds):
        # names that reach this test (every test already decided on the way: known false -> excluded, known true -> required)
        # and make it come out the way that enters the branch
        E = C
        for j in b["known_false"]:
            E = E - conds[j]
        for j in b["known_true"]:
            E = E & conds[j]
        blang.append(E)
    dest_fields = _dest_fields(rfn, {b["dest"] for b in R.branches if b["dest"]})
    flangs = []
    for e in W.entries:
        F = lit(e["suffix"]) if e["var"] is None else NAME.concat(lit(e["suffix"]))
        flangs.append(F)
        kind = e["suffix"] if e["var"] is not None else f"fixed:{e['suffix']}"
        hits = [i for i, E in enumerate(blang) if not (F & E).is_empty()]
        whole = [i for i in hits if F <= blang[i]]
        ok = len(hits) == 1 and len(whole) == 1
        reason = ""
        if not ok:
            if not hits:
                w = F.shortest()
                reason = f"file {A.render(w)!r} is not recognised by any reader branch (it is silently dropped)"
            else:
                det = []
                for i in hits:
                    w = (F & blang[i]).shortest()
                    det.append(f"{A.render(w)!r} -> branch `{R.branches[i]['text']}`")
                reason = "file names of this kind are split over / captured by other branches: " + "; ".join(det)
        yield ("ob", "C33.R1", f"routed:{kind}", f"every `<name>{e['suffix']}`" if e["var"] else f"`{e['suffix']}`" + " written by the archive writer is read by exactly one reader branch", ok, "a", e["call"], wfn, reason)
        if len(whole) != 1:
            continue
        b = R.branches[whole[0]]
        e["branch"] = b  # the one reader branch that takes this kind of file (R7 follows the value through it)
        if e["var"] is not None:
            strip = b["strip"]
            if strip is None:
                raise AnchorError(f"reader branch `{b['text']}` derives the deployment name in a way the rule does not understand")
            ok = strip == e["suffix"] or (set(strip) == {"?"} and len(strip) == len(e["suffix"]))
            yield ("ob", "C33.R1", f"strip:{kind}", f"the reader recovers the deployment name by removing exactly `{e['suffix']}`", ok, "a", b["node"], rfn,
                   f"the branch removes `{strip}`: `x{e['suffix']}` is stored under `{('x' + e['suffix']).removesuffix(strip) if strip and '?' not in strip else 'x' + e['suffix']}`")
        if b["ops"] is None:
            raise AnchorError(f"reader branch `{b['text']}` stores nothing the rule recognises")
        ok = list(reversed(e["ops"])) == b["ops"]
        yield ("ob", "C33.R1", f"codec:{kind}", f"reader decodes `{kind}` files with the inverse of the writer's encoding ({'+'.join(e['ops'])})", ok, "a", b["node"], rfn,
               f"writer applies {e['ops']}, reader undoes {b['ops']}")
        if e["var"] is not None and e["root"] in ROLE_FIELD:
            fields = dest_fields.get(b["dest"], set())
            want = ROLE_FIELD[e["root"]]
            ok = want in fields
            yield ("ob", "C33.R1", f"field:{kind}", f"what the writer took from `{e['root']}` comes back in BackupEntry.{want}", ok, "a", b["node"], rfn,
                   f"branch stores into `{b['dest']}`, which feeds BackupEntry fields {sorted(fields)}")
    for i in range(len(W.entries)):
        for j in range(i + 1, len(W.entries)):
            both = flangs[i] & flangs[j]
            same_kind = W.entries[i]["suffix"] == W.entries[j]["suffix"] and W.entries[i]["var"] == W.entries[j]["var"]
            if same_kind:
                continue
            w = both.shortest()
            yield ("ob", "C33.R1", f"distinct:{W.entries[i]['suffix']}|{W.entries[j]['suffix']}", "file names of different kinds never coincide for valid deployment names", w is None, "a", W.entries[j]["call"], wfn,
                   "" if w is None else f"both kinds can be named {A.render(w)!r}")
    yield ("floor", "C33.R1", "file kinds written", len(W.entries))
    yield ("floor", "C33.R1", "reader branches", len(R.branches))

    # ---------------------------------------------------------------- R6 (codec options agree: what the writer's options emit is inside what the reader decodes unchanged)
    aconsts = {}
    for n in arch_tree.body:
        if isinstance(n, ast.Assign) and len(n.targets) == 1 and isinstance(n.targets[0], ast.Name):
            aconsts[n.targets[0].id] = n.value
    nenc = ndec = 0
    for e in W.entries:
        kind = e["suffix"] if e["var"] is not None else f"fixed:{e['suffix']}"
        for c in _codec_calls(e["data_x"], YAML_DUMP + ("json.dumps",)):
            nenc += 1
            codec = "yaml" if (call_name(c) or "").startswith("yaml") else "json"
            faults = writer_option_faults(c, aconsts)
            yield ("ob", "C33.R6", f"writer-options:{kind}:{codec}", f"the options of the {codec} encoding of `{kind}` files keep every value inside what the reader's decoder returns unchanged",
                   not faults, "a", c, wfn, "; ".join(faults))
    for b in R.branches:
        for c in _codec_calls(b["codec_expr"], YAML_LOAD + ("json.loads",)):
            ndec += 1
            reader_option_check(c)
    yield ("floor", "C33.R6", "encoding calls (yaml.dump / json.dumps) feeding archive files", nenc)
    yield ("floor", "C33.R6", "decoding calls (yaml.safe_load / json.loads) in reader branches", ndec)

    # ---------------------------------------------------------------- R2
    econsts = {}
    for n in enc_tree.body:
        if isinstance(n, ast.Assign) and len(n.targets) == 1 and isinstance(n.targets[0], ast.Name):
            econsts[n.targets[0].id] = n.value
    enc, dec = efuncs["encrypt"], efuncs["decrypt"]
    LW = layout_of_encrypt(enc, econsts)
    LR = layout_of_decrypt(dec, econsts)
    nseg = 0
    for s in LW["segs"]:
        if s["role"] == "?":
            raise AnchorError(f"encrypt output segment `{s['name']}` has no recognisable role")
        nseg += 1
        want = (s["off"], None if s["len"] is None else (s["off"] + s["len"] if s["off"] is not None else None))
        got = LR["roles"].get(s["role"])
        ok = got is not None and got == want
        yield ("ob", "C33.R2", f"segment:{s['role']}", f"decrypt reads the {s['role']} from the bytes where encrypt put it", ok, "e", LR["aead"], dec,
               f"encrypt places {s['role']} at [{want[0]}:{want[1]}], decrypt takes [{got[0] if got else '?'}:{got[1] if got else '?'}]")
    yield ("floor", "C33.R2", "wire segments", nseg)
    same_kdf = call_name(LW["kdf"]) == call_name(LR["kdf"])
    yield ("ob", "C33.R2", "same-kdf", "encrypt and decrypt derive the key with the same function", same_kdf, "e", LR["kdf"], dec, f"{call_name(LW['kdf'])} vs {call_name(LR['kdf'])}")
    for role, fn_, lay in (("encrypt", enc, LW), ("decrypt", dec, LR)):
        pw = [a.arg for a in fn_.args.args][1] if len(fn_.args.args) > 1 else None
        uses = pw is not None and any(isinstance(a, ast.Name) and a.id == pw for a in lay["kdf"].args + [k.value for k in lay["kdf"].keywords])
        yield ("ob", "C33.R2", f"password-reaches-kdf:{role}", f"{role} derives its key from the password it was given", uses, "e", lay["kdf"], fn_, "the password parameter is not an argument of the key derivation")
    kname = last(call_name(LW["kdf"]))
    if kname in efuncs:
        kfn = efuncs[kname]
        kp = [a.arg for a in kfn.args.args]
        rets = [r for r in ast.walk(kfn) if isinstance(r, ast.Return) and r.value is not None]
        body_names = {n.id for r in rets for n in ast.walk(expand(r.value, r, depth=4)) if isinstance(n, ast.Name)}
        for i, what in ((0, "password"),):
            ok = len(kp) > i and kp[i] in body_names
            yield ("ob", "C33.R2", f"kdf-depends-on:{what}", f"the derived key depends on the {what}", ok, "e", rets[0] if rets else kfn, kfn, f"`{kp[i] if len(kp) > i else '?'}` does not reach the derived key")
    # decrypt / encrypt / the key derivation are functions of their arguments alone: a module-level table or cache that one
    # call fills and a later call reads makes the outcome of decrypt(data, password) depend on earlier calls, not on the password
    mutable_globals = {}
    for n in enc_tree.body:
        tg = n.targets[0] if isinstance(n, ast.Assign) and len(n.targets) == 1 else (n.target if isinstance(n, ast.AnnAssign) else None)
        val = getattr(n, "value", None)
        if isinstance(tg, ast.Name) and val is not None and isinstance(val, (ast.Dict, ast.List, ast.Set, ast.Call, ast.DictComp, ast.ListComp, ast.SetComp)):
            mutable_globals[tg.id] = n
    pure_fns = [("encrypt", enc), ("decrypt", dec)] + ([(kname, efuncs[kname])] if kname in efuncs else [])
    for role, fn_ in pure_fns:
        local = {a.arg for a in fn_.args.args + fn_.args.kwonlyargs} | {t.id for x in ast.walk(fn_) if isinstance(x, (ast.Assign, ast.AnnAssign)) for t in ast.walk(x.targets[0] if isinstance(x, ast.Assign) else x.target) if isinstance(t, ast.Name) and isinstance(t.ctx, ast.Store)}
        declared = {g for x in ast.walk(fn_) if isinstance(x, ast.Global) for g in x.names}
        used = sorted({x.id for x in ast.walk(fn_) if isinstance(x, ast.Name) and x.id in mutable_globals and (x.id not in local or x.id in declared)})
        cached = [ast.unparse(d) for d in fn_.decorator_list if "cache" in ast.unparse(d)]
        okp = not used and not declared and not (cached and role != kname)
        yield ("ob", "C33.R2", f"pure:{role}", f"`{role}` depends on its arguments only (no module-level table, cache or global it reads or fills)", okp, "e",
               mutable_globals[used[0]] if used else fn_, fn_,
               f"`{role}` uses module-level state {used or sorted(declared) or cached}: after one successful call the result no longer depends on the password given")
    ad_w = ast.unparse(LW["aead"].args[2]) if len(LW["aead"].args) > 2 else "None"
    ad_r = ast.unparse(LR["aead"].args[2]) if len(LR["aead"].args) > 2 else "None"
    yield ("ob", "C33.R2", "associated-data", "encrypt and decrypt pass the same associated data", ad_w == ad_r, "e", LR["aead"], dec, f"{ad_w} vs {ad_r}")

    # ---------------------------------------------------------------- R3
    wparams = [a.arg for a in wfn.args.args + wfn.args.kwonlyargs]
    pw = next((p for p in wparams if "password" in p), None)
    rparams = [a.arg for a in rfn.args.args + rfn.args.kwonlyargs]
    rpw = next((p for p in rparams if "password" in p), None)
    if pw is None or rpw is None:
        raise AnchorError("writer/reader have no password parameter")
    flag = None
    for d in ast.walk(wfn):
        if isinstance(d, ast.Dict):
            for k, v in zip(d.keys, d.values):
                if isinstance(k, ast.Constant) and k.value == "encrypted":
                    t = classify_tests(expand(v, enclosing_stmt(d), depth=3) if isinstance(v, ast.Name) else v, pw)
                    if not t and isinstance(v, ast.Name):
                        t = classify_tests(wfn, pw)
                        t = [x for x in t if _contains(enclosing_stmt(x[0]), x[0]) and isinstance(enclosing_stmt(x[0]), ast.Assign) and isinstance(enclosing_stmt(x[0]).targets[0], ast.Name) and enclosing_stmt(x[0]).targets[0].id == v.id]
                    if len(t) != 1:
                        raise AnchorError("the manifest `encrypted` flag is not a single test of the password")
                    flag = t[0]
    if flag is None:
        raise AnchorError("writer manifest has no `encrypted` key")
    enc_calls = [c for c in ast.walk(wfn) if isinstance(c, ast.Call) and last(call_name(c)) == "encrypt"]
    if not enc_calls:
        raise AnchorError("writer never calls encrypt")
    cfg = CFG(wfn)
    all_w = classify_tests(wfn, pw)
    nbr = 0
    for c in enc_calls:
        st = enclosing_stmt(c)
        for n in cfg.nodes_of(st):
            for t, lab in cfg.guards(n):
                if t.kind != "test":
                    continue
                for node, cls, pol in all_w:
                    if _contains(t.ast.test, node) and node is not flag[0]:
                        nbr += 1
                        present_on_branch = pol if lab == "T" else not pol
                        ok = cls == flag[1] and present_on_branch
                        yield ("ob", "C33.R3", "writer-branch", "the writer encrypts secrets under the same test of the password that sets manifest.encrypted", ok, "a", t.ast, wfn,
                               f"manifest flag uses a `{_cls_txt(flag[1])}` test, the branch that encrypts uses a `{_cls_txt(cls)}` test: with an empty password the manifest says encrypted and the secrets are stored in clear")
    yield ("floor", "C33.R3", "tests guarding the encrypt call", nbr)
    nreq = 0
    for node, cls, pol in classify_tests(rfn, rpw):
        nreq += 1
        yield ("ob", "C33.R3", "reader-requirement", "the reader demands a password under the same test of the password as the manifest flag", cls == flag[1], "a", node, rfn,
               f"manifest flag uses a `{_cls_txt(flag[1])}` test, the reader uses a `{_cls_txt(cls)}` test")
    yield ("floor", "C33.R3", "reader tests of the password", nreq)

    # ---------------------------------------------------------------- R5 (the password value on both sides)
    def pw_arg(call: ast.Call, callee: ast.AST | None, idx: int) -> ast.AST | None:
        ps = [a.arg for a in callee.args.args] if callee is not None else []
        return kwarg(call, ps[idx], idx) if len(ps) > idx else (call.args[idx] if len(call.args) > idx else None)

    sites: list[tuple[str, str, ast.AST, ast.AST, str, ast.AST | None, str]] = []  # side, role, fn, tree-of-fn, param, sink, what
    for c in enc_calls:
        sites.append(("writer", "writer", wfn, "a", pw, pw_arg(c, enc, 1), f"the password `{WRITER}` hands to `encrypt`"))
    dec_calls = [c for c in ast.walk(rfn) if isinstance(c, ast.Call) and last(call_name(c)) == "decrypt" and not isinstance(c.func, ast.Attribute)]
    for c in dec_calls:
        sites.append(("reader", "reader", rfn, "a", rpw, pw_arg(c, dec, 1), f"the password `{READER}` hands to `decrypt`"))
    if not dec_calls:
        yield ("ob", "C33.R5", "password-verbatim:reader", f"the password given to `{READER}` is the one handed to `decrypt`", False, "a", rfn, rfn,
               "the reader never calls `decrypt`: its password is not used, encrypted secrets cannot come back")
    kdf_fns: list[tuple[str, ast.AST]] = []
    for side, role, fn_, lay in (("writer", "encrypt", enc, LW), ("reader", "decrypt", dec, LR)):
        ps = [a.arg for a in fn_.args.args]
        if len(ps) < 2:
            raise AnchorError(f"`{role}` has no password parameter")
        kn = last(call_name(lay["kdf"]))
        if kn in efuncs and not isinstance(lay["kdf"].func, ast.Attribute):
            sites.append((side, role, fn_, "e", ps[1], pw_arg(lay["kdf"], efuncs[kn], 0), f"the password `{role}` hands to `{kn}`"))
            if all(k[1] is not efuncs[kn] for k in kdf_fns):
                kdf_fns.append((side, efuncs[kn]))
        else:
            sites.append((side, role, fn_, "e", ps[1], _kdf_input(fn_), f"the bytes `{role}` hands to the key derivation"))
    shared_kdf = len(kdf_fns) == 1 and same_kdf
    for side, kfn in kdf_fns:
        kps = [a.arg for a in kfn.args.args]
        if not kps:
            raise AnchorError(f"`{kfn.name}` has no password parameter")
        sites.append(("both" if shared_kdf else side, "kdf" if shared_kdf else f"kdf-of-{side}", kfn, "e", kps[0], _kdf_input(kfn), f"the bytes `{kfn.name}` derives the key from"))
    side_forms: dict[str, set[str]] = {"writer": set(), "reader": set()}
    nsite = 0
    for side, role, fn_, which, param, sink, what in sites:
        if sink is None:
            raise AnchorError(f"C33.R5: {what}: argument not found at the call")
        nsite += 1
        fl = PwFlow(fn_, param, sink)
        unknown = [f for k, f, _n in fl.ops if k == "unknown"]
        if unknown:
            raise AnchorError(f"C33.R5: {what} goes through `{unknown[0]}`, an operation the rule cannot classify as value-preserving or not")
        lossy = [f for k, f, _n in fl.ops if k == "lossy"]
        why = []
        if lossy:
            why.append("it goes through " + ", ".join(f"`{f}`" for f in sorted(set(lossy))) + " (PW = the password given): passwords that differ only in what this removes derive the same key, "
                       "so an archive opens with a password other than the one it was written with")
        if fl.foreign:
            why.append("it can also be " + ", ".join(sorted(set(fl.foreign))) + ", which is not the caller's password")
        if not fl.hit:
            why.append(f"the parameter `{param}` does not reach it")
        node = next((n for k, _f, n in fl.ops if k == "lossy"), sink)
        yield ("ob", "C33.R5", f"password-verbatim:{role}", f"{what} is the parameter `{param}` itself (copied, or strictly text-encoded: nothing that maps two passwords to one)",
               not why, which, node, fn_, "; ".join(why))
        for sd in (("writer", "reader") if side == "both" else (side,)):
            side_forms[sd] |= fl.forms()
    yield ("floor", "C33.R5", "password hand-over sites", nsite)
    only_w, only_r = sorted(side_forms["writer"] - side_forms["reader"]), sorted(side_forms["reader"] - side_forms["writer"])
    yield ("ob", "C33.R5", "password-agrees", "from the caller's password to the key-derivation input, the writing side (create_backup_archive -> encrypt -> key derivation) and the reading side "
           "(read_backup_archive -> decrypt -> key derivation) apply the same operations", not only_w and not only_r, "a", dec_calls[0] if dec_calls else rfn, rfn,
           "only the writing side applies " + (", ".join(f"`{f}`" for f in only_w) or "nothing") + "; only the reading side applies " + (", ".join(f"`{f}`" for f in only_r) or "nothing")
           + " (PW = the password given): for a password that this operation changes, the two sides derive different keys, so the archive cannot be read back with the password it was written with")


    # ---------------------------------------------------------------- R4
    man = next((e for e in W.entries if e["var"] is None and e["keys"] is not None), None)
    mbranch = next((b for b in R.branches if b["kind"] == "eq" and man is not None and b["text"] == man["suffix"]), None)
    nk = 0
    if man is not None and mbranch is not None and mbranch["dest"]:
        for key, node in _keys_read(rfn, {mbranch["dest"]}):
            nk += 1
            yield ("ob", "C33.R4", f"manifest-key:{key}", f"manifest key `{key}` read by the reader is written by the writer", key in man["keys"], "a", node, rfn, f"writer keys: {man['keys']}")
    for e in W.entries:
        if e["var"] is not None and e["keys"] is not None:
            b = next((b for b in R.branches if b["kind"] == "suffix" and b["text"] == e["suffix"]), None)
            if b is None or not b["dest"]:
                continue
            derived = _derived_vars(rfn, b["dest"])
            for key, node in _keys_read(rfn, derived, elem_of=b["dest"]):
                nk += 1
                yield ("ob", "C33.R4", f"meta-key:{key}", f"key `{key}` read from `{e['suffix']}` files is written by the writer", key in e["keys"], "a", node, rfn, f"writer keys: {e['keys']}")
    yield ("floor", "C33.R4", "keys read by the reader", nk)
    ent = next((n for n in ast.walk(arch_tree) if isinstance(n, ast.ClassDef) and n.name == "BackupEntry"), None)
    ctor = [c for c in ast.walk(rfn) if isinstance(c, ast.Call) and last(call_name(c)) == "BackupEntry"]
    if ent is not None and ctor:
        fields = [s.target.id for s in ent.body if isinstance(s, ast.AnnAssign) and isinstance(s.target, ast.Name)]
        given = {k.arg for k in ctor[0].keywords}
        for f in fields:
            yield ("ob", "C33.R4", f"entry-field:{f}", f"BackupEntry.{f} is populated by the reader", f in given, "a", ctor[0], rfn, "field left at its default")

    # ---------------------------------------------------------------- R7 (an optional value that is present but empty is not absent)
    yield from presence_rules(W, R, wfn, rfn, pw, rpw, dest_fields)


def _cls_txt(c: str) -> str:
    return {"none": "is (not) None", "truthy": "truthiness", "other": "other comparison"}[c]


def _derived_vars(fn: ast.AST, base: str) -> set[str]:
    out = {base}
    for n in ast.walk(fn):
        if isinstance(n, ast.Assign) and len(n.targets) == 1 and isinstance(n.targets[0], ast.Name):
            if any(isinstance(x, ast.Name) and x.id == base for x in ast.walk(n.value)) and isinstance(n.value, ast.Call) and isinstance(n.value.func, ast.Attribute) and n.value.func.attr == "get":
                out.add(n.targets[0].id)
    return out - {base}


def _keys_read(fn: ast.AST, vars_: set[str], elem_of: str | None = None) -> list[tuple[str, ast.AST]]:
    """Constant keys read from the dicts named in vars_, or directly from an element taken out of the container `elem_of`
    (`C.get(k, {}).get("key")` / `C[k]["key"]`) without a local in between."""
    def is_recv(r: ast.AST) -> bool:
        if isinstance(r, ast.Name):
            return r.id in vars_
        if elem_of is not None and isinstance(r, ast.Call) and isinstance(r.func, ast.Attribute) and r.func.attr == "get" and isinstance(r.func.value, ast.Name) and r.func.value.id == elem_of:
            return True
        if elem_of is not None and isinstance(r, ast.Subscript) and isinstance(r.value, ast.Name) and r.value.id == elem_of and isinstance(r.ctx, ast.Load):
            return True
        return False

    out = []
    for n in ast.walk(fn):
        if isinstance(n, ast.Subscript) and is_recv(n.value) and isinstance(n.slice, ast.Constant) and isinstance(n.slice.value, str) and isinstance(n.ctx, ast.Load):
            out.append((n.slice.value, n))
        if isinstance(n, ast.Call) and isinstance(n.func, ast.Attribute) and n.func.attr == "get" and is_recv(n.func.value) and n.args and isinstance(n.args[0], ast.Constant) and isinstance(n.args[0].value, str):
            out.append((n.args[0].value, n))
    seen = set()
    res = []
    for k, n in out:
        if k not in seen:
            seen.add(k)
            res.append((k, n))
    return res


def _dns_pattern(repo) -> str:
    core = repo.module(CORE)
    for n in core.tree.body:
        if isinstance(n, ast.Assign) and len(n.targets) == 1 and isinstance(n.targets[0], ast.Name) and n.targets[0].id == DNS_CONST:
            v = n.value
            if isinstance(v, ast.Call) and v.args and isinstance(v.args[0], ast.Constant) and isinstance(v.args[0].value, str):
                return v.args[0].value
    raise AnchorError(f"`{DNS_CONST}` not found as re.compile(<constant>)")


FLOORS = {
    ("C33.R1", "file kinds written"): 5, ("C33.R1", "reader branches"): 5, ("C33.R2", "wire segments"): 3,
    ("C33.R3", "tests guarding the encrypt call"): 1, ("C33.R3", "reader tests of the password"): 1, ("C33.R4", "keys read by the reader"): 5,
    ("C33.R5", "password hand-over sites"): 5,
    # .yaml + .secret.enc + .secret.yaml (the secret dump feeds both) + manifest.json + .meta.json; one decoder per reader branch
    ("C33.R6", "encoding calls (yaml.dump / json.dumps) feeding archive files"): 5, ("C33.R6", "decoding calls (yaml.safe_load / json.loads) in reader branches"): 5,
    # secrets -> secret, generations -> generation; `secret_data is not None` and `generations and name in generations`; ({}, {'k': 'v'}) x 2 + (0, 1) x 2
    ("C33.R7", "optional values followed from writer to BackupEntry field"): 2, ("C33.R7", "writer tests that read an optional value's map, evaluated"): 2,
    ("C33.R7", "(value, password) samples evaluated"): 8, ("C33.R7", "verdicts (no write reached for a value / a reached write followed through the reader into the BackupEntry field)"): 8,
}


def run(chk) -> None:
    repo = chk.repo
    am, em = repo.module(ARCHIVE), repo.module(ENCRYPTION)
    dns = _dns_pattern(repo)
    for item in eval_rules(am.tree, em.tree, dns):
        if item[0] == "floor":
            chk.floor(item[1], item[2], item[3], FLOORS[(item[1], item[2])])
        else:
            _k, rule, inst, desc, ok, which, node, fn, reason = item
            chk.ob(rule, desc, ok, m=am if which == "a" else em, node=node, fn=fn, instance=inst, reason=reason)
    # planted fixture (R1, R2, R4 expect nothing on the repo)
    fpath = Path(__file__).resolve().parents[2] / FIXTURE
    if not fpath.is_file():
        raise AnchorError(f"fixture {FIXTURE} missing")
    tree = ast.parse(fpath.read_text())
    _set_parents(tree)
    bad: dict[str, int] = {}
    for item in eval_rules(tree, tree, dns):
        if item[0] == "ob" and not item[4]:
            bad[item[1]] = bad.get(item[1], 0) + 1
    for rule in ("C33.R1", "C33.R2", "C33.R3", "C33.R4", "C33.R5", "C33.R6", "C33.R7"):
        chk.floor(rule, "planted defects reported in the fixture", bad.get(rule, 0), 1)
    chk.observe("a deployment whose metadata has no name is written as `unknown.yaml` (several such deployments overwrite each other): outside the statement's 'valid names'")
    chk.observe("names with dots would make `x.secret.yaml` ambiguous; excluded because _DNS_1035_RE admits no dot (checked on the regex language)")


_AR = "packages/llama-agents-control-plane/src/llama_agents/control_plane/backup/archive.py"
_EN = "packages/llama-agents-control-plane/src/llama_agents/control_plane/backup/encryption.py"
_SY = '            elif name.endswith(".secret.yaml"):\n                deploy_name = name.removesuffix(".secret.yaml")\n                secret_files[deploy_name] = yaml.safe_load(content)\n'
_Y = '            elif name.endswith(".yaml"):\n                deploy_name = name.removesuffix(".yaml")\n                cr_files[deploy_name] = yaml.safe_load(content)\n'
_MJ = '            elif name.endswith(".meta.json"):\n                deploy_name = name.removesuffix(".meta.json")\n                meta_files[deploy_name] = json.loads(content)\n'
_IND = "            "
_ENC_ARM = ('name.endswith(".secret.enc"):\n                deploy_name = name.removesuffix(".secret.enc")\n                if encryption_password is None:\n                    raise ValueError(\n'
            '                        f"Archive contains encrypted secrets but no password provided "\n                        f"(file: {name})"\n                    )\n'
            '                decrypted = decrypt(content, encryption_password)\n                secret_files[deploy_name] = yaml.safe_load(decrypted)\n')
_CHAIN = ('            if name == "manifest.json":\n                manifest_data = json.loads(content)\n            elif ' + _ENC_ARM + _MJ + _SY + _Y)


def _guards(order: tuple = ("enc", "meta", "sy", "y"), fallthrough: str = "", invert_last: bool = False) -> str:
    """The reader's decision list as `if …: …; continue` guards (arms in the given order; `fallthrough` names an arm written
    without its `continue`; invert_last writes the last arm as `if not …: continue` followed by its statements)."""
    arms = {"enc": "            if " + _ENC_ARM, "meta": _MJ.replace("elif", "if", 1), "sy": _SY.replace("elif", "if", 1), "y": _Y.replace("elif", "if", 1)}
    out = '            if name == "manifest.json":\n                manifest_data = json.loads(content)\n                continue\n'
    for i, k in enumerate(order):
        if invert_last and i == len(order) - 1:
            head, *body = arms[k].splitlines(keepends=True)
            out += head.replace("if ", "if not ", 1) + "                continue\n" + "".join(x[4:] for x in body)
        else:
            out += arms[k] + ("" if k == fallthrough or i == len(order) - 1 else "                continue\n")
    return out


_DEC = "    salt = data[:SALT_LENGTH]\n    nonce = data[SALT_LENGTH : SALT_LENGTH + NONCE_LENGTH]\n    ciphertext = data[SALT_LENGTH + NONCE_LENGTH :]\n"
_DEC_T = "    parts = (data[:SALT_LENGTH], data[SALT_LENGTH : SALT_LENGTH + NONCE_LENGTH], data[SALT_LENGTH + NONCE_LENGTH :])\n"
_HDR = ("NONCE_LENGTH = 12\n", "NONCE_LENGTH = 12\nHEADER_SIZE = SALT_LENGTH + NONCE_LENGTH\n")
_WSEC = ('                if encryption_password is not None:\n                    encrypted = encrypt(secret_yaml, encryption_password)\n                    _add_bytes_to_tar(tar, f"{name}.secret.enc", encrypted)\n'
         '                else:\n                    _add_bytes_to_tar(tar, f"{name}.secret.yaml", secret_yaml)\n')
_WFUN = ('                if encryption_password is None:\n                    member_name, payload = f"{name}.secret.yaml", secret_yaml\n                else:\n'
         '                    payload = encrypt(secret_yaml, encryption_password)\n                    member_name = f"{name}.secret.enc"\n                _add_bytes_to_tar(tar, member_name, payload)\n')
_DCR = "cr_yaml = yaml.dump(cr, default_flow_style=False).encode()"
_DSEC = "secret_yaml = yaml.dump(secret_data, default_flow_style=False).encode()"
_IMP = "import yaml\n"
_PSEC = "            secret_data = secrets.get(name)\n            if secret_data is not None:\n"
_PGEN = "            if generations and name in generations:\n"
_FSEC = "secret=secret_files.get(name),"
TWINS: list[Twin] = [
    # ---- R7: an optional value that is present but empty ({} / 0) is not absent (the seed's form first)
    Twin("secret written under a walrus truthiness test: an empty Secret is backed up as absent", _AR, _PSEC, "            if secret_data := secrets.get(name):\n", "C33.R7"),
    Twin("secret written under plain truthiness", _AR, "            if secret_data is not None:\n", "            if secret_data:\n", "C33.R7"),
    Twin("secret written only when it has keys", _AR, "            if secret_data is not None:\n", "            if secret_data is not None and len(secret_data) > 0:\n", "C33.R7"),
    Twin("generation file written under `.get(name)` truthiness: generation 0 is lost", _AR, _PGEN, "            if generations and generations.get(name):\n", "C33.R7"),
    Twin("written payload replaces an empty secret by None", _AR, "yaml.dump(secret_data, default_flow_style=False)", "yaml.dump(secret_data or None, default_flow_style=False)", "C33.R7"),
    Twin("reader side: empty secret collapsed to None in the entry", _AR, _FSEC, "secret=secret_files.get(name) or None,", "C33.R7"),
    Twin("reader side: generation 0 collapsed to None in the entry", _AR, 'generation=meta.get("generation"),', 'generation=meta.get("generation") or None,', "C33.R7"),
    Twin("reader side: clear secret stored only when non-empty", _AR, _SY, _SY.replace("                secret_files[deploy_name] = yaml.safe_load(content)\n",
         "                loaded = yaml.safe_load(content)\n                if loaded:\n                    secret_files[deploy_name] = loaded\n"), "C33.R7"),
    Twin("reader side: a deployment without a secret comes back with an empty one", _AR, _FSEC, "secret=secret_files.get(name, {}),", "C33.R7"),
    Twin("benign: walrus, tested against None", _AR, _PSEC, "            if (secret_data := secrets.get(name)) is not None:\n", None),
    Twin("benign: membership test, value taken by subscript", _AR, _PSEC, "            if name in secrets:\n                secret_data = secrets[name]\n", None),
    Twin("benign: truthiness of the map itself next to the presence test (an empty map has no entry)", _AR, _PSEC, "            if secrets and (secret_data := secrets.get(name)) is not None:\n", None),
    Twin("benign: generation map tested against None, value by .get against None", _AR, _PGEN, "            if generations is not None and generations.get(name) is not None:\n", None),
    Twin("benign: absence spelled through a module-level constant and a local holding the test", _AR, *_multi(_AR, [
        (_IMP, _IMP + "\n_NO_SECRET = None\n"),
        (_PSEC, "            secret_data = secrets.get(name)\n            has_secret = secret_data is not _NO_SECRET\n            if has_secret:\n")]), None),
    Twin("benign: reader entry by membership", _AR, _FSEC, "secret=secret_files[name] if name in secret_files else None,", None),
    Twin("benign: reader stores through a local, no test", _AR, _SY, _SY.replace("                secret_files[deploy_name] = yaml.safe_load(content)\n",
         "                loaded = yaml.safe_load(content)\n                secret_files[deploy_name] = loaded\n"), None),
    # ---- R6: options of the encoders vs what the decoders return unchanged
    Twin("both YAML dumps write unicode raw (NEL is folded into a space on reading)", _AR, *_multi(_AR, [
        (_DCR, 'cr_yaml = yaml.dump(\n                cr, default_flow_style=False, allow_unicode=True\n            ).encode("utf-8")'),
        (_DSEC, 'secret_yaml = yaml.dump(\n                    secret_data, default_flow_style=False, allow_unicode=True\n                ).encode("utf-8")')]), "C33.R6"),
    Twin("secret dump only, safe_dump, flag through a module constant", _AR, *_multi(_AR, [
        (_IMP, _IMP + "\n_READABLE_YAML = True\n"),
        (_DSEC, "secret_yaml = yaml.safe_dump(secret_data, default_flow_style=False, allow_unicode=_READABLE_YAML).encode()")]), "C33.R6"),
    Twin("dump options collected in a local, unicode raw", _AR, _DCR, "text = yaml.dump(cr, sort_keys=False, allow_unicode=not False)\n            cr_yaml = text.encode()", "C33.R6"),
    Twin("CRs written as folded block scalars", _AR, _DCR, "cr_yaml = yaml.dump(cr, default_flow_style=False, default_style='>').encode()", "C33.R6"),
    Twin("meta file written with a non-JSON key separator", _AR, 'json.dumps({"generation": generations[name]})', 'json.dumps({"generation": generations[name]}, separators=(",", "="))', "C33.R6"),
    Twin("benign: explicit default escaping, layout options", _AR, *_multi(_AR, [
        (_DCR, "cr_yaml = yaml.dump(cr, default_flow_style=False, allow_unicode=False, sort_keys=False, width=120).encode()"),
        (_DSEC, 'secret_yaml = yaml.safe_dump(secret_data, default_flow_style=False, indent=4, explicit_start=True).encode("utf-8")')]), None),
    Twin("benign: unicode raw but every scalar double-quoted (line breaks escaped)", _AR, _DCR, "cr_yaml = yaml.dump(cr, default_flow_style=False, allow_unicode=True, default_style='\"').encode()", None),
    Twin("benign: JSON layout options", _AR, *_multi(_AR, [
        ("json.dumps(manifest, indent=2)", 'json.dumps(manifest, indent=2, sort_keys=True, ensure_ascii=False, separators=(",", ": "))'),
        ('json.dumps({"generation": generations[name]})', 'json.dumps({"generation": generations[name]}, separators=(",", ":"))')]), None),
    # ---- the decision list as `continue` guards; slices through a packed tuple; derived layout constants
    Twin("benign: reader chain as continue guards", _AR, _CHAIN, _guards(), None),
    Twin("benign: continue guards, last arm inverted", _AR, _CHAIN, _guards(invert_last=True), None),
    Twin("continue guards: generic .yaml guard before .secret.yaml", _AR, _CHAIN, _guards(order=("enc", "meta", "y", "sy")), "C33.R1"),
    Twin("continue guards: .secret.yaml arm falls through into the .yaml arm", _AR, _CHAIN, _guards(fallthrough="sy"), "C33.R1"),
    Twin("benign: wire slices through a packed tuple", _EN, _DEC, _DEC_T + "    salt, nonce, ciphertext = parts\n", None),
    Twin("packed tuple unpacked in the wrong order", _EN, _DEC, _DEC_T + "    nonce, salt, ciphertext = parts\n", "C33.R2"),
    Twin("benign: header concatenated into a local", _EN, "    return salt + nonce + ciphertext", "    header = salt + nonce\n    return header + ciphertext", None),
    Twin("header local concatenated in the wrong order", _EN, "    return salt + nonce + ciphertext", "    header = nonce + salt\n    return header + ciphertext", "C33.R2"),
    Twin("benign: derived header-length constant", _EN, *_multi(_EN, [_HDR, ("nonce = data[SALT_LENGTH : SALT_LENGTH + NONCE_LENGTH]", "nonce = data[SALT_LENGTH:HEADER_SIZE]"), ("ciphertext = data[SALT_LENGTH + NONCE_LENGTH :]", "ciphertext = data[HEADER_SIZE:]")]), None),
    Twin("derived header-length constant forgets the nonce", _EN, *_multi(_EN, [("NONCE_LENGTH = 12\n", "NONCE_LENGTH = 12\nHEADER_SIZE = SALT_LENGTH\n"), ("ciphertext = data[SALT_LENGTH + NONCE_LENGTH :]", "ciphertext = data[HEADER_SIZE:]")]), "C33.R2"),
    Twin("benign: entries built by a comprehension", _AR, "    entries = []\n    for name, cr in cr_files.items():\n        meta = meta_files.get(name, {})\n        entries.append(\n            BackupEntry(\n                name=name,\n                cr=cr,\n                secret=secret_files.get(name),\n                generation=meta.get(\"generation\"),\n            )\n        )\n",
         "    entries = [BackupEntry(name=dn, cr=cr, secret=secret_files.get(dn), generation=meta_files.get(dn, {}).get(\"generation\")) for dn, cr in cr_files.items()]\n", None),
    Twin("comprehension takes the secret from the CR table", _AR, "    entries = []\n    for name, cr in cr_files.items():\n        meta = meta_files.get(name, {})\n        entries.append(\n            BackupEntry(\n                name=name,\n                cr=cr,\n                secret=secret_files.get(name),\n                generation=meta.get(\"generation\"),\n            )\n        )\n",
         "    entries = [BackupEntry(name=dn, cr=cr, secret=cr_files.get(dn), generation=meta_files.get(dn, {}).get(\"generation\")) for dn, cr in cr_files.items()]\n", "C33.R1"),
    Twin("decrypt remembers verified keys by salt", _EN, "    key = _derive_key(password, salt)\n    aesgcm = AESGCM(key)\n    return aesgcm.decrypt(nonce, ciphertext, None)", "    key = _VERIFIED.get(salt)\n    if key is None:\n        key = _derive_key(password, salt)\n    plaintext = AESGCM(key).decrypt(nonce, ciphertext, None)\n    _VERIFIED[salt] = key\n    return plaintext\n\n\n_VERIFIED: dict[bytes, bytes] = {}", "C33.R2"),
    Twin("benign: key derivation memoised on (password, salt)", _EN, "def _derive_key(password: str, salt: bytes) -> bytes:", "@functools.lru_cache(maxsize=8)\ndef _derive_key(password: str, salt: bytes) -> bytes:", None),

    # ---- one funnelled write, member name and payload in locals chosen by a flipped branch (analysed per branch)
    Twin("benign: encrypt/plain branch flipped and funnelled into one write", _AR, _WSEC, _WFUN, None),
    Twin("benign: funnelled write, name and payload bound one by one, no else arm", _AR, _WSEC,
         '                member_name = f"{name}.secret.yaml"\n                payload = secret_yaml\n                if encryption_password is not None:\n                    payload = encrypt(secret_yaml, encryption_password)\n'
         '                    member_name = f"{name}.secret.enc"\n                _add_bytes_to_tar(tar, member_name, payload)\n', None),
    Twin("funnelled write: encrypted payload under the clear-text member name", _AR, _WSEC,
         _WFUN.replace('member_name = f"{name}.secret.enc"', 'member_name = f"{name}.secret.yaml"'), "C33.R1"),
    Twin("funnelled write: clear payload under the encrypted member name", _AR, _WSEC,
         _WFUN.replace('member_name, payload = f"{name}.secret.yaml", secret_yaml', 'member_name, payload = f"{name}.secret.enc", secret_yaml'), "C33.R1"),
    Twin("funnelled write: payload bound after the branch to the clear text", _AR, _WSEC,
         _WFUN.replace("                _add_bytes_to_tar(tar, member_name, payload)", "                payload = secret_yaml\n                _add_bytes_to_tar(tar, member_name, payload)"), "C33.R1"),
    Twin("benign: reader guard and decrypt in an if/else with the result in a local", _AR, "                decrypted = decrypt(content, encryption_password)\n",
         "                else:\n                    plain = decrypt(content, encryption_password)\n                decrypted = plain\n", None),
    Twin("if/else reader: the decrypted local is not the one that is parsed", _AR, "                decrypted = decrypt(content, encryption_password)\n",
         "                else:\n                    plain = decrypt(content, encryption_password)\n                decrypted = content\n", "C33.R1"),
    # ---- R5 breaking (the seed's form first)
    Twin("reader strips the password before decrypting", _AR, "    buf = io.BytesIO(data)\n    cr_files: dict", "    buf = io.BytesIO(data)\n    if encryption_password is not None:\n        encryption_password = encryption_password.strip()\n    cr_files: dict", "C33.R5"),
    Twin("reader drops a trailing newline through a local", _AR, "                decrypted = decrypt(content, encryption_password)", "                pw = encryption_password.rstrip(\"\\n\")\n                decrypted = decrypt(content, pw)", "C33.R5"),
    Twin("writer lower-cases the password", _AR, "encrypt(secret_yaml, encryption_password)", "encrypt(secret_yaml, encryption_password.lower())", "C33.R5"),
    Twin("reader falls back to a default password", _AR, "decrypt(content, encryption_password)", "decrypt(content, encryption_password or \"changeme\")", "C33.R5"),
    Twin("decrypt strips at the key-derivation hand-over", _EN, "    key = _derive_key(password, salt)\n    aesgcm = AESGCM(key)\n    return aesgcm.decrypt", "    key = _derive_key(password.strip(), salt)\n    aesgcm = AESGCM(key)\n    return aesgcm.decrypt", "C33.R5"),
    Twin("key derivation truncates the password", _EN, 'kdf.derive(password.encode("utf-8"))', 'kdf.derive(password[:72].encode("utf-8"))', "C33.R5"),
    Twin("key derivation drops non-ASCII characters", _EN, 'kdf.derive(password.encode("utf-8"))', 'kdf.derive(password.encode("ascii", "ignore"))', "C33.R5"),
    # ---- R5 benign
    Twin("benign: reader re-binds the password unchanged under the None guard", _AR, "    buf = io.BytesIO(data)\n    cr_files: dict", "    buf = io.BytesIO(data)\n    if encryption_password is not None:\n        encryption_password = str(encryption_password)\n    cr_files: dict", None),
    Twin("benign: password through a local, passed by keyword", _AR, "                decrypted = decrypt(content, encryption_password)", "                pw = encryption_password\n                decrypted = decrypt(content, password=pw)", None),
    Twin("benign: default codec, encoded bytes in a local", _EN, '    return kdf.derive(password.encode("utf-8"))', '    secret = password.encode()\n    return kdf.derive(secret)', None),
    Twin("benign: writer password through a conditional copy", _AR, "                    encrypted = encrypt(secret_yaml, encryption_password)", "                    pw = encryption_password if encryption_password else encryption_password\n                    encrypted = encrypt(secret_yaml, pw)", None),
    # ---- R1 breaking
    Twin("generic .yaml test before .secret.yaml", _AR, _SY + _Y, _Y + _SY, "C33.R1"),
    Twin("writer suffix typo", _AR, 'f"{name}.secret.yaml"', 'f"{name}.secrets.yaml"', "C33.R1"),
    Twin("meta branch strips only .json", _AR, 'name.removesuffix(".meta.json")', 'name.removesuffix(".json")', "C33.R1"),
    Twin("encrypted secret parsed without decrypting", _AR, "secret_files[deploy_name] = yaml.safe_load(decrypted)", "secret_files[deploy_name] = yaml.safe_load(content)", "C33.R1"),
    Twin("clear secret stored as a CR", _AR, "secret_files[deploy_name] = yaml.safe_load(content)", "cr_files[deploy_name] = yaml.safe_load(content)", "C33.R1"),
    Twin("meta file named like a CR of another deployment", _AR, 'f"{name}.meta.json"', 'f"{name}-meta.yaml"', "C33.R1"),
    # ---- R1 benign
    Twin("benign: meta branch moved after the secret branches", _AR, _MJ + _SY, _SY + _MJ, None),
    Twin("benign: slice instead of removesuffix", _AR, 'name.removesuffix(".yaml")', 'name[: -len(".yaml")]', None),
    Twin("benign: concatenated file name", _AR, 'f"{name}.yaml"', 'name + ".yaml"', None),
    Twin("benign: reversed equality", _AR, 'if name == "manifest.json":', 'if "manifest.json" == name:', None),
    # ---- R2 breaking
    Twin("nonce slice uses the salt length", _EN, "nonce = data[SALT_LENGTH : SALT_LENGTH + NONCE_LENGTH]", "nonce = data[SALT_LENGTH : SALT_LENGTH + SALT_LENGTH]", "C33.R2"),
    Twin("writer swaps salt and nonce", _EN, "return salt + nonce + ciphertext", "return nonce + salt + ciphertext", "C33.R2"),
    Twin("writer nonce length changed in one place", _EN, "nonce = os.urandom(NONCE_LENGTH)", "nonce = os.urandom(16)", "C33.R2"),
    Twin("key does not depend on the password", _EN, 'return kdf.derive(password.encode("utf-8"))', 'return kdf.derive(b"llama-backup")', "C33.R2"),
    Twin("ciphertext slice starts at the nonce", _EN, "ciphertext = data[SALT_LENGTH + NONCE_LENGTH :]", "ciphertext = data[SALT_LENGTH:]", "C33.R2"),
    # ---- R2 benign
    Twin("benign: literal offsets", _EN, "nonce = data[SALT_LENGTH : SALT_LENGTH + NONCE_LENGTH]", "nonce = data[16:28]", None),
    Twin("benign: commuted sum", _EN, "ciphertext = data[SALT_LENGTH + NONCE_LENGTH :]", "ciphertext = data[NONCE_LENGTH + SALT_LENGTH :]", None),
    Twin("benign: inline key", _EN, "    key = _derive_key(password, salt)\n    aesgcm = AESGCM(key)\n    return aesgcm.decrypt(nonce, ciphertext, None)", "    return AESGCM(_derive_key(password, salt)).decrypt(nonce, ciphertext, None)", None),
    # ---- R3
    Twin("reader demands a non-empty password", _AR, "                if encryption_password is None:", "                if not encryption_password:", "C33.R3"),
    Twin("manifest flag by truthiness, reader by None", _AR, '"encrypted": encryption_password is not None,', '"encrypted": bool(encryption_password),', "C33.R3"),
    Twin("benign: repaired writer branch", _AR, "                if encryption_password:", "                if encryption_password is not None:", None),
    Twin("benign: flag spelled with not", _AR, '"encrypted": encryption_password is not None,', '"encrypted": not (encryption_password is None),', None),
    # ---- R4
    Twin("manifest key renamed in the writer only", _AR, '"deployment_count": len(deployments),', '"deployments": len(deployments),', "C33.R4"),
    Twin("meta key renamed in the writer only", _AR, 'json.dumps({"generation": generations[name]})', 'json.dumps({"gen": generations[name]})', "C33.R4"),
    Twin("benign: get instead of subscript", _AR, 'timestamp=manifest_data["timestamp"],', 'timestamp=manifest_data.get("timestamp"),', None),
]
