"""C05 — retry budgets count attempts and elapsed time correctly.

Decided: (R1) clock-domain consistency: every timestamp that meets another in a subtraction, or
is handed to datetime.fromtimestamp, comes from one clock domain on every flow (WALL =
time.time(), MONO = time.monotonic(), the adapter clock = union over all get_now implementations);
(R2) attempt accounting: the count handed to the policy, reported in the failure events and
carried by the retry is attempts+1 starting from 0; stop_after_attempt(n) evaluated on that
sequence executes max(n,1) times (finite AST evaluation for n = -1..6); retry_info numbers
0,1,2…; the bookkeeping of an execution travels only with the re-queue of its own event to its own
step; (R3) a policy answer of None never re-queues the failed event.
Also (R2) the retry context handed to the step function is traced to its source: built from the in-progress entry in run_worker, or —
when it travels on the command — supplied by every CommandRunWorker producer (a producer relying on a default hands out attempt 0).
Not decided: that the measured number equals the time that really passed.
"""

from __future__ import annotations

import ast

from ..absint import Interp, Raised, Record, Unsupported
from ..astx import call_name, calls_named, enclosing_stmt, expand, facts_at, has_fact, kwarg, last, reaching_def
from ..cfg import CFG
from ..index import AnchorError, FuncNode, Module, enclosing_function, parent, qualname_of
from ..selftest import Twin, multi
from ._engine import CL, CL_REL, RUNNER, param, wf_modules

EXPLANATION = __doc__.split("\n\n", 1)[1]
TECHNIQUE = 'static analysis: clock-domain taint over field-name-sensitive flows (WALL/MONO/adapter), attempt-accounting def-use, finite AST evaluation of stop_after_attempt'
TRUSTED = ["CPython ast", "time.time()/time.monotonic() semantics"]

FIELDS = ("failed_at", "first_attempt_at", "last_failed_at")
PKGS = ("workflows", "llama_agents.dbos", "llama_agents.server")


class Clocks:
    """Flow-insensitive, field-name-sensitive clock-domain inference over the engine packages."""

    def __init__(self, repo):
        self.repo = repo
        self.mods = [m for m in repo.by_rel.values() if any(m.name == p or m.name.startswith(p + ".") for p in PKGS)]
        self.field: dict[str, set[str]] = {f: set() for f in FIELDS}
        self.why: dict[str, list[str]] = {f: [] for f in FIELDS}
        self.funcs: dict[str, list[tuple[Module, ast.AST]]] = {}
        for m in self.mods:
            for q, fn in m.functions.items():
                self.funcs.setdefault(q.rsplit(".", 1)[-1], []).append((m, fn))
        self.calls: dict[str, list[tuple[Module, ast.Call]]] = {}
        for m in self.mods:
            for c in ast.walk(m.tree):
                if isinstance(c, ast.Call):
                    nm = last(call_name(c))
                    if nm:
                        self.calls.setdefault(nm, []).append((m, c))
        self.adapter = self._adapter_domains()
        self._stack: set = set()
        self._fix()

    def _adapter_domains(self) -> dict[str, set[str]]:
        out: dict[str, set[str]] = {}
        for m, fn in self.funcs.get("get_now", []):
            rets = [n.value for n in ast.walk(fn) if isinstance(n, ast.Return) and n.value is not None]
            doms: set[str] = set()
            forwarding = False
            for r in rets:
                if isinstance(r, ast.Await) and isinstance(r.value, ast.Call) and last(call_name(r.value)) == "get_now":
                    forwarding = True
                    continue
                doms |= self._expr(m, fn, r, depth=3, adapter=False)
            if rets and not forwarding:
                out[f"{m.name}:{qualname_of(fn)}"] = doms
        return out

    def adapter_dom(self) -> set[str]:
        s: set[str] = set()
        for d in self.adapter.values():
            s |= d
        return s

    def _expr(self, m: Module, fn: ast.AST | None, e: ast.AST, depth: int = 4, adapter: bool = True) -> set[str]:
        if isinstance(e, ast.Await):
            e = e.value
        if isinstance(e, ast.Call):
            n = call_name(e) or ""
            if n in ("time.time", "_time.time"):
                return {"WALL"}
            if n in ("time.monotonic", "time.perf_counter", "asyncio.get_event_loop().time"):
                return {"MONO"}
            if last(n) == "get_now" and adapter:
                return set(self.adapter_dom())
            if last(n) in ("float", "max", "min") and e.args:
                s: set[str] = set()
                for a in e.args:
                    s |= self._expr(m, fn, a, depth, adapter)
                return s
            # a repo function returning a clock value (e.g. _durable_time)
            if depth > 0 and last(n) in self.funcs and last(n) not in ("get_now",):
                s = set()
                for m2, f2 in self.funcs[last(n)][:3]:
                    for r in ast.walk(f2):
                        if isinstance(r, ast.Return) and r.value is not None:
                            s |= self._expr(m2, f2, r.value, depth - 1, adapter)
                return s
            return set()
        if isinstance(e, ast.BoolOp):
            s = set()
            for v in e.values:
                s |= self._expr(m, fn, v, depth, adapter)
            return s
        if isinstance(e, ast.IfExp):
            return self._expr(m, fn, e.body, depth, adapter) | self._expr(m, fn, e.orelse, depth, adapter)
        if isinstance(e, ast.Attribute) and e.attr in self.field:
            return set(self.field[e.attr])
        if isinstance(e, ast.Name) and fn is not None and depth > 0:
            d = reaching_def(e.id, e)
            if d is not None:
                return self._expr(m, fn, d, depth - 1, adapter)
            params = [a.arg for a in fn.args.posonlyargs + fn.args.args + fn.args.kwonlyargs]
            if e.id in params:
                return self._param(m, fn, e.id, depth - 1)
        return set()

    def _param(self, m: Module, fn: ast.AST, name: str, depth: int) -> set[str]:
        key = (id(fn), name)
        if key in self._stack or depth < 0:
            return set()
        self._stack.add(key)
        try:
            pos = [a.arg for a in fn.args.posonlyargs + fn.args.args]
            is_method = isinstance(parent(fn), ast.ClassDef)
            idx = pos.index(name) - (1 if is_method and pos and pos[0] in ("self", "cls") else 0) if name in pos else None
            s: set[str] = set()
            for m2, c in self.calls.get(fn.name, []):
                arg = kwarg(c, name, idx)
                if arg is not None:
                    s |= self._expr(m2, enclosing_function(c), arg, depth, True)
            return s
        finally:
            self._stack.discard(key)

    def _fix(self) -> None:
        for _ in range(8):
            changed = False
            for m in self.mods:
                for n in ast.walk(m.tree):
                    if isinstance(n, ast.keyword) and n.arg in self.field:
                        d = self._expr(m, enclosing_function(n.value), n.value)
                        if not d <= self.field[n.arg]:
                            self.field[n.arg] |= d
                            self.why[n.arg].append(f"{m.rel}:{n.value.lineno} {n.arg}={ast.unparse(n.value)[:50]} -> {sorted(d)}")
                            changed = True
                    elif isinstance(n, ast.Assign) and len(n.targets) == 1 and isinstance(n.targets[0], ast.Attribute) and n.targets[0].attr in self.field:
                        d = self._expr(m, enclosing_function(n), n.value)
                        f = n.targets[0].attr
                        if not d <= self.field[f]:
                            self.field[f] |= d
                            self.why[f].append(f"{m.rel}:{n.lineno} .{f} = {ast.unparse(n.value)[:50]} -> {sorted(d)}")
                            changed = True
            if not changed:
                break


def run(chk) -> None:
    repo = chk.repo
    from ._engine import engine_view
    chk.extra["helpers_inlined"] = engine_view(repo)
    m = repo.module(CL)
    ck = Clocks(repo)
    chk.floor("C05.R1", "concrete get_now implementations", len(ck.adapter), 1)
    chk.extra["clock_domains"] = {"adapter": {k: sorted(v) for k, v in ck.adapter.items()}, "fields": {k: sorted(v) for k, v in ck.field.items()}, "flows": {k: v[:8] for k, v in ck.why.items()}}
    for ref, dom in sorted(ck.adapter.items()):
        if not dom:
            raise AnchorError(f"C05.R1: cannot classify the clock returned by {ref}")
    # the control-loop clock: one domain over all adapters (the reducer cannot tell adapters apart)
    ad = ck.adapter_dom()
    mb = repo.module("workflows.plugins.basic")
    chk.ob("C05.R1", "all run adapters hand the control loop the same clock domain", len(ad) == 1, m=mb, node=mb.tree, instance="adapter-clock:uniform",
           reason=f"get_now implementations disagree: { {k: sorted(v) for k, v in ck.adapter.items()} }")

    # sinks
    sinks = 0
    for mod in ck.mods:
        if not mod.name.startswith("workflows"):
            continue
        for n in ast.walk(mod.tree):
            fn = enclosing_function(n)
            if isinstance(n, ast.BinOp) and isinstance(n.op, ast.Sub) and fn is not None:
                l, r = ck._expr(mod, fn, n.left), ck._expr(mod, fn, n.right)
                if l and r:
                    sinks += 1
                    u = l | r
                    chk.ob("C05.R1", f"operands of `{ast.unparse(n)[:70]}` come from one clock domain", len(u) == 1, m=mod, node=n, fn=fn,
                           instance=f"elapsed:{ast.unparse(expand(n.left, n)).split('.')[-1].split('(')[0]}-{ast.unparse(expand(n.right, n)).split('.')[-1]}",
                           reason=f"left ∈ {sorted(l)}, right ∈ {sorted(r)}: an elapsed time mixes clocks (flows: {ck.why.get('first_attempt_at', [])[:2]} / {ck.why.get('failed_at', [])[:2]})")
            if isinstance(n, ast.Call) and (call_name(n) or "").endswith("fromtimestamp") and n.args and fn is not None:
                d = ck._expr(mod, fn, n.args[0])
                if d:
                    sinks += 1
                    chk.ob("C05.R1", f"`{ast.unparse(n)[:60]}` receives an epoch (wall-clock) timestamp", d == {"WALL"}, m=mod, node=n, fn=fn,
                           instance=f"fromtimestamp:{ast.unparse(n.args[0]).split('.')[-1]}", reason=f"argument domain {sorted(d)}")
    chk.floor("C05.R1", "clock sinks (timestamp subtraction / fromtimestamp)", sinks, 4)

    # ---------------------------------------------------------------- R2 attempt accounting
    ms, sr = repo.func(f"{CL}:_process_step_result_tick")
    nexts = [c for c in ast.walk(sr) if isinstance(c, ast.Call) and isinstance(c.func, ast.Attribute) and c.func.attr == "next" and len(c.args) >= 2]
    chk.floor("C05.R2", "retry-policy next() calls in the reducer", len(nexts), 1)

    def is_attempts_plus_one(e: ast.AST, at: ast.AST) -> bool:
        x = expand(e, at)
        return isinstance(x, ast.BinOp) and isinstance(x.op, ast.Add) and (
            (isinstance(x.right, ast.Constant) and x.right.value == 1 and ast.unparse(x.left).endswith(".attempts")) or
            (isinstance(x.left, ast.Constant) and x.left.value == 1 and ast.unparse(x.right).endswith(".attempts")))

    for c in nexts:
        chk.ob("C05.R2", "the policy is told attempts+1 (number of executions made so far)", is_attempts_plus_one(c.args[1], c), m=ms, node=c, fn=sr, instance="accounting:policy-arg",
               reason=f"second argument is `{ast.unparse(expand(c.args[1], c))}`")
        el = expand(c.args[0], c)
        ok = isinstance(el, ast.BinOp) and isinstance(el.op, ast.Sub) and ast.unparse(el.left).endswith(".failed_at") and ast.unparse(el.right).endswith(".first_attempt_at")
        chk.ob("C05.R2", "the policy is told failed_at - first_attempt_at as elapsed time", ok, m=ms, node=c, fn=sr, instance="accounting:policy-elapsed", reason=f"first argument is `{ast.unparse(el)}`")
    ev_sites = [c for c in ast.walk(sr) if isinstance(c, ast.Call) and last(call_name(c)) in ("StepFailedEvent", "WorkflowFailedEvent")]
    chk.floor("C05.R2", "failure event constructions", len(ev_sites), 2)
    for c in ev_sites:
        a = kwarg(c, "attempts")
        chk.ob("C05.R2", f"{last(call_name(c))}.attempts is attempts+1", a is not None and is_attempts_plus_one(a, c), m=ms, node=c, fn=sr, instance=f"accounting:{last(call_name(c))}.attempts",
               reason=f"attempts={ast.unparse(expand(a, c)) if a is not None else None}")
        e = kwarg(c, "elapsed_seconds")
        ee = expand(e, c) if e is not None else None
        ok = isinstance(ee, ast.BinOp) and isinstance(ee.op, ast.Sub) and ast.unparse(ee.left).endswith(".failed_at") and ast.unparse(ee.right).endswith(".first_attempt_at")
        chk.ob("C05.R2", f"{last(call_name(c))}.elapsed_seconds is failed_at - first_attempt_at", ok, m=ms, node=c, fn=sr, instance=f"accounting:{last(call_name(c))}.elapsed",
               reason=f"elapsed_seconds={ast.unparse(ee) if ee is not None else None}")
    retry_q = [c for c in ast.walk(sr) if isinstance(c, ast.Call) and last(call_name(c)) == "CommandQueueEvent" and kwarg(c, "delay") is not None]
    chk.floor("C05.R2", "retry CommandQueueEvent constructions", len(retry_q), 1)
    cfg = CFG(sr)
    for c in retry_q:
        a = kwarg(c, "attempts")
        chk.ob("C05.R2", "the retried event carries attempts+1", a is not None and is_attempts_plus_one(a, c), m=ms, node=c, fn=sr, instance="accounting:retry.attempts",
               reason=f"attempts={ast.unparse(a) if a is not None else None}")
        fa = kwarg(c, "first_attempt_at")
        chk.ob("C05.R2", "the retried event keeps the first attempt's timestamp", fa is not None and ast.unparse(fa).endswith(".first_attempt_at"), m=ms, node=c, fn=sr, instance="accounting:retry.first_attempt_at",
               reason=f"first_attempt_at={ast.unparse(fa) if fa is not None else None}")
        le = kwarg(c, "last_exception")
        chk.ob("C05.R2", "the retried event carries the failure's exception (retry_info().last_exception)", le is not None and ast.unparse(le).endswith(".exception"), m=ms, node=c, fn=sr, instance="accounting:retry.last_exception",
               reason=f"last_exception={ast.unparse(le) if le is not None else None}")
        # R3: a retry is queued only when the policy returned a delay
        for n in cfg.nodes_of(enclosing_stmt(c)):
            facts = facts_at(cfg, n, expand_locals=False)
            chk.ob("C05.R3", "the failed event is re-queued only when the policy returned a delay", has_fact(facts, "delay is None", False), m=ms, node=c, fn=sr, instance="retry:only-with-delay",
                   reason=f"retry command not dominated by `delay is not None`; facts {sorted(facts)[:6]}")
    # no other re-queue of the failed input event in the failure branch
    other = [c for c in ast.walk(sr) if isinstance(c, ast.Call) and last(call_name(c)) == "CommandQueueEvent" and kwarg(c, "delay") is None and kwarg(c, "event") is not None and ast.unparse(kwarg(c, "event")) == "tick.event"]
    chk.ob("C05.R3", "no undelayed re-queue of the failed input event exists", not other, m=ms, node=other[0] if other else sr, fn=sr, instance="retry:no-other-requeue", reason="the failed input event is queued again outside the retry branch")
    # the retry bookkeeping of an execution travels only with a re-queue of that execution's own event to its own step: every
    # other queued event (a result routed on, a StepFailedEvent for a @catch_error handler, a resumed waiter) starts a fresh
    # execution with a budget of its own
    BOOK = ("attempts", "first_attempt_at", "last_exception", "last_failed_at")
    allq = [c for c in ast.walk(sr) if isinstance(c, ast.Call) and last(call_name(c)) == "CommandQueueEvent"]
    chk.floor("C05.R2", "CommandQueueEvent constructions in the step-result reducer", len(allq), 2)
    for c in allq:
        carried = [k for k in BOOK if kwarg(c, k) is not None and not (isinstance(kwarg(c, k), ast.Constant) and kwarg(c, k).value in (None, 0))]
        if not carried:
            continue
        ev, sn = kwarg(c, "event", 0), kwarg(c, "step_name")
        same = ev is not None and ast.unparse(expand(ev, c, depth=2)) == "tick.event" and sn is not None and ast.unparse(expand(sn, c, depth=2)) == "tick.step_name"
        chk.ob("C05.R2", "retry bookkeeping (attempts, first attempt time, last failure) is carried only by the re-queue of the same event to the same step", same, m=ms, node=c, fn=sr,
               instance=f"accounting:bookkeeping-scope:{'retry' if same else ast.unparse(sn) if sn is not None else 'other'}",
               reason=f"CommandQueueEvent(event={ast.unparse(ev) if ev is not None else None}, step_name={ast.unparse(sn) if sn is not None else None}) carries {carried} of the failed execution: "
                      f"the receiving step starts with another step's attempt count, first-attempt time and last exception (retry_info(), stop conditions and the failure report count from there)")
    # bookkeeping survives the conversions between queued and in-progress records (start from the queue, re-queue at resume)
    from ._engine import conversion_completeness
    chk.floor("C05.R2", "conversions between EventAttempt and InProgressState in the reducer module", conversion_completeness(chk, "C05.R2"), 2)
    # delay None when no policy
    _, add = repo.func(f"{CL}:_add_or_enqueue_event")
    ips = [c for c in ast.walk(add) if isinstance(c, ast.Call) and last(call_name(c)) == "InProgressState"]
    chk.floor("C05.R2", "InProgressState constructions", len(ips), 1)
    for c in ips:
        a = kwarg(c, "attempts")
        ok = a is not None and ast.unparse(a).replace(" ", "") in ("event.attemptsor0", "(event.attemptsor0)") or (a is not None and ast.unparse(a).endswith(".attempts"))
        chk.ob("C05.R2", "a fresh execution starts at attempts 0 and a retried one at the carried count", bool(ok), m=ms, node=c, fn=add, instance="accounting:start", reason=f"attempts={ast.unparse(a) if a is not None else None}")
        f = kwarg(c, "first_attempt_at")
        ok = f is not None and isinstance(f, ast.BoolOp) and isinstance(f.op, ast.Or) and ast.unparse(f.values[0]).endswith(".first_attempt_at")
        chk.ob("C05.R2", "first_attempt_at is kept across retries and set to now only on the first execution", bool(ok), m=ms, node=c, fn=add, instance="accounting:first_attempt_at", reason=f"first_attempt_at={ast.unparse(f) if f is not None else None}")
    _, rw = repo.func(f"{RUNNER}.run_worker._run_worker")
    _, rwo = repo.func(f"{RUNNER}.run_worker")
    cmdp = param(rwo, 1)
    handed = [c for c in ast.walk(rw) if isinstance(c, ast.Call) and kwarg(c, "retry") is not None and last(call_name(c)) != "RetryAttempt"]
    chk.floor("C05.R2", "step-function invocations receiving the retry context", len(handed), 1)
    ras: list[tuple[ast.Call, ast.AST, object]] = []      # (RetryAttempt construction, function, module)
    for h in handed:
        r = expand(kwarg(h, "retry"), h, depth=3)
        if isinstance(r, ast.Call) and last(call_name(r)) == "RetryAttempt":
            ras.append((r, rw, ms))
            continue
        if isinstance(r, ast.Attribute) and isinstance(r.value, ast.Name) and r.value.id == cmdp:
            # the retry context travels on the command: then *every* producer of CommandRunWorker must fill it from the
            # execution's bookkeeping (a producer relying on the dataclass default hands the step a first-attempt context)
            fld = r.attr
            producers = [(m2, f2, c) for m2 in repo.modules.values() for f2 in m2.functions.values() for c in ast.walk(f2)
                         if isinstance(c, ast.Call) and last(call_name(c)) == "CommandRunWorker" and enclosing_function(c) is f2]
            chk.floor("C05.R2", "CommandRunWorker producers (retry context carried on the command)", len(producers), 1)
            for m2, f2, c in producers:
                v = kwarg(c, fld)
                ve = expand(v, c, depth=3) if v is not None else None
                built = isinstance(ve, ast.Call) and last(call_name(ve)) == "RetryAttempt"
                chk.ob("C05.R2", "every producer of CommandRunWorker supplies the execution's retry context when run_worker takes it from the command", built, m=m2, node=c, fn=f2,
                       instance=f"accounting:retry-context-source:{f2.name}",
                       reason=f"run_worker passes `{cmdp}.{fld}` to the step function, but this CommandRunWorker({', '.join(k.arg or '**' for k in c.keywords)}) leaves `{fld}` to its default: "
                              f"the execution it (re)starts sees retry_number 0 and no previous exception although its in-progress entry counts earlier failures")
                if built:
                    ras.append((ve, f2, m2))
            continue
        raise AnchorError(f"C05.R2: run_worker hands the step function retry={ast.unparse(kwarg(h, 'retry'))}, which is neither a RetryAttempt built from the in-progress entry nor a field of the command")
    chk.floor("C05.R2", "RetryAttempt constructions", len(ras), 1)
    for c, f2, m2 in ras:
        rn = kwarg(c, "retry_number")
        rns = ast.unparse(rn).replace(" ", "") if rn is not None else ""
        chk.ob("C05.R2", "retry_info().retry_number is the execution's attempts count (0,1,2,…)", rns.endswith(".attempts") or rns.endswith(".attemptsor0"), m=m2, node=c, fn=f2, instance="accounting:retry_number",
               reason=f"retry_number={ast.unparse(rn) if rn is not None else None}")
        le = kwarg(c, "last_exception")
        chk.ob("C05.R2", "retry_info().last_exception is the execution's last_exception", le is not None and ast.unparse(le).endswith(".last_exception"), m=m2, node=c, fn=f2, instance="accounting:last_exception",
               reason=f"last_exception={ast.unparse(le) if le is not None else None}")

    # stop_after_attempt(n) on the producer's sequence failures = 1,2,3,…  executes max(n,1) times (finite AST evaluation)
    mrp = repo.module("workflows.retry_policy")
    Interp.register_module_classes(mrp)
    saa = mrp.functions.get("stop_after_attempt.__call__")
    nxt = mrp.functions.get("_ComposableRetryPolicy.next")
    if saa is None or nxt is None:
        raise AnchorError("C05.R2: stop_after_attempt.__call__ / _ComposableRetryPolicy.next not found")
    rows, bad = [], ""
    try:
        for n in range(-1, 7):
            stop = Record("stop_after_attempt", max_attempt_number=n)
            def stop_fn(attempts, elapsed_time, upcoming_sleep=0.0, _s=stop):
                return Interp().call_function(saa, {"self": _s, "attempts": attempts, "elapsed_time": elapsed_time, "upcoming_sleep": upcoming_sleep})
            pol = Record("_ComposableRetryPolicy", retry=None, wait=lambda attempts, seed=None: 0.0, stop=stop_fn)
            executions = 0
            for failures in range(1, 12):
                executions += 1
                d = Interp().call_function(nxt, {"self": pol, "elapsed_time": 0.0, "attempts": failures, "error": Record("Exception"), "seed": None})
                if d is None:
                    break
            rows.append({"n": n, "executions": executions})
            if executions != max(n, 1):
                bad = bad or f"stop_after_attempt({n}) executes the step {executions} times, expected {max(n, 1)}"
    except (Unsupported, Raised) as e:
        raise AnchorError(f"C05.R2: cannot evaluate stop_after_attempt/_ComposableRetryPolicy.next: {e}")
    chk.ob("C05.R2", "stop_after_attempt(n) on failures=1,2,… executes max(n,1) times for n=-1..6 (AST evaluation of __call__ and next)", not bad, m=mrp, node=saa, fn=saa, instance="stop_after_attempt:count", reason=bad)
    chk.extra["stop_after_attempt_table"] = rows
    # non-retryable: retry predicate false -> None, whatever wait/stop would say (AST evaluation of next over the four
    # combinations of the stop verdict and the retry verdict)
    bad3, rows3 = "", []
    try:
        for retry_v in (False, True):
            for stop_v in (False, True):
                called = []
                pol = Record("_ComposableRetryPolicy", retry=lambda error, _v=retry_v: _v,
                             wait=lambda attempts, seed=None, _c=called: (_c.append("wait"), 1.5)[1],
                             stop=lambda attempts, elapsed_time, upcoming_sleep=0.0, _v=stop_v: _v)
                d = Interp().call_function(nxt, {"self": pol, "elapsed_time": 0.0, "attempts": 1, "error": Record("Exception"), "seed": None})
                rows3.append({"retry": retry_v, "stop": stop_v, "delay": d})
                want = 1.5 if (retry_v and not stop_v) else None
                if d != want:
                    bad3 = bad3 or f"retry predicate {retry_v}, stop {stop_v}: next() returns {d!r}, expected {want!r}"
    except (Unsupported, Raised) as e:
        raise AnchorError(f"C05.R3: cannot evaluate _ComposableRetryPolicy.next: {e}")
    first_none = not bad3
    chk.extra["next_truth_table"] = rows3
    chk.ob("C05.R3", "a non-retryable error (retry predicate false) stops immediately", first_none, m=mrp, node=nxt, fn=nxt, instance="non-retryable:stops", reason=bad3 or "no `return None` under `not self.retry(error)`")
    sad = mrp.functions.get("stop_after_delay.__call__")
    if sad is None:
        raise AnchorError("C05.R2: stop_after_delay.__call__ not found")
    r = [n.value for n in ast.walk(sad) if isinstance(n, ast.Return) and n.value is not None]
    from ..astx import atoms
    ok = len(r) == 1 and set(atoms(r[0], True)) == {("elapsed_time < self.max_delay", False)}
    chk.ob("C05.R2", "stop_after_delay(d) stops exactly when elapsed_time >= d", ok, m=mrp, node=sad, fn=sad, instance="stop_after_delay:predicate", reason=f"returns `{ast.unparse(r[0]) if r else None}`")


_P = CL_REL
_B = "packages/llama-index-workflows/src/workflows/plugins/basic.py"
_SF = "packages/llama-index-workflows/src/workflows/runtime/types/step_function.py"
_IC = "packages/llama-index-workflows/src/workflows/context/internal_context.py"
_RP = "packages/llama-index-workflows/src/workflows/retry_policy.py"
TWINS = [
    Twin("resume re-queues the interrupted execution without its first-attempt time", _P, "                    attempts=in_progress.attempts,\n                    first_attempt_at=in_progress.first_attempt_at,\n", "                    attempts=in_progress.attempts,\n", "C05.R2"),
    Twin("an event starting from the queue loses its last failure time", _P, "                last_failed_at=event.last_failed_at,\n", "", "C05.R2"),
    Twin("handler execution inherits the failed step's bookkeeping", _P, "                            event=step_failed_event,\n                            step_name=handler.step_name,\n", "                            event=step_failed_event,\n                            step_name=handler.step_name,\n                            attempts=this_execution.attempts + 1,\n                            first_attempt_at=this_execution.first_attempt_at,\n", "C05.R2"),
    Twin("step stamps monotonic", _SF, "StepWorkerFailed(exception=e, failed_at=time.time())", "StepWorkerFailed(exception=e, failed_at=time.monotonic())", "C05.R1"),
    Twin("retry_info monotonic", _IC, "elapsed = max(0.0, time.time() - retry.first_attempt_at)", "elapsed = max(0.0, time.monotonic() - retry.first_attempt_at)", "C05.R1"),
    Twin("policy told attempts", _P, "            failures = this_execution.attempts + 1\n", "            failures = this_execution.attempts\n", "C05.R2"),
    Twin("event reports attempts off by one", _P, "                total_attempts = this_execution.attempts + 1", "                total_attempts = this_execution.attempts", "C05.R2"),
    Twin("retry resets first attempt", _P, "                        first_attempt_at=this_execution.first_attempt_at,\n                        last_exception=result.exception,", "                        first_attempt_at=None,\n                        last_exception=result.exception,", "C05.R2"),
    Twin("retry count not incremented", _P, "                        attempts=this_execution.attempts + 1,", "                        attempts=this_execution.attempts,", "C05.R2"),
    Twin("stop one later", _RP, "        return attempts >= self.max_attempt_number", "        return attempts > self.max_attempt_number", "C05.R2"),
    Twin("stop_after_delay strict", _RP, "        return elapsed_time >= self.max_delay\n\n\nclass stop_before_delay", "        return elapsed_time > self.max_delay\n\n\nclass stop_before_delay", "C05.R2"),
    Twin("retry even without delay", _P, "            if delay is not None:\n                commands.append(\n                    CommandQueueEvent(\n                        event=tick.event,", "            if delay is not None or failures < 2:\n                commands.append(\n                    CommandQueueEvent(\n                        event=tick.event,", "C05.R3"),
    Twin("retry_number one-based", _P, "                        retry_number=worker.attempts,", "                        retry_number=worker.attempts + 1,", "C05.R2"),
    Twin("benign: elapsed via two locals", _P, "            elapsed_time = result.failed_at - this_execution.first_attempt_at\n", "            t_failed = result.failed_at\n            elapsed_time = t_failed - this_execution.first_attempt_at\n", None),
    Twin("benign: failures inline", _P, "                    delay = retries.next(\n                        elapsed_time, failures, result.exception, **_seed_kwarg\n                    )", "                    delay = retries.next(\n                        elapsed_time, this_execution.attempts + 1, result.exception, **_seed_kwarg\n                    )", None),
    Twin("benign: stop predicate reversed", _RP, "        return attempts >= self.max_attempt_number", "        return self.max_attempt_number <= attempts", None),
]

_RW_OLD = """                    retry=RetryAttempt(
                        retry_number=worker.attempts,
                        first_attempt_at=worker.first_attempt_at,
                        last_exception=worker.last_exception,
                        last_failed_at=worker.last_failed_at,
                        recovery_counts=dict(worker.recovery_counts),
                    ),
"""
_ADD_OLD = "        commands.append(CommandRunWorker(step_name=step_name, event=event.event, id=id))\n"
_ADD_NEW = ("        commands.append(CommandRunWorker(step_name=step_name, event=event.event, id=id, retry=RetryAttempt(retry_number=event.attempts or 0, "
            "first_attempt_at=event.first_attempt_at or now_seconds, last_exception=event.last_exception, last_failed_at=event.last_failed_at, recovery_counts=dict(event.recovery_counts))))\n")
_RERUN_OLD = "id=this_execution.worker_id,\n"
_RERUN_NEW = ("id=this_execution.worker_id, retry=RetryAttempt(retry_number=this_execution.attempts, first_attempt_at=this_execution.first_attempt_at, "
              "last_exception=this_execution.last_exception, last_failed_at=this_execution.last_failed_at, recovery_counts=dict(this_execution.recovery_counts)),\n")
TWINS += [
    Twin("retry context carried on the command; the in-place re-run producer leaves it at the default", _P,
         *multi(_P, [(_RW_OLD, "                    retry=command.retry,\n"), (_ADD_OLD, _ADD_NEW)]), "C05.R2"),
    Twin("benign: retry context carried on the command and filled by every producer", _P,
         *multi(_P, [(_RW_OLD, "                    retry=command.retry,\n"), (_ADD_OLD, _ADD_NEW), (_RERUN_OLD, _RERUN_NEW)]), None),
]
