"""C27 — DBOS recovery replays a run to the same execution.

Decided (necessary conditions):
  R1  determinism lint: nothing that executes inside the @DBOS.workflow function (control loop, runner, reducers, the
      internal adapters of the DBOS server chain; not step bodies, which DBOS memoises) calls a wall clock, an unseeded
      random source, uuid or os entropy directly; time comes from a @DBOS.step function; the run id reaches the reducer and
      the retry policy is given the seed derived from it;
  R2  journal pairing in InternalDBOSAdapter.wait_for_next_task: exactly one record (fresh) or advance (replay) before every
      return that carries a completed task, none before an empty return, load before the first lookup, the replayed task is
      the journalled one, every pending coroutine is started with a yield between starts;
  R3  DBOSRuntime.register wraps every step worker with DBOS.step and the run function with DBOS.workflow under names
      derived only from workflow_name / step name;
  R4  TaskJournal index arithmetic (finite exhaustive interpretation of its methods' AST);
  R5  InternalDBOSAdapter implements the adapter interface incl. the replay-relevant hooks, and the decorators of the DBOS
      server chain forward those hooks.
  R6  boundary agreement of the recovery clean-up: every JournalCrud method that deletes the rows beyond a bound starts
      exactly one past the last row this execution consumed — strict `>` when its caller passes a *last used* id
      (`get_local_dbos_context().function_id`), `>=` when it passes a *first free* index (`len(entries)`), with any `± k`
      on either side accounted for — and the Postgres and SQLite implementations agree.  The kind of the bound is derived
      from the expression that produces it (followed through parameters to the call sites); a producer that cannot be
      classified is exit 2, never a guess.
  R7  the journal moves only on the path on which a task is delivered: from every `journal.advance()` (replay cursor) and
      `journal.record()` in wait_for_next_task, follow the CFG *including* the exception / cancellation edges that are
      caught by a handler inside the function (the step's own failure edge excepted); nothing that is reachable only through
      such a caught failure may be a return without a completed task or another journal step.  A replayed wait that times
      out returns completed=None and is called again: the expected entry must still be the expected one.  (R2 decides
      pairing over normal edges only; the timeout of the replay wait is an exception edge into a handler.)  Paths that
      leave by raising are not decided (the execution is aborted).

Not decided: DBOS's own replay guarantees, cross-process delivery, equality of values after replay, and the fact (observation)
that the *timeout* outcome of wait_for_next_task is not journalled.
"""

from __future__ import annotations

import ast
import itertools
import re

from ..absint import Interp, Raised, Record, Unsupported
from ..astx import _mutated_in_place, call_name, dotted, enclosing_stmt, expand, kwarg, last, reaching_def
from ..cfg import CFG
from ..index import AnchorError, FuncNode, enclosing_class, enclosing_function, parent, qualname_of, walk_shallow
from ..selftest import Twin, multi
from .c26 import abstract_methods, fn_params, method, need_method, returned_class, sql_statements, strip_await  # shared helpers live in c26.py

EXPLANATION = (
    "Static necessary-condition rules for deterministic DBOS replay. "
    "R1: a call graph is built from the function decorated @DBOS.workflow in DBOSRuntime.register (through create_workflow_run_function, "
    "control_loop, _ControlLoopRunner, the reducers, and — for calls on the adapter — every internal-adapter class of the chain that "
    "DBOSRuntime.build_server_runtime assembles); calls are resolved through imports, self/super, parameter defaults, return annotations "
    "and, labelled by-name, unique method names inside workflows.runtime / llama_agents.dbos / llama_agents.server._runtime; functions "
    "decorated @DBOS.step are memoisation boundaries; coroutines handed to create_task/_spawn_task/run_in_executor are separate tasks and are "
    "not followed. In the reachable set no call may resolve to time.*, datetime.now/utcnow/today, uuid.uuid1/4, os.urandom, secrets.*, "
    "random.* (random.Random(<seed>) with an argument is allowed); the one listed exception is a uuid whose value only flows into "
    "tracing span ids. get_now of the DBOS adapter must return the result of a @DBOS.step function; _process_tick must pass the adapter's "
    "run_id to the reducer and the retry policy call must receive the seed derived from run_id. "
    "R2: CFG obligations on wait_for_next_task (exception edges excluded). R2 and R7 read the function through a protocol view (a copy, for the analysis only): "
    "`return [await] <private helper of the class / module>(…)` is a tail call, so the helper's body replaces the return with its own returns kept as returns, and a result "
    "bound to a local on several branches and returned once (`ret = …` … `return ret`) is turned back into one return per branch; a result record held in a local is read through "
    "its straight-line binding. Every return of that view must be a WaitForNextTaskResult construction the rule can read (otherwise exit 2, never skipped), and the floor counts "
    "those outcome sites (5 on /repo: nothing to wait for, replay timeout, replay delivery, fresh timeout, fresh delivery). R3: shape of DBOSRuntime.register. "
    "R4: load / record / advance / is_replaying / next_expected_key are interpreted (AST only; the CRUD is a record whose load/insert methods are the observation points, "
    "so it may be reached through any alias) for journals of length 0..3 and every "
    "protocol run of up to 5 further waits, including the non-deterministic fallback: seq_num of every insert equals the number of rows "
    "before it, is_replaying ⇔ next_expected_key is not None, the i-th replayed key is the i-th row (exhaustive over that finite domain). "
    "R5: interface / forwarding inventory. "
    "R6: for each abstract JournalCrud method whose implementations issue `DELETE … WHERE … <col> <ineq> <placeholder>` with the placeholder bound to a "
    "method parameter (`$n` = n-th argument after the SQL text; the k-th `?` = element k of the parameter tuple, written at the call or held in a straight-line local), the WHERE conjunct is normalised (reversed operands, NOT(…), `placeholder ± k`) to `deletes from bound+f upwards`; every call site of "
    "the method inside llama_agents.dbos is found and the argument is classified from its producing expression: len(<seq>) = first free index (rows 0..n-1 "
    "exist; R4 shows seq_num of an insert equals the row count), get_local_dbos_context().function_id = last used id (DBOS increments before each durable "
    "operation — trusted), `x ± int` shifts, locals are expanded, a parameter is followed to all call sites of its method (they must agree), anything else is exit 2. "
    "Obligation per implementation and call site: caller offset + f = 1 for last-used, 0 for first-free; plus one sibling-agreement obligation per method. "
    "One too low purges the recorded output of the last completed operation (re-executed on the next recovery); one too high keeps a stale row of a crashed recovery. "
    "R7: in wait_for_next_task, for each journal step j (`<journal>.advance()` / `<journal>.record(…)`, the journal being the local bound from the journal factory): N = CFG nodes reachable from j "
    "over normal edges, A = nodes reachable over all edges including exc / cancel (which lead into the handlers of enclosing try statements, or out of the function), j's own failure edges excluded "
    "(a step that raises is taken not to have moved the cursor; R4 shows advance is one increment). Nothing in A \\ N — reachable only because a later statement failed and the function caught it — may be "
    "a return that delivers no task (`return`, `return None`, result record with completed=None) or another journal step. Necessary: the control loop calls again after completed=None and must then be "
    "given the same expected key; a consumed but undelivered entry shifts every later replayed completion by one and the skipped task is journalled again by the fresh branch. "
    "Exits by raising are not offenders. A planted fixture (three faulty, four correct shapes) is analysed by the same predicate on every run. "
    "Not decided: DBOS replay guarantees, value equality after replay, the un-journalled timeout outcome."
)
TRUSTED = ["CPython ast", "DBOS step memoisation and workflow recovery", "asyncio task scheduling given the journalled order",
           "DBOSContext.function_id is the id of the last durable operation started (incremented before use)", "SQL integer comparison semantics"]
LEVEL_TEXT = "static necessary-condition rules (effect lint over a resolved call graph, CFG pairing, finite interpretation of the journal arithmetic, producer/consumer bound agreement of range deletes, CFG must-not-reach through caught-failure edges)"
LEVEL_NOTE = "A pass means no un-memoised nondeterminism source and a well-formed journal protocol; it does not prove that a recovered run reaches the same result (DBOS semantics are trusted)."
TECHNIQUE = "ast call graph with stated resolution classes + CFG must-pass + AST interpretation over a finite domain"

RT = "llama_agents.dbos.runtime"
CL = "workflows.runtime.control_loop"
SF = "workflows.runtime.types.step_function"
PLUGIN = "workflows.runtime.types.plugin"
TJ = "llama_agents.dbos.journal.task_journal"
SCOPE = ("workflows.runtime", "llama_agents.dbos", "llama_agents.server._runtime")
SPAWNERS = {"create_task", "ensure_future", "_spawn_task", "run_in_executor", "to_thread", "start_workflow_async"}
COMMON_METHODS = {
    "get", "append", "pop", "items", "values", "keys", "add", "update", "copy", "extend", "insert", "remove", "clear", "discard", "set", "join", "format",
    "start", "cancel", "done", "result", "wait", "close", "run", "send", "put", "put_nowait", "encode", "decode", "hexdigest", "reset", "bind", "setdefault",
    "info", "debug", "warning", "error", "exception", "critical", "model_dump", "model_copy", "deepcopy", "startswith", "endswith", "split", "sort",
    "execute", "fetch", "fetchrow", "commit", "connect", "acquire", "transaction", "load", "delete", "record",
}


def in_scope(modname: str) -> bool:
    return any(modname == s or modname.startswith(s + ".") for s in SCOPE)


# ======================================================================================= R1: call graph + effect lint


def _ext_name(mod, call: ast.Call) -> str | None:
    """Fully qualified external name of a callee, through the module's import table."""
    d = dotted(call.func)
    if d is None:
        return None
    head, _, rest = d.partition(".")
    tgt = mod.imports.get(head)
    if tgt is None:
        return None
    return tgt + ("." + rest if rest else "")


def _is_sink(full: str | None, call: ast.Call) -> str | None:
    if not full:
        return None
    if full.startswith("time.") and full.split(".")[1] in ("time", "time_ns", "monotonic", "monotonic_ns", "perf_counter", "perf_counter_ns", "process_time", "localtime", "gmtime", "ctime"):
        return full
    if full in ("datetime.datetime.now", "datetime.datetime.utcnow", "datetime.datetime.today", "datetime.date.today"):
        return full
    if full in ("uuid.uuid1", "uuid.uuid4", "os.urandom", "os.getpid", "os.getrandom"):
        return full
    if full.startswith("secrets."):
        return full
    if full.startswith("random."):
        if full in ("random.Random", "random.seed") and (call.args or call.keywords):
            return None
        return full
    return None


def _decorated_with(fn: ast.AST, *names: str) -> bool:
    for d in getattr(fn, "decorator_list", []):
        e = d.func if isinstance(d, ast.Call) else d
        if (dotted(e) or "") in names:
            return True
    return False


class Graph:
    def __init__(self, repo):
        self.repo = repo
        self.fn_mod: dict[int, object] = {}
        for mod in repo.by_rel.values():
            for f in mod.functions.values():
                self.fn_mod[id(f)] = mod
        # by-name index of methods inside the scope packages
        self.by_name: dict[str, list[tuple[object, ast.AST]]] = {}
        for mod in repo.by_rel.values():
            if not in_scope(mod.name):
                continue
            for q, f in mod.functions.items():
                if "." in q:
                    self.by_name.setdefault(f.name, []).append((mod, f))
        self.adapters: list[tuple[object, ast.ClassDef]] = []
        self.stats = {"resolved": 0, "by_name": 0, "external": 0, "unresolved": 0, "not_followed_spawn": 0}
        self.unresolved: set[str] = set()

    # ---- the internal adapter classes of the DBOS server chain
    def bind_adapters(self) -> None:
        repo = self.repo
        m, rt = repo.cls(f"{RT}:DBOSRuntime")
        bsr = need_method(m, rt, "build_server_runtime")
        runtime_classes = [f"{RT}:DBOSRuntime"]
        for c in ast.walk(bsr):
            if isinstance(c, ast.Call) and isinstance(c.func, ast.Name):
                ref = repo.resolve_dotted(m, c.func.id)
                if ":" in ref and repo._has_cls(ref):
                    runtime_classes.append(ref)
        seen = set()
        for ref in runtime_classes:
            hit = repo.find_method(ref, "get_internal_adapter")
            if hit is None:
                continue
            cref, cm, f = hit
            name = returned_class(f)
            if name is None:
                continue
            aref = repo.resolve_dotted(cm, name)
            if ":" in aref and repo._has_cls(aref) and aref not in seen:
                seen.add(aref)
                for r in [aref] + [b for b in repo.mro_names(aref) if ":" in b and repo._has_cls(b)]:
                    if r not in {x for x, _ in [(a, None) for a in []]}:
                        am, ac = repo.cls(r)
                        if all(ac is not c2 for _m2, c2 in self.adapters):
                            self.adapters.append((am, ac))
        names = {c.name for _m, c in self.adapters}
        if "InternalDBOSAdapter" not in names or len(names) < 4:
            raise AnchorError(f"C27.R1: could not derive the internal adapter chain from DBOSRuntime.build_server_runtime (got {sorted(names)})")

    # ---- resolution
    def resolve(self, mod, fn: ast.AST, call: ast.Call) -> tuple[list[tuple[object, ast.AST]], str]:
        repo = self.repo
        f = call.func
        cls = enclosing_class(fn) if not isinstance(fn, ast.ClassDef) else None
        # nested defs: enclosing_class of a nested function's outer method
        outer = fn
        while cls is None and outer is not None:
            outer = enclosing_function(outer)
            if outer is not None:
                p = parent(outer)
                if isinstance(p, ast.ClassDef):
                    cls = p
        if isinstance(f, ast.Name):
            # local nested def
            for n in ast.walk(fn):
                if isinstance(n, FuncNode) and n.name == f.id and n is not fn:
                    return [(mod, n)], "resolved"
            # parameter with a default naming a repo function
            a = fn.args if hasattr(fn, "args") else None
            scopes = [fn] + [x for x in _outer_functions(fn)]
            for sc in scopes:
                a = sc.args
                pos = a.posonlyargs + a.args
                for p_, d in list(zip(pos[len(pos) - len(a.defaults):], a.defaults)) + [(k, d) for k, d in zip(a.kwonlyargs, a.kw_defaults) if d is not None]:
                    if p_.arg == f.id and isinstance(d, ast.Name):
                        return self._by_ref(repo.resolve_dotted(self._mod_of(sc) or mod, d.id)), "resolved"
            # local bound to the result of a factory: follow the factory (its nested defs are part of its body)
            d = strip_await(reaching_def(f.id, call))
            if isinstance(d, ast.Call) and isinstance(d.func, ast.Name):
                t = self._by_ref(repo.resolve_dotted(mod, d.func.id))
                if t:
                    return t, "resolved"
            t = self._by_ref(repo.resolve_dotted(mod, f.id))
            if t:
                return t, "resolved"
            if f.id in mod.imports:
                return [], "external"
            return [], "builtin"
        if isinstance(f, ast.Attribute):
            recv = f.value
            rd = dotted(recv) or ""
            # self.m / super().m
            if isinstance(recv, ast.Name) and recv.id == "self" and cls is not None:
                hit = repo.find_method(f"{mod.name}:{qualname_of(cls)}", f.attr)
                if hit:
                    return [(hit[1], hit[2])], "resolved"
            if isinstance(recv, ast.Call) and isinstance(recv.func, ast.Name) and recv.func.id == "super" and cls is not None:
                out = []
                for b in repo.mro_names(f"{mod.name}:{qualname_of(cls)}"):
                    if ":" in b and repo._has_cls(b):
                        bm, bc = repo.cls(b)
                        g = method(bc, f.attr)
                        if g is not None:
                            out.append((bm, g))
                            break
                if out:
                    return out, "resolved"
            # adapter-like receivers: every class of the chain that defines the method
            if rd.split(".")[-1] in ("adapter", "_decorated", "run_adapter", "internal_adapter") or _annotated(fn, recv, "InternalRunAdapter"):
                out = [(am, g) for am, ac in self.adapters for g in [method(ac, f.attr)] if g is not None]
                if out:
                    return out, "resolved"
            # module.function through imports
            head = rd.split(".")[0] if rd else ""
            if head in mod.imports:
                ref = repo.resolve_dotted(mod, rd + "." + f.attr)
                t = self._by_ref(ref)
                if t:
                    return t, "resolved"
                return [], "external"
            # typed local: x = <call returning a repo class>(…)
            if isinstance(recv, ast.Name):
                d = strip_await(reaching_def(recv.id, call))
                if isinstance(d, ast.Call) and isinstance(d.func, ast.Name):
                    cref = repo.resolve_dotted(mod, d.func.id)
                    if ":" in cref and repo._has_cls(cref):
                        hit = repo.find_method(cref, f.attr)
                        if hit:
                            return [(hit[1], hit[2])], "resolved"
                if isinstance(d, ast.Call):
                    for tm, tf in self.resolve(mod, fn, d)[0][:1]:
                        r = getattr(tf, "returns", None)
                        if r is not None:
                            for nm in [n.id for n in ast.walk(r) if isinstance(n, ast.Name)]:
                                ref = repo.resolve_dotted(tm, nm)
                                if ":" in ref and repo._has_cls(ref):
                                    hit = repo.find_method(ref, f.attr)
                                    if hit:
                                        return [(hit[1], hit[2])], "resolved"
            # last resort: unique-ish method name inside the scope packages
            if f.attr not in COMMON_METHODS and not f.attr.startswith("__"):
                cands = self.by_name.get(f.attr, [])
                if 0 < len(cands) <= 4:
                    return list(cands), "by_name"
            return [], "unresolved"
        return [], "unresolved"

    def _mod_of(self, fn: ast.AST):
        cur = fn
        while cur is not None:
            m = self.fn_mod.get(id(cur))
            if m is not None:
                return m
            cur = enclosing_function(cur)
        return None

    def _by_ref(self, ref: str) -> list[tuple[object, ast.AST]]:
        repo = self.repo
        if ":" not in ref:
            return []
        modname, _, qual = ref.partition(":")
        m = repo.modules.get(modname)
        if m is None:
            return []
        if qual in m.functions:
            return [(m, m.functions[qual])]
        if qual in m.classes:
            out = []
            for nm in ("__init__", "__post_init__"):
                g = method(m.classes[qual], nm)
                if g is not None:
                    out.append((m, g))
            return out
        return []

    # ---- traversal
    def reach(self, roots: list[tuple[object, ast.AST]]) -> dict[int, tuple[object, ast.AST, str]]:
        seen: dict[int, tuple[object, ast.AST, str]] = {}
        work = [(m, f, "root") for m, f in roots]
        while work:
            mod, fn, how = work.pop()
            if id(fn) in seen:
                continue
            seen[id(fn)] = (mod, fn, how)
            if _decorated_with(fn, "DBOS.step") and how != "root":
                continue  # memoisation boundary
            self.repo.consulted.add(mod.rel)
            skip: set[int] = set()
            for c in ast.walk(fn):
                if isinstance(c, ast.Call) and (last(call_name(c)) or "") in SPAWNERS:
                    for a in list(c.args) + [k.value for k in c.keywords]:
                        for x in ast.walk(a):
                            if isinstance(x, (ast.Call, ast.Lambda)):
                                skip.add(id(x))
            for c in ast.walk(fn):
                if not isinstance(c, ast.Call):
                    continue
                if id(c) in skip:
                    self.stats["not_followed_spawn"] += 1
                    continue
                # nested defs decorated as steps are boundaries too
                inner = enclosing_function(c)
                if inner is not None and inner is not fn and _decorated_with(inner, "DBOS.step"):
                    continue
                targets, kind = self.resolve(mod, inner if inner is not None else fn, c)
                if kind in ("resolved", "by_name"):
                    self.stats[kind] += 1
                    for tm, tf in targets:
                        if in_scope(tm.name) or tm.name.startswith("workflows."):
                            work.append((tm, tf, kind))
                elif kind == "external":
                    self.stats["external"] += 1
                elif kind == "unresolved":
                    self.stats["unresolved"] += 1
                    self.unresolved.add(ast.unparse(c.func)[:50])
        return seen


def _outer_functions(fn: ast.AST):
    cur = enclosing_function(fn)
    while cur is not None:
        yield cur
        cur = enclosing_function(cur)


def _annotated(fn: ast.AST, recv: ast.AST, tname: str) -> bool:
    if isinstance(recv, ast.Name):
        for sc in [fn] + list(_outer_functions(fn)):
            for a in sc.args.posonlyargs + sc.args.args + sc.args.kwonlyargs:
                if a.arg == recv.id and a.annotation is not None and tname in ast.unparse(a.annotation):
                    return True
    return False


def _sinks_in(mod, fn: ast.AST) -> list[tuple[ast.Call, str]]:
    out = []
    for c in ast.walk(fn):
        if isinstance(c, ast.Call):
            s = _is_sink(_ext_name(mod, c), c)
            if s:
                out.append((c, s))
    # bare module used as an RNG:  rng = random.Random(seed) if seed is not None else random
    return out


def _tracing_only(fn: ast.AST, call: ast.Call) -> bool:
    """The value of `call` is bound to one local whose every use is an argument of a tracing call
    (dispatcher span api / span-id context var / span events)."""
    st = enclosing_stmt(call)
    if not (isinstance(st, ast.Assign) and len(st.targets) == 1 and isinstance(st.targets[0], ast.Name)):
        return False
    name = st.targets[0].id
    owner = enclosing_function(call)
    uses = [n for n in ast.walk(owner) if isinstance(n, ast.Name) and n.id == name and isinstance(n.ctx, ast.Load)]
    if not uses:
        return False
    for u in uses:
        p = parent(u)
        while p is not None and not isinstance(p, (ast.Call, ast.stmt)):
            p = parent(p)
        if not isinstance(p, ast.Call):
            return False
        cn = call_name(p) or ""
        if not (cn.startswith(("_dispatcher.", "dispatcher.", "active_span_id.")) or "Span" in cn.split(".")[-1]):
            return False
    return True


def rule_r1(chk) -> None:
    repo = chk.repo
    g = Graph(repo)
    g.bind_adapters()
    m, rt = repo.cls(f"{RT}:DBOSRuntime")
    reg = need_method(m, rt, "register")
    wf_fns = [n for n in ast.walk(reg) if isinstance(n, FuncNode) and n is not reg and _decorated_with(n, "DBOS.workflow")]
    if len(wf_fns) != 1:
        raise AnchorError(f"C27.R1: DBOSRuntime.register defines {len(wf_fns)} functions decorated @DBOS.workflow (expected 1)")
    roots = [(m, wf_fns[0])]
    seen = g.reach(roots)
    names = {f"{mod.name}:{qualname_of(fn)}" for mod, fn, _h in seen.values()}
    for need in (f"{CL}:control_loop", f"{CL}:_reduce_tick", f"{CL}:_ControlLoopRunner.run", f"{CL}:_ControlLoopRunner._process_tick",
                 f"{RT}:InternalDBOSAdapter.wait_for_next_task", f"{RT}:InternalDBOSAdapter.get_now", f"{CL}:_process_step_result_tick"):
        if need not in names:
            raise AnchorError(f"C27.R1: call graph from the @DBOS.workflow function does not reach `{need}` (resolution broke)")
    chk.floor("C27.R1", "functions reachable inside the @DBOS.workflow function", len(seen), 40)
    chk.extra["call_graph"] = {"reachable_functions": len(seen), **g.stats, "unresolved_samples": sorted(g.unresolved)[:25],
                               "adapter_chain": [c.name for _m, c in g.adapters]}
    n_sinks = 0
    for mod, fn, how in seen.values():
        if any(fn is not o and any(x is fn for x in ast.walk(o)) for _mm, o, _hh in seen.values() if _mm is mod):
            continue  # nested def of a reachable function: already covered by the walk of its parent
        boundary = _decorated_with(fn, "DBOS.step")
        for c, s in _sinks_in(mod, fn):
            inner = enclosing_function(c)
            n_sinks += 1
            if boundary or (inner is not None and _decorated_with(inner, "DBOS.step")):
                chk.ob("C27.R1", f"nondeterminism source `{s}` is inside a @DBOS.step function (memoised, replayed)", True, m=mod, node=c, fn=inner or fn, instance=f"source:{s}")
                continue
            if s.startswith("uuid.") and _tracing_only(fn, c):
                chk.ob("C27.R1", f"`{s}` feeds tracing span ids only (listed exception: not part of ticks, events or the result)", True, m=mod, node=c, fn=inner or fn, instance=f"source:{s}:tracing")
                continue
            chk.ob("C27.R1", f"no direct call of `{s}` inside the @DBOS.workflow function", False, m=mod, node=c, fn=inner or fn, instance=f"source:{s}",
                   reason=f"`{s}` is evaluated again on recovery with a different value ({how} edge); use adapter.get_now() / a seed derived from the run id / a @DBOS.step",
                   path=[f"@DBOS.workflow {qualname_of(wf_fns[0])} -> … -> {qualname_of(inner or fn)}"])
    chk.floor("C27.R1", "nondeterminism sources seen in the reachable set (incl. memoised / listed)", n_sinks, 2)
    # sanity of the matcher on the tree itself: the replay helpers (outside the workflow function) do call time.time()
    mcl = repo.module(CL)
    outside = [s for q, f in mcl.functions.items() if id(f) not in seen for _c, s in _sinks_in(mcl, f)]
    chk.floor("C27.R1", "wall-clock calls in control_loop.py outside the workflow function (rebuild / replay helpers)", len(outside), 1)
    # planted fixture
    _fixture(chk)
    # get_now of the DBOS adapter = a @DBOS.step function
    ma, ad = repo.cls(f"{RT}:InternalDBOSAdapter")
    gn = need_method(ma, ad, "get_now")
    rets = [r for r in walk_shallow(gn) if isinstance(r, ast.Return) and r.value is not None]
    ok = bool(rets)
    for r in rets:
        v = strip_await(expand(r.value, r))
        tgt = g._by_ref(repo.resolve_dotted(ma, v.func.id)) if isinstance(v, ast.Call) and isinstance(v.func, ast.Name) else []
        ok = ok and bool(tgt) and all(_decorated_with(tf, "DBOS.step") for _tm, tf in tgt)
    chk.ob("C27.R1", "InternalDBOSAdapter.get_now returns the result of a @DBOS.step function (time is memoised)", ok, m=ma, node=gn, fn=gn, instance="get_now:durable",
           reason="get_now does not return the result of a function decorated @DBOS.step(): every recovery reads a new clock value")
    # run id -> reducer -> retry seed
    _, runner = repo.cls(f"{CL}:_ControlLoopRunner")
    pt = need_method(mcl, runner, "_process_tick")
    red = [c for c in ast.walk(pt) if isinstance(c, ast.Call) and last(call_name(c)) == "_reduce_tick"]
    if not red:
        raise AnchorError("C27.R1: _process_tick does not call _reduce_tick")
    for c in red:
        rid = kwarg(c, "run_id", 3)
        chk.ob("C27.R1", "the live reducer call receives the adapter's run id (seed material for jitter)", rid is not None and (dotted(rid) or "").endswith("adapter.run_id"), m=mcl, node=c, fn=pt,
               instance="seed:run-id-to-reducer", reason="run_id is not passed: jitter_seed is None and the retry policy falls back to the global random module")
    _, sr = repo.func(f"{CL}:_process_step_result_tick")
    nexts = [c for c in ast.walk(sr) if isinstance(c, ast.Call) and isinstance(c.func, ast.Attribute) and c.func.attr == "next" and "retr" in ast.unparse(expand(c.func.value, c, depth=1)).lower()]
    if not nexts:
        raise AnchorError("C27.R1: no retry-policy `.next(…)` call in _process_step_result_tick")
    for c in nexts:
        seed_src = None
        for k in c.keywords:
            v = k.value
            if k.arg == "seed":
                seed_src = expand(v, c)
            elif k.arg is None:  # **kwargs
                e = expand(v, c)
                for d in ast.walk(e):
                    if isinstance(d, ast.Dict):
                        for kk, vv in zip(d.keys, d.values):
                            if isinstance(kk, ast.Constant) and kk.value == "seed":
                                seed_src = expand(vv, c)
        if seed_src is not None:
            from ..astx import dep_slice
            seed_src = ast.Tuple(elts=list(dep_slice(sr, seed_src, stop=("run_id",)).exprs), ctx=ast.Load())
        ok = seed_src is not None and "run_id" in ast.unparse(seed_src)
        chk.ob("C27.R1", "the retry policy is called with the seed derived from (run_id, step, failures)", ok, m=mcl, node=c, fn=sr, instance="seed:to-policy",
               reason="no `seed` argument derived from run_id reaches retries.next(): jittered delays differ between the original run and its recovery")


FIXTURE = "fixtures/c27/clock_in_reducer.py"


def _fixture(chk) -> None:
    from ..index import Module, _set_parents
    from ..report import VERIF

    p = VERIF / FIXTURE
    if not p.is_file():
        raise AnchorError(f"fixture {FIXTURE} missing")
    src = p.read_text()
    tree = ast.parse(src)
    _set_parents(tree)
    mod = Module("fixture_c27", p, FIXTURE, src, tree)
    chk.repo._collect(mod)
    found = sorted({s for f in mod.functions.values() for _c, s in _sinks_in(mod, f)})
    want = {"time.time", "datetime.datetime.now", "uuid.uuid4", "random.random"}
    chk.floor("C27.fixture", f"planted nondeterminism sources recognised ({sorted(want)})", len(want & set(found)), len(want))
    if "random.Random" in found:
        raise AnchorError("C27.fixture: seeded random.Random(seed) was reported as a source")


# ======================================================================================= protocol view of wait_for_next_task
#
# R2 / R7 are stated over *one* function: every way out of wait_for_next_task is an outcome of the protocol.  Two ordinary
# refactorings move outcomes out of the syntactic `return WaitForNextTaskResult(…)` statements of that function without
# changing a single path:
#   * `return [await] self._helper(…)` — the helper's returns *are* this function's returns (a tail call).  The generic
#     inliner of sa/inline.py folds a helper only when all its returns are tail returns; a helper that keeps an early
#     `return` in an `except` handler (the natural shape of the replay wait) is left as a call;
#   * `ret = <result>` on several branches followed by one `return ret` (what the generic inliner produces, and what a
#     developer writes by hand), or one result record bound to a local and returned from several places.
# The view below undoes both, so that the rules — and the floor that counts outcomes — see the same outcome sites
# whichever way they are written.  It is a view for the analysis only; it never decides anything by itself.  A return the
# view cannot resolve to a result construction is exit 2 in R2 (never skipped, never counted).


def _block_ends(stmts: list[ast.stmt]) -> bool:
    """Every normal path through the block ends in return / raise."""
    if not stmts:
        return False
    s = stmts[-1]
    if isinstance(s, (ast.Return, ast.Raise)):
        return True
    if isinstance(s, ast.If):
        return _block_ends(s.body) and _block_ends(s.orelse)
    if isinstance(s, (ast.With, ast.AsyncWith)):
        return _block_ends(s.body)
    if isinstance(s, ast.Try):
        if _block_ends(s.finalbody):
            return True
        return _block_ends(s.orelse if s.orelse else s.body) and all(_block_ends(h.body) for h in s.handlers)
    return False


def _sink_tail(stmts: list[ast.stmt], x: str) -> bool:
    """In place: an assignment `x = V` that is the last thing the block does before control passes to the statement after
    it (which is `return x`) becomes `return V`.  Tail positions: last statement of the block; of both arms of a trailing
    if; of the body of a trailing with; of the body (without else) / else and every handler of a trailing try whose finally
    does not assign x.  True when something was rewritten."""
    if not stmts:
        return False
    s = stmts[-1]
    tgt = s.targets[0] if isinstance(s, ast.Assign) and len(s.targets) == 1 else (s.target if isinstance(s, ast.AnnAssign) and s.value is not None else None)
    if isinstance(tgt, ast.Name) and tgt.id == x:
        stmts[-1] = ast.copy_location(ast.Return(value=s.value), s)
        return True
    if isinstance(s, ast.If):
        a, b = _sink_tail(s.body, x), _sink_tail(s.orelse, x)
        return a or b
    if isinstance(s, (ast.With, ast.AsyncWith)):
        return _sink_tail(s.body, x)
    if isinstance(s, ast.Try):
        from ..inline import _assigned
        if x in _assigned(list(s.finalbody)):
            return False
        done = _sink_tail(s.orelse if s.orelse else s.body, x)
        for h in s.handlers:
            done = _sink_tail(h.body, x) or done
        return done
    return False


def _blocks_of(s: ast.stmt) -> list[list[ast.stmt]]:
    if isinstance(s, FuncNode + (ast.ClassDef,)):
        return []
    out = [b for b in (getattr(s, f, None) for f in ("body", "orelse", "finalbody")) if isinstance(b, list) and b and isinstance(b[0], ast.stmt)]
    if isinstance(s, ast.Try):
        out += [h.body for h in s.handlers]
    if isinstance(s, ast.Match):
        out += [c.body for c in s.cases]
    return out


def _sink_returns(stmts: list[ast.stmt]) -> int:
    """In place, every block: `<stmt>; return x` where <stmt> assigns x in tail position → the assignments become returns;
    the `return x` goes when nothing falls through to it any more."""
    n = 0
    for s in stmts:
        for b in _blocks_of(s):
            n += _sink_returns(b)
    i = 0
    while i + 1 < len(stmts):
        nxt = stmts[i + 1]
        if isinstance(nxt, ast.Return) and isinstance(nxt.value, ast.Name):
            one = [stmts[i]]
            if _sink_tail(one, nxt.value.id):
                stmts[i] = one[0]
                n += 1
                if _block_ends(one):
                    del stmts[i + 1]
        i += 1
    return n


def _tail_helper_body(inl, cls: ast.ClassDef, caller: ast.AST, r: ast.Return, serial: int) -> list[ast.stmt] | None:
    """`return [await] <helper>(…)` with <helper> a private plain / static method of the same class (through self / cls / the
    class name) or a private function of the module, awaited iff it is a coroutine function: the statements that replace the
    return — argument temporaries, then the helper's body with parameters substituted, clashing locals renamed and its own
    returns kept as returns (a tail call's returns are the caller's returns); `return None` appended when the body can fall
    off its end."""
    from ..inline import _assigned, _simple, _Subst, clone

    v = r.value
    awaited = isinstance(v, ast.Await)
    call = v.value if awaited else v
    if not isinstance(call, ast.Call):
        return None
    got = inl.helper_for(call, cls)
    if got is None:
        return None
    h, is_method = got
    if awaited != isinstance(h, ast.AsyncFunctionDef):
        return None
    if any(isinstance(a, ast.Starred) for a in call.args) or any(k.arg is None for k in call.keywords):
        return None
    params = [a.arg for a in h.args.posonlyargs + h.args.args]
    if is_method:
        params = params[1:]
    kwonly = [a.arg for a in h.args.kwonlyargs]
    if len(call.args) > len(params):
        return None
    bind: dict[str, ast.AST] = dict(zip(params, call.args))
    for k in call.keywords:
        if k.arg in bind or k.arg not in params + kwonly:
            return None
        bind[k.arg] = k.value
    defaults = dict(zip(params[len(params) - len(h.args.defaults):], h.args.defaults)) if h.args.defaults else {}
    defaults.update({p: d for p, d in zip(kwonly, h.args.kw_defaults) if d is not None})
    helper_assigned = _assigned(list(h.body))
    pre: list[ast.stmt] = []
    mapping: dict[str, ast.AST] = {}
    for p in params + kwonly:
        arg = bind.get(p, defaults.get(p))
        if arg is None:
            return None
        if _simple(arg) and p not in helper_assigned:
            mapping[p] = arg
        else:
            fresh = f"{p}__t{serial}"
            pre.append(ast.copy_location(ast.Assign(targets=[ast.Name(id=fresh, ctx=ast.Store())], value=clone(arg)), r))
            mapping[p] = ast.Name(id=fresh, ctx=ast.Load())
    clash = (helper_assigned - set(params) - set(kwonly)) & (_assigned(caller) | {a.arg for a in ast.walk(caller) if isinstance(a, ast.arg)})
    body = [clone(s) for s in h.body]
    if body and isinstance(body[0], ast.Expr) and isinstance(body[0].value, ast.Constant) and isinstance(body[0].value.value, str):
        body = body[1:]
    sub = _Subst(mapping, {nm: f"{nm}__t{serial}" for nm in clash})
    body = [sub.visit(s) for s in body]
    if not _block_ends(body):
        body.append(ast.copy_location(ast.Return(value=ast.Constant(value=None)), r))
    out = pre + body
    for s in out:
        ast.fix_missing_locations(s)
    return out


def _splice_tail_calls(inl, cls: ast.ClassDef, caller: ast.AST, stmts: list[ast.stmt], serial) -> int:
    n = 0
    i = 0
    while i < len(stmts):
        s = stmts[i]
        if isinstance(s, ast.Return) and s.value is not None:
            new = _tail_helper_body(inl, cls, caller, s, next(serial))
            if new is not None:
                stmts[i:i + 1] = new
                n += 1
                i += len(new)
                continue
        for b in _blocks_of(s):
            n += _splice_tail_calls(inl, cls, caller, b, serial)
        i += 1
    return n


def protocol_view(m, cls: ast.ClassDef, fn: ast.AST) -> tuple[ast.AST, dict]:
    """A copy of `fn` (never the tree itself) in which result temporaries are returns again and tail-called private helpers
    of the class / module are part of the function.  Source positions of the copied statements are kept, so findings point
    at the real lines (in the helper, when that is where the statement lives)."""
    from ..index import _set_parents
    from ..inline import Inliner, clone

    view = clone(fn)
    inl = Inliner(m, ())
    serial = itertools.count(1)
    stats = {"result_temporaries_sunk": 0, "tail_calls_spliced": 0}
    for _round in range(4):
        a = _sink_returns(view.body)
        b = _splice_tail_calls(inl, cls, view, view.body, serial)
        stats["result_temporaries_sunk"] += a
        stats["tail_calls_spliced"] += b
        if not a and not b:
            break
    _set_parents(view)
    view._parent = cls  # type: ignore[attr-defined]  # qualname / enclosing class of the view = those of the function
    return view, stats


def _result_of(r: ast.Return) -> ast.Call | None:
    """The result record a return hands to the control loop: written at the return, or held in a local whose nearest
    unconditional straight-line binding is the construction."""
    v = r.value
    if isinstance(v, ast.Name):
        v = reaching_def(v.id, r)
    if isinstance(v, ast.Call) and last(call_name(v)) == "WaitForNextTaskResult":
        return v
    return None


def _wait_fn(chk):
    repo = chk.repo
    m, ad = repo.cls(f"{RT}:InternalDBOSAdapter")
    fn, stats = protocol_view(m, ad, need_method(m, ad, "wait_for_next_task"))
    chk.extra["wait_for_next_task_view"] = stats
    return m, ad, fn


# ======================================================================================= R2: journal pairing


def rule_r2(chk) -> None:
    m, ad, fn = _wait_fn(chk)
    cfg = CFG(fn)
    params = fn_params(fn)
    if len(params) < 3:
        raise AnchorError("C27.R2: wait_for_next_task(self, running, pending, …) signature not recognised")
    pending = params[2]
    jnames = set()
    for s in walk_shallow(fn):
        if isinstance(s, ast.Assign) and all(isinstance(t, ast.Name) for t in s.targets):
            v = strip_await(s.value)
            if isinstance(v, ast.Call) and "journal" in (call_name(v) or "").lower():
                jnames |= {t.id for t in s.targets}
    if not jnames:
        raise AnchorError("C27.R2: wait_for_next_task does not bind the task journal to a local")

    def jcalls(name: str) -> list[ast.Call]:
        return [c for c in ast.walk(fn) if isinstance(c, ast.Call) and isinstance(c.func, ast.Attribute) and c.func.attr == name and isinstance(c.func.value, ast.Name) and c.func.value.id in jnames]

    rec, adv, load, nxt = jcalls("record"), jcalls("advance"), jcalls("load"), jcalls("next_expected_key")
    if not load or not nxt:
        raise AnchorError(f"C27.R2: journal protocol calls not all present (load {len(load)}, next_expected_key {len(nxt)})")
    chk.floor("C27.R2", "journal protocol call sites (record / advance / load / next_expected_key)", len(rec) + len(adv) + len(load) + len(nxt), 2)
    J = [n for c in rec + adv for n in cfg.nodes_of(enclosing_stmt(c))]
    # outcome sites: every return of the protocol view (tail-called helpers folded in, result temporaries turned back into returns) must
    # be a result record the rule can read — one it cannot read is exit 2, so the pairing obligations below cover *all* ways out
    rets = [r for r in walk_shallow(fn) if isinstance(r, ast.Return)]
    blind = [r for r in rets if _result_of(r) is None]
    if blind:
        raise AnchorError(f"C27.R2: wait_for_next_task returns `{' '.join(ast.unparse(blind[0]).split())[:80]}` — not a WaitForNextTaskResult construction the rule can follow "
                          "(written at the return, bound to a local, or returned by a private helper of the class called in tail position)")
    chk.floor("C27.R2", "returns of WaitForNextTaskResult", len(rets), 5)
    X = ("exc", "cancel")
    after_j = cfg.reach(J, include_starts=False, labels_excluded=X)
    for r in rets:
        res = _result_of(r)
        first = res.args[0] if res.args else kwarg(res, "completed")
        if first is None:
            raise AnchorError("C27.R2: a WaitForNextTaskResult is built without its completed-task argument")
        empty = isinstance(first, ast.Constant) and first.value is None
        rn = cfg.nodes_of(r)
        if empty:
            bad = [n for n in rn if n in after_j]
            chk.ob("C27.R2", "a return without a completed task leaves the journal untouched", not bad, m=m, node=r, fn=fn, instance=f"empty-return:{_slot(cfg, r)}",
                   reason="a record/advance precedes `return WaitForNextTaskResult(None, …)`: the journal moves but the loop processes no task — replay and original diverge by one entry")
            continue
        off = cfg.must_pass([cfg.entry], rn, J, labels_excluded=X)
        chk.ob("C27.R2", "a return carrying a completed task is preceded by a journal record (fresh) or advance (replay)", not off, m=m, node=r, fn=fn,
               instance=f"completed-return:{_slot(cfg, r)}", reason="a path returns a completed task without journalling it: recovery cannot reproduce this completion order")
        # exactly one
        twice = [n for n in J if n in after_j and any(x in cfg.reach([n], include_starts=False, labels_excluded=X) for x in rn)]
        chk.ob("C27.R2", "… by exactly one journal step", not twice, m=m, node=r, fn=fn, instance=f"completed-return-once:{_slot(cfg, r)}",
               reason="two journal steps on one path to the return")
        # the returned task is the journalled one
        ok, reason = _same_task(cfg, fn, r, first, rec, adv, nxt)
        chk.ob("C27.R2", "the returned task is the one journalled (fresh: key of the completed task; replay: task found by the expected key)", ok, m=m, node=r, fn=fn,
               instance=f"completed-return-task:{_slot(cfg, r)}", reason=reason)
    # the adapter waits for tasks it does not own: a timeout must not cancel them (asyncio.wait_for cancels its awaitable on
    # timeout unless it is shielded; asyncio.wait never cancels)
    waits = [c for c in ast.walk(fn) if isinstance(c, ast.Call) and last(call_name(c)) == "wait_for" and c.args]
    for c in waits:
        arg = c.args[0]
        if isinstance(arg, ast.Name):
            d_ = expand(arg, c, depth=1)
            if isinstance(d_, ast.Call) and last(call_name(d_)) == "shield":
                arg = d_
        shielded = isinstance(arg, ast.Call) and last(call_name(arg)) == "shield"
        fresh = isinstance(arg, ast.Call) and not shielded  # a coroutine created in place for this wait: nothing else holds it
        chk.ob("C27.R2", "waiting for the expected task with a timeout does not cancel it when the timeout fires (asyncio.shield)", shielded or fresh, m=m, node=c, fn=fn,
               instance="replay-wait:no-cancel",
               reason=f"`asyncio.wait_for({ast.unparse(c.args[0])[:40]}, …)` cancels the control loop's task when the timeout expires: the iteration returns no task, and the next one finds the "
                      f"expected task cancelled — the recovered run cannot reach the recorded result")
    cancels = [c for c in ast.walk(fn) if isinstance(c, ast.Call) and isinstance(c.func, ast.Attribute) and c.func.attr == "cancel" and not c.args]
    for c in cancels:
        chk.ob("C27.R2", "wait_for_next_task cancels none of the control loop's tasks", False, m=m, node=c, fn=fn, instance="replay-wait:no-cancel-call",
               reason=f"`{ast.unparse(c)[:60]}` inside wait_for_next_task")
    chk.floor("C27.R2", "timed waits for the journal's expected task", len(waits), 1)
    # load before lookup
    for c in nxt:
        off = cfg.must_pass([cfg.entry], cfg.nodes_of(enclosing_stmt(c)), [n for l in load for n in cfg.nodes_of(enclosing_stmt(l))], labels_excluded=X)
        chk.ob("C27.R2", "the journal is loaded before the expected key is looked up", not off, m=m, node=c, fn=fn, instance="load-before-lookup",
               reason="next_expected_key() is reachable without journal.load(): a recovered run sees an empty journal and records a new order")
    # every pending coroutine started, with a yield between starts.  The start loop is in wait_for_next_task itself or in a function of
    # the same class / module that it awaits in place with `pending` as an argument (one call deep; a static / class method too)
    loops, comps = _pending_iterations(fn, pending)
    lfn, lcfg, site = fn, cfg, None
    if not loops and not comps:
        found = _start_helper(m, ad, fn, pending)
        if found is None:
            raise AnchorError("C27.R2: wait_for_next_task does not iterate over its pending coroutines (neither itself nor in a function it hands them to)")
        site, lfn, hparam = found
        lcfg = CFG(lfn)
        loops, comps = _pending_iterations(lfn, hparam)
    if loops:
        lp = loops[0]
        hdr = lcfg.nodes_of(lp)
        starts = [c for c in ast.walk(lp) if isinstance(c, ast.Call) and last(call_name(c)) in ("create_task", "ensure_future")]
        sleeps = [c for c in ast.walk(lp) if isinstance(c, ast.Call) and last(call_name(c)) == "sleep" and c.args and isinstance(c.args[0], ast.Constant) and c.args[0].value == 0
                  and isinstance(parent(c), ast.Await)]
        filt = any(isinstance(x, (ast.If, ast.Continue, ast.Break, ast.Return)) for x in ast.walk(lp) if x is not lp)
        chk.ob("C27.R2", "every pending coroutine is started (no filter / early exit in the start loop)", bool(starts) and not filt, m=m, node=lp, fn=lfn, instance="start-all",
               reason="the start loop skips or stops: the runner raises on the started/pending mismatch, or function ids shift between run and recovery")
        snodes = [n for c in sleeps for n in lcfg.nodes_of(enclosing_stmt(c))]
        bad = []
        for c in starts:
            for n in lcfg.nodes_of(enclosing_stmt(c)):
                r = lcfg.reach([n], blocked=snodes, include_starts=False, labels_excluded=X)
                if any(h in r for h in hdr):
                    bad.append(c)
        chk.ob("C27.R2", "a yield (`await asyncio.sleep(0)`) separates consecutive starts (deterministic DBOS function-id order)", bool(sleeps) and not bad, m=m, node=lp, fn=lfn,
               instance="start-yield", reason="two pending coroutines can be started without a yield between them: their synchronous preambles take DBOS function ids in scheduler order")
        if site is not None:
            # the loop lives in a helper: it must run as part of this call (awaited in place, not spawned / deferred), and the helper must
            # reach its loop on every normal path
            in_place = isinstance(parent(site), ast.Await) and isinstance(lfn, ast.AsyncFunctionDef)
            skips = lcfg.must_pass([lcfg.entry], [lcfg.exit], hdr, labels_excluded=X)
            chk.ob("C27.R2", f"the start loop in `{lfn.name}` runs in place (awaited directly, reached on every normal path of the helper)", in_place and not skips, m=m, node=site, fn=fn,
                   instance="start-helper-in-place",
                   reason=(f"`{lfn.name}` returns without reaching its start loop" if in_place else f"`{ast.unparse(site)[:60]}` is not awaited in place: the coroutines are started while (or after) the adapter already waits"))
            hdr = cfg.nodes_of(enclosing_stmt(site))
        for r in rets:
            off = cfg.must_pass([cfg.entry], cfg.nodes_of(r), hdr, labels_excluded=X)
            if off:
                chk.ob("C27.R2", "no return before the pending coroutines were started", False, m=m, node=r, fn=fn, instance=f"start-before-return:{_slot(cfg, r)}",
                       reason="a return is reachable before the start loop")
    else:
        chk.ob("C27.R2", "a yield (`await asyncio.sleep(0)`) separates consecutive starts (deterministic DBOS function-id order)", False, m=m, node=comps[0], fn=lfn, instance="start-yield",
               reason="pending coroutines are started in a comprehension, without a yield between starts")


def _pending_iterations(f: ast.AST, pname: str) -> tuple[list[ast.AST], list[ast.AST]]:
    loops = [s for s in walk_shallow(f) if isinstance(s, (ast.For, ast.AsyncFor)) and isinstance(s.iter, ast.Name) and s.iter.id == pname]
    comps = [c for c in ast.walk(f) if isinstance(c, (ast.ListComp, ast.GeneratorExp)) and any(isinstance(gn.iter, ast.Name) and gn.iter.id == pname for gn in c.generators)]
    return loops, comps


def _start_helper(m, cls: ast.ClassDef, fn: ast.AST, pending: str) -> tuple[ast.Call, ast.AST, str] | None:
    """A call in `fn` that hands the `pending` parameter to a function of the same class (through self / cls / the class name; plain,
    static or class method) or of the same module, whose receiving parameter is iterated there.  Returns (call, callee, parameter)."""
    for c in sorted((c for c in ast.walk(fn) if isinstance(c, ast.Call)), key=lambda c: (c.lineno, c.col_offset)):
        slots = [(i, a) for i, a in enumerate(c.args) if isinstance(a, ast.Name) and a.id == pending]
        kws = [k.arg for k in c.keywords if k.arg and isinstance(k.value, ast.Name) and k.value.id == pending]
        if not slots and not kws:
            continue
        callee, shift = None, 0
        if isinstance(c.func, ast.Attribute) and isinstance(c.func.value, ast.Name) and c.func.value.id in ("self", "cls", cls.name):
            callee = method(cls, c.func.attr)
            if callee is not None:
                static = any((dotted(d) or "") == "staticmethod" for d in callee.decorator_list)
                shift = 0 if static or (c.func.value.id == cls.name and not any((dotted(d) or "") == "classmethod" for d in callee.decorator_list)) else 1
        elif isinstance(c.func, ast.Name):
            callee = m.functions.get(c.func.id)
        if callee is None or any(isinstance(a, ast.Starred) for a in c.args):
            continue
        params = [a.arg for a in callee.args.posonlyargs + callee.args.args]
        names = [params[i + shift] for i, _a in slots if i + shift < len(params)] + [k for k in kws if k in params + [a.arg for a in callee.args.kwonlyargs]]
        for pn in names:
            loops, comps = _pending_iterations(callee, pn)
            if loops or comps:
                return c, callee, pn
    return None


def _slot(cfg: CFG, r: ast.Return) -> str:
    """Semantic slot of a return of wait_for_next_task: which protocol outcome it is (never a line number)."""
    call = _result_of(r)
    first = call.args[0] if call.args else kwarg(call, "completed")
    if isinstance(first, ast.Constant) and first.value is None:
        in_handler = any(isinstance(a, ast.ExceptHandler) for a in _ancestors(r))
        # "timeout": the return is selected by a test over the outcome of a timed wait (`done, _ = await asyncio.wait(…)` … `if not done`);
        # "nothing-to-wait-for": it is selected before anything was awaited (dependence, not the names of the locals)
        from ..astx import dep_slice

        after_wait = False
        for n in cfg.nodes_of(r):
            for t, _lab in cfg.guards(n):
                if t.kind == "test" and hasattr(t.ast, "test"):
                    if any(last(call_name(c)) in ("wait", "wait_for") for c in dep_slice(cfg.fn, t.ast.test).calls()):
                        after_wait = True
        return "timeout-in-handler" if in_handler else ("timeout" if after_wait else "nothing-to-wait-for")
    return "task:" + (first.id if isinstance(first, ast.Name) else "expr")


def _ancestors(n: ast.AST):
    p = parent(n)
    while p is not None:
        yield p
        p = parent(p)


def _same_task(cfg: CFG, fn: ast.AST, r: ast.Return, first: ast.AST, rec, adv, nxt) -> tuple[bool, str]:
    X = ("exc", "cancel")
    rn = cfg.nodes_of(r)
    via_adv = [c for c in adv if any(x in cfg.reach(cfg.nodes_of(enclosing_stmt(c)), include_starts=False, labels_excluded=X) for x in rn)]
    via_rec = [c for c in rec if any(x in cfg.reach(cfg.nodes_of(enclosing_stmt(c)), include_starts=False, labels_excluded=X) for x in rn)]
    if not isinstance(first, ast.Name):
        return False, f"returned task expression `{ast.unparse(first)}` is not a local the rule can follow"
    if via_adv and not via_rec:
        d = strip_await(reaching_def(first.id, r))
        key_names = set()
        for c in nxt:
            st = enclosing_stmt(c)
            if isinstance(st, ast.Assign) and isinstance(st.targets[0], ast.Name):
                key_names.add(st.targets[0].id)
        ok = isinstance(d, ast.Call) and last(call_name(d)) == "find_by_key" and len(d.args) >= 2 and isinstance(d.args[1], ast.Name) and d.args[1].id in key_names
        return ok, "" if ok else f"replay returns `{first.id}`, which is not find_by_key(<tasks>, <expected key from the journal>)"
    if via_rec and not via_adv:
        for c in via_rec:
            k = c.args[0] if c.args else None
            if isinstance(k, ast.Name):
                k = strip_await(reaching_def(k.id, c))
            if not (isinstance(k, ast.Call) and last(call_name(k)) == "get_key" and len(k.args) >= 2 and isinstance(k.args[1], ast.Name) and k.args[1].id == first.id):
                return False, f"the recorded key `{ast.unparse(k) if k is not None else None}` is not get_key(<tasks>, {first.id})"
        return True, ""
    if not via_adv and not via_rec:
        return True, ""  # reported by the pairing obligation
    return False, "both record and advance can precede this return"


# ======================================================================================= R7: the cursor moves only on delivery


def _journal_locals(fn: ast.AST) -> set[str]:
    """Locals of `fn` bound to the task journal (the result of a call whose name mentions the journal)."""
    out: set[str] = set()
    for s in walk_shallow(fn):
        if isinstance(s, ast.Assign) and all(isinstance(t, ast.Name) for t in s.targets):
            v = strip_await(s.value)
            if isinstance(v, ast.Call) and "journal" in (call_name(v) or "").lower():
                out |= {t.id for t in s.targets}
    return out


def _journal_calls(fn: ast.AST, jnames: set[str], name: str) -> list[ast.Call]:
    return [c for c in ast.walk(fn) if isinstance(c, ast.Call) and isinstance(c.func, ast.Attribute) and c.func.attr == name
            and isinstance(c.func.value, ast.Name) and c.func.value.id in jnames]


def _delivers_nothing(r: ast.Return) -> bool:
    """`return`, `return None`, or a result record — written at the return or held in a local bound to its construction — whose
    completed task (first argument / `completed=`) is the constant None."""
    v = r.value
    if isinstance(v, ast.Name):  # a result held in a local: read the construction it was bound to
        d = reaching_def(v.id, r)
        v = d if d is not None else v
    if v is None or (isinstance(v, ast.Constant) and v.value is None):
        return True
    if isinstance(v, ast.Call):
        first = v.args[0] if v.args else kwarg(v, "completed")
        return isinstance(first, ast.Constant) and first.value is None
    return False


def _record_construction_only(repo, m, stmt: ast.AST) -> bool:
    """The statement evaluates nothing but locals, constants and the construction of plain repo records (dataclass /
    NamedTuple-like classes that define no __init__ / __new__ / __post_init__, their repo bases included): it has no
    failure a handler of the function is there for, so its exception edge is not a caught-failure path."""
    v = stmt.value if isinstance(stmt, (ast.Return, ast.Assign, ast.AnnAssign, ast.Expr)) else None
    if v is None:
        return False
    for n in ast.walk(v):
        if isinstance(n, (ast.Name, ast.Constant, ast.Tuple, ast.List, ast.keyword, ast.expr_context)):
            continue
        if isinstance(n, ast.Call) and isinstance(n.func, ast.Name):
            ref = repo.resolve_dotted(m, n.func.id)
            if ":" in ref and repo._has_cls(ref):
                refs = [ref] + [b for b in repo.mro_names(ref) if ":" in b and repo._has_cls(b)]
                if not any(method(repo.cls(r)[1], nm) is not None for r in refs for nm in ("__init__", "__new__", "__post_init__")):
                    continue
        return False
    return True


def cursor_escapes(cfg: CFG, fn: ast.AST, jnames: set[str], infallible=None) -> list[tuple[ast.Call, str, ast.AST, list]]:
    """Journal steps (`advance` = replay cursor, `record` = fresh row + cursor) of `fn` after which the function can still
    leave *normally* without delivering a task, or reach a second journal step, on a path that runs through a failure
    handled inside the function (timeout / cancellation / any exception caught by an `except` of `fn`).

    For each step node j:  N = nodes reachable from j over normal edges;  A = nodes reachable from j over all edges incl.
    `exc` / `cancel` (those lead to the handlers of the enclosing `try`s or out of the function), except j's own failure
    edges (a step that raises is taken not to have moved the cursor; R4 shows `advance` is a single increment).
    A \\ N holds exactly what becomes reachable only because a later statement failed and the failure was caught here.
    `infallible(stmt)` may name statements whose failure edges are not followed (plain record construction from locals).
    Offenders: a return in A \\ N that delivers nothing, or another journal step in A \\ N.  Paths that leave by raising are
    not offenders (the execution is aborted; the cursor is in-memory state of that execution).
    Returns (step call, 'empty-return' | 'second-step', offending AST node, CFG path step → offender)."""
    X = ("exc", "cancel")
    steps = [c for nm in ("advance", "record") for c in _journal_calls(fn, jnames, nm)]
    step_nodes = {id(n): c for c in steps for n in cfg.nodes_of(enclosing_stmt(c))}
    rets = [r for r in walk_shallow(fn) if isinstance(r, ast.Return)]
    out = []
    quiet = [(n, lab) for n in cfg.nodes if infallible is not None and n.kind == "stmt" and n.ast is not None and infallible(n.ast) for lab in X]
    for c in steps:
        for jn in cfg.nodes_of(enclosing_stmt(c)):
            normal = cfg.reach([jn], include_starts=False, labels_excluded=X)
            every = cfg.reach([jn], include_starts=False, blocked_edges=[(jn, "exc"), (jn, "cancel")] + quiet)
            caught_only = every - normal

            def route(target) -> list:
                for lab, t in cfg.succ[jn]:
                    if lab in X:
                        continue
                    p = cfg.path(t, target)
                    if p:
                        return [jn] + p
                return []

            for r in rets:
                if _delivers_nothing(r):
                    for rn in cfg.nodes_of(r):
                        if rn in caught_only:
                            out.append((c, "empty-return", r, route(rn)))
                            break
            for n in caught_only:
                c2 = step_nodes.get(id(n))
                if c2 is not None and n is not jn:
                    out.append((c, "second-step", c2, route(n)))
    return out


def _describe_escape(cfg: CFG, step: ast.Call, kind: str, node: ast.AST, route: list) -> tuple[str, list[str]]:
    failing = handler = None
    for a, b in zip(route, route[1:]):
        if b.kind == "handler":
            failing, handler = a, b
            break
    f_txt = " ".join(ast.unparse(_header_exprs_of(failing)).split())[:70] if failing is not None and failing.ast is not None else "a later statement"
    h_txt = ("except " + ast.unparse(handler.ast.type) if handler is not None and handler.ast.type is not None else "a bare except") if handler is not None else "a handler of this function"
    s_txt = ast.unparse(step)
    if kind == "empty-return":
        tail = (f"returns without a completed task (`{' '.join(ast.unparse(node).split())[:60]}`): the journal entry is consumed although its task was not delivered — the next call waits "
                "for the following recorded key, the skipped task is later picked up by the fresh-execution branch and journalled a second time, and the recovered loop sees a completion "
                "order different from the recorded one")
    else:
        tail = f"continues to a second journal step (`{ast.unparse(node)[:50]}`): one completion moves the journal twice"
    why = (f"`{s_txt}` runs before `{f_txt}`; when that fails into `{h_txt}` the function {tail}. "
           "Move the cursor only on the path on which the wait for the expected task has succeeded (after the try, or in its else)")
    return why, [f"{n.kind}@{n.line}{n.tag}" + (f" `{' '.join(ast.unparse(_header_exprs_of(n)).split())[:60]}`" if n.ast is not None and n.kind != "handler" else "") for n in route]


def _header_exprs_of(n) -> ast.AST:
    a = n.ast
    if isinstance(a, (ast.If, ast.While)):
        return a.test
    if isinstance(a, (ast.For, ast.AsyncFor)):
        return a.iter
    if isinstance(a, (ast.With, ast.AsyncWith)):
        return a.items[0].context_expr
    return a


FIXTURE_R7 = "fixtures/c27/cursor_before_wait.py"


def _fixture_r7(chk) -> None:
    """Planted shapes, analysed on every run by the same predicate: three faulty ones must be found, the correct ones must be silent."""
    from ..index import _set_parents
    from ..report import VERIF

    p = VERIF / FIXTURE_R7
    if not p.is_file():
        raise AnchorError(f"fixture {FIXTURE_R7} missing")
    tree = ast.parse(p.read_text())
    _set_parents(tree)
    want = {"planted_advance_before_wait": "empty-return", "planted_timeout_falls_through_to_record": "second-step", "planted_cancellation_caught_after_advance": "empty-return"}
    got = n_correct = 0
    planted = [c for c in tree.body if isinstance(c, ast.ClassDef) and c.name == "Planted"]
    if not planted:
        raise AnchorError("C27.R7 fixture: class Planted missing")
    for f in planted[0].body:
        if not isinstance(f, FuncNode):
            continue
        n_correct += f.name not in want
        jn = _journal_locals(f)
        if not jn:
            raise AnchorError(f"C27.R7 fixture: `{f.name}` binds no journal local")
        kinds = {k for _c, k, _n, _r in cursor_escapes(CFG(f), f, jn)}
        if f.name in want:
            got += want[f.name] in kinds
        elif kinds:
            raise AnchorError(f"C27.R7 fixture: the correct shape `{f.name}` was reported ({sorted(kinds)})")
    chk.floor("C27.R7", f"planted cursor-before-wait shapes recognised ({sorted(want)})", got, len(want))
    chk.floor("C27.R7", "planted correct shapes analysed and found silent (advance after the try / in its else / last in the try body / later failure propagates)", n_correct, 4)


def rule_r7(chk) -> None:
    """The replay cursor (and the fresh record) may move only on the path on which a task is delivered: every way out of
    wait_for_next_task after a journal step — including the ways that open when a later wait times out, is cancelled or
    raises and the function handles that itself — must hand the loop a completed task, and must not step the journal again.
    R2 decides this over normal control flow only (its pairing obligations exclude exception edges, because most
    statements `may raise` and those edges leave the function); R7 adds exactly the exception edges that are *caught in
    the function*, which is where a timeout of the replay wait lives."""
    repo = chk.repo
    m, ad, fn = _wait_fn(chk)  # protocol view: a tail-called private helper (the extracted replay wait) is part of the function
    cfg = CFG(fn)
    jnames = _journal_locals(fn)
    if not jnames:
        raise AnchorError("C27.R7: wait_for_next_task does not bind the task journal to a local")
    adv, rec = _journal_calls(fn, jnames, "advance"), _journal_calls(fn, jnames, "record")
    # floor: at least one journal step must be bound (on /repo: 1 advance + 1 record, read at the replay and the fresh return).  Not 2: when a
    # step is *missing* that is R2's violation (`completed-return` not preceded by a journal step), which an exit 2 here would mask.
    chk.floor("C27.R7", "journal steps (advance + record) in wait_for_next_task whose onward paths are followed (/repo: 2)", len(adv) + len(rec), 1)
    handlers = [n for n in cfg.nodes if n.kind == "handler" and not n.tag]
    chk.extra["cursor_paths"] = {"advance_sites": len(adv), "record_sites": len(rec), "handlers_in_function": len(handlers),
                                 "nodes_reachable_only_through_a_caught_failure": sorted({x.line for c in adv + rec for jn in cfg.nodes_of(enclosing_stmt(c))
                                                                                           for x in (cfg.reach([jn], include_starts=False, blocked_edges=[(jn, "exc"), (jn, "cancel")])
                                                                                                     - cfg.reach([jn], include_starts=False, labels_excluded=("exc", "cancel"))) if x.ast is not None})}
    esc = cursor_escapes(cfg, fn, jnames, infallible=lambda st: _record_construction_only(repo, m, st))
    for c in adv + rec:
        kind = "advance:replay" if c in adv else "record:fresh"
        mine = [(k, n, r) for c0, k, n, r in esc if c0 is c]
        why, path = ("", None)
        if mine:
            why, path = _describe_escape(cfg, c, *mine[0])
        chk.ob("C27.R7", f"after `{ast.unparse(c)}` the function leaves normally only by delivering a task — also when a later wait times out / is cancelled / raises and the failure is handled here "
               "(the journal moves only on the path on which the expected task is delivered)", not mine, m=m, node=c, fn=fn, instance=f"cursor-only-on-delivery:{kind}", reason=why, path=path)
    _fixture_r7(chk)


# ======================================================================================= R3: register


def rule_r3(chk) -> None:
    repo = chk.repo
    m, rt = repo.cls(f"{RT}:DBOSRuntime")
    reg = need_method(m, rt, "register")
    wparam = fn_params(reg)[1]
    name_defs = [s for s in walk_shallow(reg) if isinstance(s, ast.Assign) and isinstance(s.targets[0], ast.Name) and dotted(s.value) == f"{wparam}.workflow_name"]
    stable = {s.targets[0].id for s in name_defs}

    def stable_name(e: ast.AST | None, extra: set[str]) -> tuple[bool, str]:
        if e is None:
            return False, "no name= given (DBOS would derive it from the function's qualname)"
        ex = expand(e, e)
        for n in ast.walk(ex):
            if isinstance(n, ast.Name) and n.id not in extra and n.id not in stable and n.id != wparam:
                return False, f"name depends on `{n.id}`"
            if isinstance(n, ast.Call):
                return False, f"name is computed by `{ast.unparse(n)[:40]}`"
            if isinstance(n, ast.Attribute) and dotted(n) != f"{wparam}.workflow_name":
                return False, f"name depends on `{ast.unparse(n)}`"
        uses = {n.id for n in ast.walk(ex) if isinstance(n, ast.Name)} | ({wparam} if any(dotted(n) == f"{wparam}.workflow_name" for n in ast.walk(ex)) else set())
        if not (uses & (stable | {wparam})):
            return False, "name does not include the workflow name"
        return True, ""

    # run function
    wf = [n for n in ast.walk(reg) if isinstance(n, FuncNode) and n is not reg and any(isinstance(d, ast.Call) and dotted(d.func) == "DBOS.workflow" for d in n.decorator_list)]
    chk.floor("C27.R3", "@DBOS.workflow(name=…) functions in register", len(wf), 1)
    for f in wf:
        d = [d for d in f.decorator_list if isinstance(d, ast.Call) and dotted(d.func) == "DBOS.workflow"][0]
        ok, why = stable_name(kwarg(d, "name"), set())
        chk.ob("C27.R3", "the control loop is registered under a name derived only from workflow_name", ok, m=m, node=d, fn=reg, instance="workflow-name", reason=why)
    # steps
    comps = [c for c in ast.walk(reg) if isinstance(c, ast.DictComp) and any("as_step_worker_functions" in ast.unparse(g.iter) for g in c.generators)]
    chk.floor("C27.R3", "dict comprehensions over as_step_worker_functions(workflow).items()", len(comps), 1)
    wrapped_names = set()
    for c in comps:
        g = c.generators[0]
        st = enclosing_stmt(c)
        if isinstance(st, (ast.Assign, ast.AnnAssign)):
            tgt = st.targets[0] if isinstance(st, ast.Assign) else st.target
            if isinstance(tgt, ast.Name):
                wrapped_names.add(tgt.id)
        tnames = [n.id for n in ast.walk(g.target) if isinstance(n, ast.Name)]
        every = not g.ifs and len(c.generators) == 1 and g.iter and ast.unparse(g.iter).endswith(".items()") and f"({wparam})" in ast.unparse(g.iter)
        chk.ob("C27.R3", "every step worker of the workflow is wrapped (no filter)", bool(every), m=m, node=c, fn=reg, instance="steps:all",
               reason="the comprehension filters or does not iterate over as_step_worker_functions(workflow).items(): an unwrapped step is re-executed on recovery")
        v = c.value
        inner = v.func if isinstance(v, ast.Call) else None
        is_step = isinstance(v, ast.Call) and isinstance(inner, ast.Call) and dotted(inner.func) == "DBOS.step" and len(v.args) == 1 and isinstance(v.args[0], ast.Name) and len(tnames) == 2 and v.args[0].id == tnames[1]
        chk.ob("C27.R3", "each value is DBOS.step(name=…)(<that step's worker>)", bool(is_step), m=m, node=v, fn=reg, instance="steps:wrapped",
               reason="the stored function is not the DBOS.step wrapper of the step's own worker")
        if is_step:
            ok, why = stable_name(kwarg(inner, "name"), {tnames[0]})
            uses_key = tnames[0] in {n.id for n in ast.walk(kwarg(inner, "name")) if isinstance(n, ast.Name)} if kwarg(inner, "name") is not None else False
            chk.ob("C27.R3", "step registration names derive only from workflow_name and the step name, and differ per step", ok and uses_key, m=m, node=inner, fn=reg, instance="steps:name",
                   reason=why or "the name does not include the step name: all steps share one registration name")
            key_ok = isinstance(c.key, ast.Name) and c.key.id == tnames[0]
            chk.ob("C27.R3", "the wrapped step is stored under its own step name", key_ok, m=m, node=c, fn=reg, instance="steps:key", reason="dict key is not the step name")
    regs = [c for c in ast.walk(reg) if isinstance(c, ast.Call) and last(call_name(c)) == "RegisteredWorkflow"]
    chk.floor("C27.R3", "RegisteredWorkflow constructions in register", len(regs), 1)
    for c in regs:
        s = kwarg(c, "steps")
        w = kwarg(c, "workflow_run_fn")
        ok = isinstance(s, ast.Name) and s.id in wrapped_names and isinstance(w, ast.Name) and w.id in {f.name for f in wf}
        chk.ob("C27.R3", "the registration hands out the wrapped steps and the @DBOS.workflow run function", ok, m=m, node=c, fn=reg, instance="registered",
               reason=f"RegisteredWorkflow(steps={ast.unparse(s) if s is not None else None}, workflow_run_fn={ast.unparse(w) if w is not None else None}) does not use the DBOS-wrapped objects")


# ======================================================================================= R4: journal arithmetic (finite, exhaustive)


class _AInterp(Interp):
    def e_Await(self, e, env):
        return self.eval(e.value, env)


def rule_r4(chk) -> None:
    repo = chk.repo
    m, tj = repo.cls(f"{TJ}:TaskJournal")
    meths = {n: need_method(m, tj, n) for n in ("load", "is_replaying", "next_expected_key", "record", "advance")}
    cases = bad = 0
    reason = ""
    samples = []

    def run_case(L: int, choices: tuple[str, ...]) -> str | None:
        rows = [(i, f"k{i}") for i in range(L)]  # persisted (seq_num, key), contiguous by construction of earlier runs
        inserted: list[tuple] = []

        def h_insert(run_id, seq, key):
            inserted.append((run_id, seq, key))
            return None

        def h_load(run_id):
            return [k for _s, k in sorted(rows)]

        # the CRUD is a record whose *methods* are the observation points, so the journal may reach it through any alias
        # (`crud = self._crud; crud.load(...)`), not only through the dotted name `self._crud.<m>`
        crud = Record("JournalCrud", insert=h_insert, load=h_load)
        me = Record("TaskJournal", _run_id="r", _crud=crud, _entries=None, _replay_index=0)

        def call(name, **kw):
            return _AInterp({}, {}).with_class("TaskJournal", tj).call_function(meths[name], {"self": me, **kw})

        if call("is_replaying"):
            return "is_replaying() is true before load()"
        call("load")
        replayed = 0
        fresh = 0
        for ch in choices:
            k = call("next_expected_key")
            rp = call("is_replaying")
            if bool(rp) != (k is not None):
                return f"is_replaying()={rp} but next_expected_key()={k!r}"
            if ch == "wait":
                if k is not None:
                    if replayed < L and k != f"k{replayed}" and "fallback" not in choices:
                        return f"replay step {replayed} expects {k!r}, the journal row is 'k{replayed}'"
                    call("advance")
                    replayed += 1
                else:
                    if replayed < L and not inserted and "fallback" not in choices:
                        return f"journal reports fresh execution after {replayed} of {L} recorded completions"
                    n_before = L + len(inserted)
                    call("record", key=f"n{fresh}")
                    fresh += 1
                    if not inserted or inserted[-1][1] != n_before or inserted[-1][2] != f"n{fresh - 1}" or inserted[-1][0] != "r":
                        return f"record() inserted {inserted[-1] if inserted else None}, expected seq_num {n_before}"
                    if call("is_replaying") and "fallback" not in choices:
                        return "is_replaying() is true right after a fresh record(): the entry just written would be replayed"
            else:  # non-deterministic fallback: record while entries remain
                n_before = L + len(inserted)
                call("record", key=f"f{fresh}")
                fresh += 1
                if not inserted or inserted[-1][1] != n_before:
                    return f"fallback record() inserted seq_num {inserted[-1][1] if inserted else None}, expected {n_before}"
        seqs = [s for s, _k in rows] + [s for _r, s, _k in inserted]
        if seqs != list(range(len(seqs))):
            return f"persisted seq_nums {seqs} are not 0..n-1 in completion order"
        return None

    try:
        for L in range(0, 4):
            for T in range(0, 6):
                for choices in itertools.product(("wait", "fallback"), repeat=T):
                    if "fallback" in choices and L == 0:
                        continue
                    cases += 1
                    try:
                        r = run_case(L, choices)
                    except Raised as e:
                        r = f"raises {e}"
                    if r:
                        bad += 1
                        reason = reason or f"journal of {L} rows, protocol {list(choices)}: {r}"
                    elif len(samples) < 3:
                        samples.append({"rows": L, "protocol": list(choices)})
    except Unsupported as e:
        raise AnchorError(f"C27.R4: TaskJournal uses a construct the evaluator does not model: {e}")
    chk.floor("C27.R4", "journal protocol runs evaluated", cases, 100)
    chk.ob("C27.R4", f"TaskJournal index arithmetic holds on all {cases} protocol runs (0..3 recorded rows, up to 5 further waits, incl. fallback records)", bad == 0,
           m=m, node=meths["record"], fn=meths["record"], instance="journal-arithmetic", reason=reason)
    chk.extra["journal_enumeration"] = {"cases": cases, "bad": bad, "samples": samples}
    chk.exhaustive = True


# ======================================================================================= R5: interface / forwarding


REPLAY_HOOKS = ("wait_for_next_task", "get_now", "is_replaying", "wait_receive")


def rule_r5(chk) -> None:
    repo = chk.repo
    mp, iface = repo.cls(f"{PLUGIN}:InternalRunAdapter")
    ma, ad = repo.cls(f"{RT}:InternalDBOSAdapter")
    abst = abstract_methods(iface)
    chk.floor("C27.R5", "abstract methods of InternalRunAdapter", len(abst), 5)
    own = {n.name for n in ad.body if isinstance(n, FuncNode)}
    for a in abst + [h for h in REPLAY_HOOKS if h not in abst]:
        chk.ob("C27.R5", f"InternalDBOSAdapter defines `{a}`", a in own, m=ma, node=ad, fn=ad, instance=f"implements:{a}",
               reason=f"`{a}` falls back to the default of InternalRunAdapter (not durable / not journalled)")
    g = Graph(repo)
    g.bind_adapters()
    n = 0
    for am, ac in g.adapters:
        if ac is ad or ac is iface:
            continue
        for h in REPLAY_HOOKS:
            f = method(ac, h)
            if f is None:
                continue
            n += 1
            fwd = []
            for r in walk_shallow(f):
                if isinstance(r, ast.Return) and r.value is not None:
                    v = strip_await(expand(r.value, r))
                    d = None
                    if isinstance(v, ast.Name):
                        d = strip_await(reaching_def(v.id, r))
                    v = d if d is not None else v
                    recv = v.func.value if isinstance(v, ast.Call) and isinstance(v.func, ast.Attribute) else None
                    if isinstance(recv, ast.Name):
                        rdef = reaching_def(recv.id, v)
                        recv = rdef if rdef is not None else recv
                    fwd.append(recv is not None and v.func.attr == h and
                               (dotted(recv) == "self._decorated" or (isinstance(recv, ast.Call) and isinstance(recv.func, ast.Name) and recv.func.id == "super")))
            chk.ob("C27.R5", f"{ac.name}.{h} returns what the wrapped adapter's `{h}` returns", bool(fwd) and all(fwd), m=am, node=f, fn=f, instance=f"forwards:{ac.name}.{h}",
                   reason=f"a decorator of the DBOS chain answers `{h}` itself: the journal / durable clock of InternalDBOSAdapter is bypassed")
    chk.floor("C27.R5", "replay-relevant hooks defined by chain decorators", n, 4)


# ======================================================================================= R6: bound agreement of range deletes

CRUD = "llama_agents.dbos.journal.crud"
DBOS_PKG = "llama_agents.dbos"
_PH = r"(?:\$\d+|\?)"
_COL = r"[A-Za-z_][A-Za-z_0-9.]*"
_CMP = r"(?:>=|<=|>|<|=)"
_CONJ = re.compile(
    rf"^\s*(?P<not>NOT\s*)?\(?\s*(?:(?P<col>{_COL})\s*(?P<op>{_CMP})\s*(?P<ph>{_PH})\s*(?:(?P<sg>[+-])\s*(?P<k>\d+))?|"
    rf"(?P<ph2>{_PH})\s*(?:(?P<sg2>[+-])\s*(?P<k2>\d+))?\s*(?P<op2>{_CMP})\s*(?P<col2>{_COL}))\s*\)?\s*;?\s*$", re.I)
_FLIP = {">": "<", "<": ">", ">=": "<=", "<=": ">=", "=": "="}
_NEG = {">": "<=", "<": ">=", ">=": "<", "<=": ">"}


def _placeholder_arg(sq, ph: str, qn: int) -> ast.AST | str | None:
    """Expression bound to placeholder `ph` of the statement.  `$n` (asyncpg) takes the n-th variadic argument after the
    SQL text; the qn-th `?` (DB-API qmark style) takes element qn of the *parameter sequence*, the single argument after
    the SQL text — a tuple/list display at the call or a local bound to one by a straight-line assignment."""
    if ph == "?":
        rest = sq.call.args[1:]
        if len(rest) != 1 or sq.call.keywords:
            return None
        seq = rest[0]
        if isinstance(seq, ast.Name):
            name, seq = seq.id, reaching_def(seq.id, sq.call)
            if isinstance(seq, ast.List) and _mutated_in_place(name, sq.call):
                return None  # a list that is filled / reordered in place after its display: positions are not known
        if not isinstance(seq, (ast.Tuple, ast.List)) or any(isinstance(x, ast.Starred) for x in seq.elts):
            return None
        return seq.elts[qn] if 0 <= qn < len(seq.elts) else None
    return sq._bind(ph, qn)


def _range_conjuncts(sq) -> list[tuple[str, str, int, ast.AST | None]]:
    """Inequality conjuncts of a DELETE's WHERE clause as (column, 'above' | 'below', first deleted offset, bound expr):
    `col > p` deletes from p+1 upwards -> ('above', 1); `col >= p` -> ('above', 0); `col >= p + 1` -> ('above', 1);
    reversed operands and NOT(…) are normalised.  An inequality the reader cannot normalise is exit 2."""
    text = " ".join(sq.text.split())
    mm = re.search(r"\bWHERE\b(.*)$", text, re.I)
    if not mm:
        return []
    where = mm.group(1)
    if not re.search(r"[<>]", where):
        return []
    if re.search(r"\b(OR|BETWEEN|SELECT)\b", where, re.I):
        raise AnchorError(f"C27.R6: WHERE clause `{where.strip()[:80]}` mixes an inequality with OR / BETWEEN / a subquery; the bound reader does not model it")
    before = text[: mm.start(1)]
    out = []
    pos = len(before)
    for part in re.split(r"\bAND\b", where, flags=re.I):
        qn = text[:pos].count("?")
        pos += len(part) + 3
        if not re.search(r"[<>]", part):
            continue
        m = _CONJ.match(part)
        if not m or part.count("(") != part.count(")"):
            raise AnchorError(f"C27.R6: cannot read the range condition `{part.strip()[:60]}`")
        if m.group("col"):
            col, op, ph, k = m.group("col"), m.group("op"), m.group("ph"), int(m.group("k") or 0) * (-1 if m.group("sg") == "-" else 1)
        else:  # `p + k OP col`  ==  `col FLIP(OP) p + k`
            col, op, ph, k = m.group("col2"), _FLIP[m.group("op2")], m.group("ph2"), int(m.group("k2") or 0) * (-1 if m.group("sg2") == "-" else 1)
        if op == "=":
            continue
        if m.group("not"):
            op = _NEG[op]
        bound = _placeholder_arg(sq, ph, qn)
        if op in (">", ">="):
            out.append((col.split(".")[-1].lower(), "above", k + (1 if op == ">" else 0), bound if isinstance(bound, ast.AST) else None))
        else:
            out.append((col.split(".")[-1].lower(), "below", k - (1 if op == "<" else 0), bound if isinstance(bound, ast.AST) else None))
    return out


def _is_ctx_call(e: ast.AST | None) -> bool:
    e = strip_await(e)
    return isinstance(e, ast.Call) and last(call_name(e)) == "get_local_dbos_context"


def _dbos_modules(repo):
    return [m for name, m in sorted(repo.modules.items()) if name == DBOS_PKG or name.startswith(DBOS_PKG + ".")]


def _call_sites(repo, meth: str, skip_classes: set[str]) -> list[tuple[object, ast.AST, ast.Call]]:
    out = []
    for m in _dbos_modules(repo):
        for c in ast.walk(m.tree):
            if isinstance(c, ast.Call) and isinstance(c.func, ast.Attribute) and c.func.attr == meth:
                fn = enclosing_function(c)
                cls = enclosing_class(c)
                if fn is None or (cls is not None and cls.name in skip_classes):
                    continue
                out.append((m, fn, c))
    return out


def _arg_for(call: ast.Call, fn_like_params: list[str], pname: str) -> ast.AST | None:
    """Argument of `call` that binds parameter `pname` of a method whose parameters (incl. self) are `fn_like_params`."""
    for k in call.keywords:
        if k.arg == pname:
            return k.value
    if any(isinstance(a, ast.Starred) for a in call.args) or any(k.arg is None for k in call.keywords):
        return None
    i = fn_like_params.index(pname) - 1  # bound method call: self is implicit
    return call.args[i] if 0 <= i < len(call.args) else None


def classify_bound(repo, e: ast.AST, at: ast.AST, fn: ast.AST, depth: int = 0) -> tuple[str, int, str]:
    """What an integer bound denotes, from the expression that produces it: ('first-free' | 'last-used', offset, how).
    first-free: `len(<sequence>)` — the number of rows 0..n-1 present, i.e. the first index not in use;
    last-used : `<get_local_dbos_context()>.function_id` — DBOS increments the counter *before* each durable operation, so
                what is read is the id of the last operation already started;
    `x ± <int>` shifts the offset; a parameter is followed to every call site of its method inside llama_agents.dbos
    (all must agree).  Anything else is exit 2: the rule never guesses the kind of a bound."""
    if depth > 4:
        raise AnchorError("C27.R6: bound producer chain deeper than 4 calls")
    e = strip_await(e)
    if isinstance(e, ast.Name):
        d = reaching_def(e.id, at)
        if d is not None:
            return classify_bound(repo, d, at, fn, depth)
        if e.id in fn_params(fn):
            cls = enclosing_class(fn)
            sites = _call_sites(repo, fn.name, set())
            sites = [(m, f, c) for m, f, c in sites if f is not fn]
            if not sites:
                raise AnchorError(f"C27.R6: `{qualname_of(fn)}` is given the bound as parameter `{e.id}` but has no call site in {DBOS_PKG}")
            kinds = []
            for m, f, c in sites:
                a = _arg_for(c, fn_params(fn) if cls is not None else ["<none>"] + fn_params(fn), e.id)
                if a is None:
                    raise AnchorError(f"C27.R6: cannot bind parameter `{e.id}` of `{qualname_of(fn)}` at its call in {qualname_of(f)}")
                k, off, how = classify_bound(repo, a, c, f, depth + 1)
                kinds.append((k, off, f"{how} → {qualname_of(fn).split('.')[-1]}({e.id})"))
            if len({(k, o) for k, o, _h in kinds}) != 1:
                raise AnchorError(f"C27.R6: call sites of `{qualname_of(fn)}` pass bounds of different kinds for `{e.id}`: {sorted({(k, o) for k, o, _h in kinds})}")
            return kinds[0]
        raise AnchorError(f"C27.R6: cannot classify the bound `{e.id}` in {qualname_of(fn)} (no single straight-line definition)")
    if isinstance(e, ast.BinOp) and isinstance(e.op, (ast.Add, ast.Sub)):
        sign = 1 if isinstance(e.op, ast.Add) else -1
        if isinstance(e.right, ast.Constant) and isinstance(e.right.value, int) and not isinstance(e.right.value, bool):
            k, off, how = classify_bound(repo, e.left, at, fn, depth)
            return k, off + sign * e.right.value, how
        if sign == 1 and isinstance(e.left, ast.Constant) and isinstance(e.left.value, int) and not isinstance(e.left.value, bool):
            k, off, how = classify_bound(repo, e.right, at, fn, depth)
            return k, off + e.left.value, how
    if isinstance(e, ast.Call) and isinstance(e.func, ast.Name) and e.func.id == "len" and len(e.args) == 1:
        return "first-free", 0, f"len({ast.unparse(e.args[0])})"
    if isinstance(e, ast.Attribute) and e.attr == "function_id":
        base = e.value
        if isinstance(base, ast.Name):
            base = reaching_def(base.id, at)
        if _is_ctx_call(base):
            return "last-used", 0, "get_local_dbos_context().function_id"
    raise AnchorError(f"C27.R6: cannot classify the bound `{ast.unparse(e)[:60]}` in {qualname_of(fn)} as first-free / last-used")


def rule_r6(chk) -> None:
    """The recovery clean-up deletes `everything beyond what this execution has consumed` from two tables.  Each range
    DELETE must start exactly one past the last consumed row: for a bound that is the *last used* id the comparison is
    strict (`>`), for a bound that is the *first free* index it is `>=`.  One too low deletes the recorded output of the
    last completed operation (re-executed on the next recovery: the replayed part differs from the recorded one); one too
    high leaves a stale row of a crashed recovery in place (it is replayed as if this execution had produced it)."""
    repo = chk.repo
    mc, base = repo.cls(f"{CRUD}:JournalCrud")
    impls = [repo.cls(ref) for ref in repo.subclasses(f"{CRUD}:JournalCrud")]
    chk.floor("C27.R6", "JournalCrud implementations", len(impls), 2)
    abst = abstract_methods(base)
    shapes: dict[str, dict[str, list]] = {}  # method -> impl class -> [(col, dir, first, pname, sql)]
    n_stmts = 0
    for mm, cls in impls:
        for meth in abst:
            fn = method(cls, meth)
            if fn is None:
                continue
            for sq in sql_statements(fn):
                if sq.verb != "DELETE":
                    continue
                for col, direction, first, bound in _range_conjuncts(sq):
                    b = expand(bound, bound) if bound is not None else None  # at the place the argument is written (the call, or the hoisted parameter tuple)
                    if not (isinstance(b, ast.Name) and b.id in fn_params(fn)):
                        raise AnchorError(f"C27.R6: the range bound of the DELETE in {cls.name}.{meth} is `{ast.unparse(b) if b is not None else '?'}`, not a parameter of the method")
                    shapes.setdefault(meth, {}).setdefault(cls.name, []).append((col, direction, first, b.id, sq, mm, fn))
                    n_stmts += 1
    chk.floor("C27.R6", "JournalCrud methods that delete a range of rows beyond a bound", len(shapes), 2)
    chk.floor("C27.R6", "range DELETE statements read", n_stmts, 4)
    impl_names = {cls.name for _mm, cls in impls} | {base.name}
    n_sites = 0
    for meth, per_cls in sorted(shapes.items()):
        # ---- sibling agreement
        sig = {cn: sorted((col, d, f) for col, d, f, _p, _s, _m, _f in lst) for cn, lst in per_cls.items()}
        missing = sorted(cls.name for _mm, cls in impls if cls.name not in per_cls)
        agree = len({tuple(v) for v in sig.values()}) == 1 and not missing
        any_ = next(iter(per_cls.values()))[0]
        chk.ob("C27.R6", f"every JournalCrud implementation of `{meth}` deletes the same range relative to its bound", agree, m=any_[5], node=any_[4].call, fn=any_[6],
               instance=f"{meth}:sibling-agreement",
               reason=("; ".join(f"{cn}: " + ", ".join(f"{col} from bound{f:+d} {d}" for col, d, f in v) for cn, v in sorted(sig.items()))
                       + (f"; no range condition in {missing}" if missing else "") + " — the back ends recover differently from the same journal"))
        # ---- producer / consumer agreement
        pnames = {p for lst in per_cls.values() for _c, _d, _f, p, _s, _m, _fn in lst}
        if len(pnames) != 1:
            raise AnchorError(f"C27.R6: implementations of `{meth}` bound their range on different parameters {sorted(pnames)}")
        pname = pnames.pop()
        abs_fn = need_method(mc, base, meth)
        sites = _call_sites(repo, meth, impl_names)
        if not sites:
            raise AnchorError(f"C27.R6: `{meth}` has no call site in {DBOS_PKG}; the kind of its bound cannot be established")
        for m, f, c in sites:
            a = _arg_for(c, fn_params(abs_fn), pname)
            if a is None:
                raise AnchorError(f"C27.R6: cannot bind `{pname}` at the call of `{meth}` in {qualname_of(f)}")
            kind, off, how = classify_bound(repo, a, c, f)
            n_sites += 1
            want = 1 if kind == "last-used" else 0
            for cn, lst in sorted(per_cls.items()):
                for col, direction, first, _p, sq, mm, fn in lst:
                    start = off + first
                    ok = direction == "above" and start == want
                    if direction != "above":
                        why = f"the DELETE removes the rows at or *below* the bound: everything this execution has consumed"
                    elif start < want:
                        why = (f"the bound is {how} = the {kind.replace('-', ' ')} {col} ({'offset %+d, ' % off if off else ''}so the last consumed row is bound{want - 1:+d}), but the DELETE starts at bound{start:+d}: "
                               "it also removes the record of the last completed operation, which the next recovery then executes again instead of replaying")
                    else:
                        why = (f"the bound is {how} = the {kind.replace('-', ' ')} {col}, the first row this execution has not produced is bound{want:+d}, but the DELETE starts at bound{start:+d}: "
                               "a stale row left there by a crashed recovery survives and is replayed as if this execution had produced it")
                    chk.ob("C27.R6", f"`{cn}.{meth}` starts deleting exactly one past the last consumed {col} (caller passes a {kind} bound)", ok, m=mm, node=sq.call, fn=fn,
                           instance=f"{cn}.{meth}:{kind}-bound<-{qualname_of(f).split('.')[-1]}", reason=why if not ok else "",
                           path=[f"producer: {how}", f"call: {' '.join(ast.unparse(c).split())[:90]} in {qualname_of(f)}", f"consumer: {' '.join(sq.text.split())[:110]}"] if not ok else None)
    chk.floor("C27.R6", "call sites of range deletes whose bound was classified", n_sites, 2)


def run(chk) -> None:
    from ._engine import engine_view
    chk.extra["helpers_inlined"] = engine_view(chk.repo)
    from ._engine import inlined_view
    chk.extra["helpers_inlined"] += inlined_view(chk.repo, RT, __file__)
    rule_r1(chk)
    rule_r2(chk)
    rule_r3(chk)
    rule_r4(chk)
    rule_r5(chk)
    rule_r6(chk)
    rule_r7(chk)
    chk.observe("C27: the journal's alphabet covers completed tasks only; the timeout outcome of wait_for_next_task (completed=None, after which the runner pops due timer "
                "ticks) is not journalled, so a recovery in which a memoised step finishes before a timer that originally fired first could order ticks differently. "
                "Not reproducible here (DBOS is not installed); observation only, not part of the verdict.")


# ======================================================================================= twins

_RT = "packages/llama-agents-dbos/src/llama_agents/dbos/runtime.py"
_CL = "packages/llama-index-workflows/src/workflows/runtime/control_loop.py"
_TJ = "packages/llama-agents-dbos/src/llama_agents/dbos/journal/task_journal.py"
_DBI = "packages/llama-agents-dbos/src/llama_agents/dbos/idle_release.py"
_PR = "packages/llama-agents-server/src/llama_agents/server/_runtime/persistence_runtime.py"

_WF_HEAD = '    async def wait_for_next_task(\n        self,\n        running: list[NamedTask],\n        pending: list[PendingStart],\n        timeout: float | None = None,\n    ) -> WaitForNextTaskResult:\n        """Wait for and return the next task that should complete.\n\n        Starts each pending coroutine with an ``asyncio.sleep(0)`` yield between\n        them so that every task\'s synchronous preamble (including DBOS function_id\n        acquisition) runs in deterministic order.\n\n        During replay, waits for the specific task that completed in the original run.\n        During fresh execution, waits for any task and records the completion order.\n\n        Args:\n            running: Already-started tasks from previous iterations.\n            pending: Coroutines to start this iteration.\n            timeout: Timeout in seconds, None for no timeout.\n\n        Returns:\n            WaitForNextTaskResult with completed task and newly started NamedTasks.\n        """\n        # Resolve pool before journal creation (needed for postgres)\n        if self._pool_provider is not None and self._resolved_pool is None:\n            await self._resolve_pool()\n\n        # Load journal before starting pending coroutines so the orphan purge\n        # runs before new fids are consumed.\n        journal = self._get_or_create_journal()\n        await journal.load()\n        expected_key = journal.next_expected_key()\n\n        if expected_key is None and not self._orphan_purge_done:\n            await self._purge_orphaned_operations(journal)\n\n        # Start each pending coroutine with a yield between each to ensure\n        # deterministic function_id ordering for DBOS replay.\n'
_WF_LOOP = '        started: list[NamedTask] = []\n        for p in pending:\n            started.append(p.start(asyncio.create_task(p.coro)))\n            await asyncio.sleep(0)\n'

def _wf_helper_twin(name: str, expect: str | None, *, deco: str = "    @staticmethod\n", params: str = "pending: list[PendingStart]", call: str = "await self._start_pending(pending)",
                    pre: str = "", body: str = "            task = asyncio.create_task(pending_start.coro)\n            started.append(pending_start.start(task))\n            await asyncio.sleep(0)\n") -> Twin:
    """wait_for_next_task with its start loop moved into a helper of the class (defined just before it)."""
    helper = (deco + f"    async def _start_pending({params}) -> list[NamedTask]:\n        started: list[NamedTask] = []\n" + pre
              + "        for pending_start in pending:\n" + body + "        return started\n\n")
    return Twin(name, _RT, _WF_HEAD + _WF_LOOP, helper + _WF_HEAD + f"        started = {call}\n", expect)


_CRUD = "packages/llama-agents-dbos/src/llama_agents/dbos/journal/crud.py"
_PG_OPS = 'f"WHERE workflow_uuid = $1 AND function_id > $2",'
_SL_OPS = '"WHERE workflow_uuid = ? AND function_id > ?",'
_PG_TR = 'f"DELETE FROM {self._table_ref} WHERE run_id = $1 AND seq_num >= $2",'
_SL_TR = 'f"DELETE FROM {self._table_ref} WHERE run_id = ? AND seq_num >= ?",'
_TJ_OPS = "        await self._crud.purge_operations_from(self._run_id, current_fid)\n"
_TJ_TR = "        await self._crud.truncate_from(self._run_id, len(self._entries))\n"

_SL_TR_CALL = ("        with self._connect() as conn:\n            conn.execute(\n                f\"DELETE FROM {self._table_ref} WHERE run_id = ? AND seq_num >= ?\",\n"
               "                (run_id, seq_num),\n            )\n")
_SL_TR_HOISTED = ("        query = f\"DELETE FROM {self._table_ref} WHERE run_id = ? AND seq_num >= ?\"\n        params = (run_id, seq_num)\n"
                  "        with self._connect() as conn:\n            conn.execute(query, params)\n")
_TJ_LOAD = "        if self._crud is None:\n            self._entries = []\n            return\n\n        self._entries = await self._crud.load(self._run_id)\n"
_TJ_LOAD_ALIAS = "        crud = self._crud\n        if crud is not None:\n            self._entries = await crud.load(self._run_id)\n        else:\n            self._entries = []\n"
_TJ_INSERT = "        if self._crud is not None:\n            await self._crud.insert(self._run_id, seq_num, key)\n"

_RW_TRY = ("                try:\n                    await asyncio.wait_for(asyncio.shield(target_task), timeout=timeout)\n"
           "                except (asyncio.TimeoutError, TimeoutError):\n                    return WaitForNextTaskResult(None, started)\n")
_RW_ADV = "                journal.advance()\n"
_RW_RET = "                return WaitForNextTaskResult(target_task, started)\n"

_WF_DEF = "    async def wait_for_next_task(\n"
_RH_PARAMS = "journal: TaskJournal, task: asyncio.Task[Any], started: list[NamedTask], timeout: float | None"
_RH_WAIT = "            await asyncio.wait_for(asyncio.shield(task), timeout=timeout)\n"
_RH_EXC = "        except (asyncio.TimeoutError, TimeoutError):\n"
_RH_NONE = "            return WaitForNextTaskResult(None, started)\n"
_RH_EARLY = "        try:\n" + _RH_WAIT + _RH_EXC + _RH_NONE + "        journal.advance()\n        return WaitForNextTaskResult(task, started)\n"
_RH_CALL = "                return await self._await_expected(journal, target_task, started, timeout)\n"


def _replay_helper_twin(name: str, expect: str | None, body: str = _RH_EARLY, *, call: str = _RH_CALL, deco: str = "    @staticmethod\n", params: str = _RH_PARAMS,
                        extra: list[tuple[str, str]] | None = None) -> Twin:
    """The replay branch of wait_for_next_task (shielded timed wait / timeout → empty result / advance / deliver) moved into a private helper
    of the class that the function calls in tail position.  `body` = the helper's statements (its parameter for the task is `task`)."""
    helper = deco + f"    async def _await_expected({params}) -> WaitForNextTaskResult:\n" + body + "\n"
    return Twin(name, _RT, *multi(_RT, [(_RW_TRY + _RW_ADV + _RW_RET, call), (_WF_DEF, helper + _WF_DEF)] + (extra or [])), expect)


_EMPTY_SHARED = [("        if not tasks:\n            return WaitForNextTaskResult(None, started)\n", "        nothing = WaitForNextTaskResult(None, started)\n        if not tasks:\n            return nothing\n"),
                 ("        if not done:\n            return WaitForNextTaskResult(None, started)\n", "        if not done:\n            return nothing\n")]

TWINS = [
    # ---- protocol view (outcome sites behind a tail-called helper / result temporaries): R2, R7 and the floor see the same outcomes
    _replay_helper_twin("R2/R7 benign: replay wait extracted into a static helper that keeps its early return in the handler, called in tail position", None),
    _replay_helper_twin("R2/R7 benign: replay wait extracted into a plain method, try/except/else with tail returns (folded by the generic inliner into one result temporary)", None,
                        "        try:\n" + _RH_WAIT + _RH_EXC + _RH_NONE + "        else:\n            journal.advance()\n            return WaitForNextTaskResult(task, started)\n",
                        deco="", params="self, " + _RH_PARAMS),
    _replay_helper_twin("R2/R7 benign: helper result bound to a local and returned on the next line, keyword arguments", None,
                        call="                outcome = await self._await_expected(journal=journal, task=target_task, started=started, timeout=timeout)\n                return outcome\n"),
    _replay_helper_twin("R2/R7 benign: the helper builds its result in a local on every branch and returns it once", None,
                        "        try:\n" + _RH_WAIT + _RH_EXC + "            outcome = WaitForNextTaskResult(None, started)\n        else:\n            journal.advance()\n"
                        "            outcome = WaitForNextTaskResult(task, started)\n        return outcome\n"),
    Twin("R2/R7 benign: one empty result record bound to a local and returned from the three places that deliver nothing", _RT,
         *multi(_RT, _EMPTY_SHARED + [(_RW_TRY, _RW_TRY.replace("return WaitForNextTaskResult(None, started)", "return nothing"))]), None),
    _replay_helper_twin("R7 extracted helper moves the cursor before its wait (timeout handled in the helper by an empty result)", "C27.R7",
                        "        journal.advance()\n        try:\n" + _RH_WAIT + _RH_EXC + _RH_NONE + "        return WaitForNextTaskResult(task, started)\n"),
    _replay_helper_twin("R2 extracted helper delivers the replayed task without advancing", "C27.R2",
                        "        try:\n" + _RH_WAIT + _RH_EXC + _RH_NONE + "        return WaitForNextTaskResult(task, started)\n"),
    _replay_helper_twin("R2 extracted helper advances on the timeout path", "C27.R2",
                        "        try:\n" + _RH_WAIT + _RH_EXC + "            journal.advance()\n" + _RH_NONE + "        journal.advance()\n        return WaitForNextTaskResult(task, started)\n"),
    _replay_helper_twin("R2 extracted helper is handed whichever task is first, not the one found by the expected key", "C27.R2",
                        call="                return await self._await_expected(journal, tasks[0], started, timeout)\n"),
    _replay_helper_twin("R2 extracted helper with a result temporary: the delivering branch forgets the cursor", "C27.R2",
                        "        try:\n" + _RH_WAIT + _RH_EXC + "            outcome = WaitForNextTaskResult(None, started)\n        else:\n"
                        "            outcome = WaitForNextTaskResult(task, started)\n        return outcome\n"),
    Twin("R7 shared empty result record: cursor advanced before the wait, the handler returns the shared record", _RT,
         *multi(_RT, _EMPTY_SHARED + [(_RW_TRY + _RW_ADV, _RW_ADV + _RW_TRY.replace("return WaitForNextTaskResult(None, started)", "return nothing"))]), "C27.R7"),
    # ---- R6 (range deletes start exactly one past the last consumed row; producer kind ↔ comparison; sibling agreement)
    Twin("R6 orphan purge made inclusive in both back ends (seed form)", _CRUD,
         *multi(_CRUD, [(_PG_OPS, _PG_OPS.replace("> $2", ">= $2")), (_SL_OPS, _SL_OPS.replace("> ?", ">= ?"))]), "C27.R6"),
    Twin("R6 orphan purge made inclusive in the SQLite back end only", _CRUD, _SL_OPS, _SL_OPS.replace("> ?", ">= ?"), "C27.R6"),
    Twin("R6 journal truncation made strict (postgres): stale row at the first free index survives", _CRUD, _PG_TR, _PG_TR.replace(">= $2", "> $2"), "C27.R6"),
    Twin("R6 journal truncation made strict, written with reversed operands (sqlite)", _CRUD, _SL_TR, _SL_TR.replace("seq_num >= ?", "? < seq_num"), "C27.R6"),
    Twin("R6 caller shifts the last-used bound by one", _TJ, _TJ_OPS, _TJ_OPS.replace("current_fid)", "current_fid + 1)"), "C27.R6"),
    Twin("R6 caller passes the last index instead of the length", _TJ, _TJ_TR, _TJ_TR.replace("len(self._entries))", "len(self._entries) - 1)"), "C27.R6"),
    Twin("R6 orphan purge deletes the consumed side", _CRUD, _PG_OPS, _PG_OPS.replace("> $2", "<= $2"), "C27.R6"),
    Twin("R6 benign: reversed operands", _CRUD, *multi(_CRUD, [(_PG_OPS, _PG_OPS.replace("function_id > $2", "$2 < function_id")), (_SL_OPS, _SL_OPS.replace("function_id > ?", "? < function_id"))]), None),
    Twin("R6 benign: NOT (col < bound) for >=", _CRUD, _SL_TR, _SL_TR.replace("seq_num >= ?", "NOT (seq_num < ?)"), None),
    Twin("R6 benign: >= bound + 1 for a last-used bound (both back ends)", _CRUD,
         *multi(_CRUD, [(_PG_OPS, _PG_OPS.replace("> $2", ">= $2 + 1")), (_SL_OPS, _SL_OPS.replace("> ?", ">= ? + 1"))]), None),
    Twin("R6 benign: first free index held in a local, keyword arguments", _TJ, _TJ_TR,
         "        first_free = len(self._entries)\n        await self._crud.truncate_from(run_id=self._run_id, seq_num=first_free)\n", None),
    Twin("R6 benign: context counter read through a renamed local", _RT, "        current_fid = ctx.function_id\n\n        await journal.purge_stale(current_fid)\n",
         "        last_fid: int = ctx.function_id\n        current_fid = last_fid\n\n        await journal.purge_stale(current_fid)\n", None),
    Twin("R6 benign: SQL text and qmark parameter tuple hoisted into locals (sqlite truncate)", _CRUD, _SL_TR_CALL, _SL_TR_HOISTED, None),
    Twin("R6 hoisted SQL text and parameter tuple, comparison made strict", _CRUD, _SL_TR_CALL, _SL_TR_HOISTED.replace("seq_num >= ?", "seq_num > ?"), "C27.R6"),
    Twin("R2 replay wait without shield", _RT, "                    await asyncio.wait_for(asyncio.shield(target_task), timeout=timeout)", "                    await asyncio.wait_for(target_task, timeout=timeout)", "C27.R2"),
    Twin("R2 benign: shield bound to a local first", _RT, "                    await asyncio.wait_for(asyncio.shield(target_task), timeout=timeout)", "                    guarded = asyncio.shield(target_task)\n                    await asyncio.wait_for(guarded, timeout=timeout)", None),

    # ---- R1
    Twin("R1 durable clock loses its step decorator", _RT, "@DBOS.step()\ndef _durable_time() -> float:", "def _durable_time() -> float:", "C27.R1"),
    Twin("R1 adapter reads the wall clock", _RT, "    async def get_now(self) -> float:\n        return _durable_time()\n", "    async def get_now(self) -> float:\n        return time.time()\n", "C27.R1"),
    Twin("R1 runner stamps worker failures itself", _CL, "exception=e, failed_at=await self.adapter.get_now()", "exception=e, failed_at=time.time()", "C27.R1"),
    Twin("R1 reducer jitters with the clock", _CL, "            failures = this_execution.attempts + 1\n", "            failures = this_execution.attempts + 1\n            _skew = time.time() % 1.0\n", "C27.R1"),
    Twin("R1 reducer imports and uses the global RNG", _CL, "            failures = this_execution.attempts + 1\n", "            import random\n\n            failures = this_execution.attempts + 1 + int(random.random() > 2)\n", "C27.R1"),
    Twin("R1 wakeup tie-break by the monotonic clock", _CL, "        seq = self._wakeup_sequence\n", "        seq = time.monotonic_ns()\n", "C27.R1"),
    Twin("R1 chain adapter stamps received ticks with datetime.now", _DBI, "        if isinstance(result, WaitResultTick):\n            self._runtime._cancel_deferred_release(self.run_id)\n",
         "        if isinstance(result, WaitResultTick):\n            result.tick.__dict__[\"received_at\"] = datetime.now(timezone.utc).timestamp()\n            self._runtime._cancel_deferred_release(self.run_id)\n", "C27.R1"),
    Twin("R1 run id not handed to the reducer", _CL, "                tick, self.state, start, run_id=self.adapter.run_id\n", "                tick, self.state, start\n", "C27.R1"),
    Twin("R1 seed not handed to the policy", _CL, "                    elapsed_time, failures, result.exception, **_seed_kwarg\n", "                    elapsed_time, failures, result.exception\n", "C27.R1"),
    Twin("R1 benign: clock in the replay helper only", _CL, "    state, _ = rewind_in_progress(state, time.time())\n    exit_command", "    _t = time.time()\n    state, _ = rewind_in_progress(state, _t)\n    exit_command", None),
    Twin("R1 benign: seeded RNG in the reducer", _CL, "            failures = this_execution.attempts + 1\n", "            import random\n\n            failures = this_execution.attempts + 1\n            _rng = random.Random(failures)\n", None),
    Twin("R1 benign: durable clock via a local", _RT, "    async def get_now(self) -> float:\n        return _durable_time()\n", "    async def get_now(self) -> float:\n        now = _durable_time()\n        return now\n", None),
    Twin("R1 benign: explicit seed keyword", _CL, "                    elapsed_time, failures, result.exception, **_seed_kwarg\n", "                    elapsed_time, failures, result.exception, seed=jitter_seed\n", None),
    # ---- R2
    Twin("R2 replay does not advance", _RT, "                journal.advance()\n                return WaitForNextTaskResult(target_task, started)\n", "                return WaitForNextTaskResult(target_task, started)\n", "C27.R2"),
    Twin("R2 replay advances on timeout", _RT, "                except (asyncio.TimeoutError, TimeoutError):\n                    return WaitForNextTaskResult(None, started)\n", "                except (asyncio.TimeoutError, TimeoutError):\n                    journal.advance()\n                    return WaitForNextTaskResult(None, started)\n", "C27.R2"),
    Twin("R2 fresh completion not recorded", _RT, "        key = get_key(all_named, completed)\n        await journal.record(key)\n", "        key = get_key(all_named, completed)\n", "C27.R2"),
    Twin("R2 fresh records before knowing it completed", _RT, "        if not done:\n            return WaitForNextTaskResult(None, started)\n\n        completed = done.pop()\n        key = get_key(all_named, completed)\n        await journal.record(key)\n",
         "        completed = next(iter(done), None)\n        key = get_key(all_named, completed) if completed else \"\"\n        await journal.record(key)\n        if not done:\n            return WaitForNextTaskResult(None, started)\n", "C27.R2"),
    Twin("R2 records a different task than it returns", _RT, "        key = get_key(all_named, completed)\n", "        key = get_key(all_named, next(iter(tasks)))\n", "C27.R2"),
    Twin("R2 replay returns whichever finished first", _RT, "            target_task = find_by_key(all_named, expected_key)\n", "            target_task = next(iter(tasks), None)\n", "C27.R2"),
    Twin("R2 lookup before load", _RT, "        await journal.load()\n        expected_key = journal.next_expected_key()\n", "        expected_key = journal.next_expected_key()\n        await journal.load()\n", "C27.R2"),
    Twin("R2 no yield between starts", _RT, "            started.append(p.start(asyncio.create_task(p.coro)))\n            await asyncio.sleep(0)\n", "            started.append(p.start(asyncio.create_task(p.coro)))\n", "C27.R2"),
    Twin("R2 yield only after the last start", _RT, "            started.append(p.start(asyncio.create_task(p.coro)))\n            await asyncio.sleep(0)\n", "            started.append(p.start(asyncio.create_task(p.coro)))\n        await asyncio.sleep(0)\n", "C27.R2"),
    _wf_helper_twin("R2 benign: start loop in a static async helper awaited in place", None),
    _wf_helper_twin("R2 benign: start loop in a plain method awaited in place", None, deco="", params="self, pending: list[PendingStart]"),
    _wf_helper_twin("R2 benign: start loop in a static helper reached through the class name, keyword argument", None, call="await InternalDBOSAdapter._start_pending(pending=pending)"),
    _wf_helper_twin("R2 helper: no yield between starts", "C27.R2", body="            task = asyncio.create_task(pending_start.coro)\n            started.append(pending_start.start(task))\n"),
    _wf_helper_twin("R2 helper: filter in the start loop", "C27.R2",
                    body="            if pending_start.coro is None:\n                continue\n            task = asyncio.create_task(pending_start.coro)\n            started.append(pending_start.start(task))\n            await asyncio.sleep(0)\n"),
    _wf_helper_twin("R2 helper: returns before its loop", "C27.R2", pre="        if len(pending) > 1:\n            return started\n"),
    _wf_helper_twin("R2 helper: spawned instead of awaited in place", "C27.R2", call="await asyncio.ensure_future(self._start_pending(pending))"),
    _wf_helper_twin("R2 helper: stops after the first start", "C27.R2",
                    body="            task = asyncio.create_task(pending_start.coro)\n            started.append(pending_start.start(task))\n            await asyncio.sleep(0)\n            return started\n"),
    Twin("R2 double advance", _RT, "                journal.advance()\n                return WaitForNextTaskResult(target_task, started)\n", "                journal.advance()\n                if target_task.done():\n                    journal.advance()\n                return WaitForNextTaskResult(target_task, started)\n", "C27.R2"),
    Twin("R2 benign: journal bound under another name", _RT, "        journal = self._get_or_create_journal()\n        await journal.load()\n        expected_key = journal.next_expected_key()\n\n        if expected_key is None and not self._orphan_purge_done:\n            await self._purge_orphaned_operations(journal)\n",
         "        task_journal = journal = self._get_or_create_journal()\n        await journal.load()\n        expected_key = journal.next_expected_key()\n\n        if expected_key is None and not self._orphan_purge_done:\n            await self._purge_orphaned_operations(task_journal)\n", None),
    Twin("R2 benign: record with inline key", _RT, "        key = get_key(all_named, completed)\n        await journal.record(key)\n", "        await journal.record(get_key(all_named, completed))\n", None),
    Twin("R2 benign: advance in try/else", _RT, "                except (asyncio.TimeoutError, TimeoutError):\n                    return WaitForNextTaskResult(None, started)\n                journal.advance()\n                return WaitForNextTaskResult(target_task, started)\n",
         "                except (asyncio.TimeoutError, TimeoutError):\n                    return WaitForNextTaskResult(None, started)\n                else:\n                    journal.advance()\n                    return WaitForNextTaskResult(target_task, started)\n", None),
    # ---- R7 (the journal moves only on the path that delivers the task; caught-failure edges followed)
    Twin("R7 replay cursor advanced before the wait on the expected task (seed form)", _RT, _RW_TRY + _RW_ADV, _RW_ADV + _RW_TRY, "C27.R7"),
    Twin("R7 cursor advanced as the first statement of the try body, before the wait", _RT, _RW_TRY + _RW_ADV,
         _RW_TRY.replace("                try:\n", "                try:\n                    journal.advance()\n"), "C27.R7"),
    Twin("R7 cursor advanced before the wait, a zero timeout is swallowed: falls through to the fresh record (advance + record for one completion)", _RT, _RW_TRY + _RW_ADV + _RW_RET,
         _RW_ADV + _RW_TRY.replace("                    return WaitForNextTaskResult(None, started)\n", "                    if timeout:\n                        return WaitForNextTaskResult(None, started)\n                else:\n    " + _RW_RET), "C27.R7"),
    Twin("R7 cursor advanced after the wait but a further await follows inside the try (cancellation handled by returning nothing)", _RT, _RW_TRY + _RW_ADV,
         _RW_TRY.replace("timeout=timeout)\n", "timeout=timeout)\n                    journal.advance()\n                    await asyncio.sleep(0)\n")
         .replace("except (asyncio.TimeoutError, TimeoutError):", "except (asyncio.TimeoutError, TimeoutError, asyncio.CancelledError):"), "C27.R7"),
    Twin("R7 benign: cursor step is the last statement of the try body, after the wait", _RT, _RW_TRY + _RW_ADV,
         _RW_TRY.replace("timeout=timeout)\n", "timeout=timeout)\n                    journal.advance()\n"), None),
    Twin("R7 benign: wait, cursor step and delivery all inside the try (the result record is built from locals)", _RT, _RW_TRY + _RW_ADV + _RW_RET,
         _RW_TRY.replace("timeout=timeout)\n", "timeout=timeout)\n                    journal.advance()\n    " + _RW_RET), None),
    Twin("R7 benign: timeout handler sets a flag, empty return after the try, cursor step on the other branch", _RT, _RW_TRY + _RW_ADV,
         "                timed_out = False\n" + _RW_TRY.replace("                    return WaitForNextTaskResult(None, started)\n", "                    timed_out = True\n")
         + "                if timed_out:\n                    return WaitForNextTaskResult(None, started)\n" + _RW_ADV, None),
    # ---- R3
    Twin("R3 only retryable steps wrapped", _RT, "            for step_name, step in as_step_worker_functions(workflow).items()\n        }", "            for step_name, step in as_step_worker_functions(workflow).items()\n            if not step_name.startswith(\"_\")\n        }", "C27.R3"),
    Twin("R3 registration name depends on the object identity", _RT, "        @DBOS.workflow(name=f\"{name}.control_loop\")", "        @DBOS.workflow(name=f\"{name}.{id(workflow)}.control_loop\")", "C27.R3"),
    Twin("R3 all steps share one name", _RT, "            step_name: DBOS.step(name=f\"{name}.{step_name}\")(step)", "            step_name: DBOS.step(name=f\"{name}.step\")(step)", "C27.R3"),
    Twin("R3 unwrapped steps handed out", _RT, "            workflow=workflow, workflow_run_fn=_dbos_control_loop, steps=wrapped_steps\n", "            workflow=workflow, workflow_run_fn=_dbos_control_loop, steps=as_step_worker_functions(workflow)\n", "C27.R3"),
    Twin("R3 class name instead of workflow name", _RT, "        name = workflow.workflow_name\n", "        name = type(workflow).__qualname__\n", "C27.R3"),
    Twin("R3 benign: name inlined", _RT, "        @DBOS.workflow(name=f\"{name}.control_loop\")", "        @DBOS.workflow(name=f\"{workflow.workflow_name}.control_loop\")", None),
    Twin("R3 benign: string concatenation", _RT, "            step_name: DBOS.step(name=f\"{name}.{step_name}\")(step)", "            step_name: DBOS.step(name=name + \".\" + step_name)(step)", None),
    # ---- R4
    Twin("R4 seq_num taken after the append", _TJ, "        seq_num = len(self._entries)\n        self._entries.append(key)\n", "        self._entries.append(key)\n        seq_num = len(self._entries)\n", "C27.R4"),
    Twin("R4 record does not move the replay index", _TJ, "        self._entries.append(key)\n        self._replay_index += 1\n", "        self._entries.append(key)\n", "C27.R4"),
    Twin("R4 is_replaying off by one", _TJ, "        return self._replay_index < len(self._entries)\n", "        return self._replay_index <= len(self._entries)\n", "C27.R4"),
    Twin("R4 expected key one ahead", _TJ, "        return self._entries[self._replay_index]\n", "        return self._entries[min(self._replay_index + 1, len(self._entries) - 1)]\n", "C27.R4"),
    Twin("R4 seq_num from the replay index", _TJ, "        seq_num = len(self._entries)\n", "        seq_num = self._replay_index\n", "C27.R4"),
    Twin("R4 benign: reversed comparison", _TJ, "        return self._replay_index < len(self._entries)\n", "        return len(self._entries) > self._replay_index\n", None),
    Twin("R4 benign: seq from index of the appended entry", _TJ, "        seq_num = len(self._entries)\n        self._entries.append(key)\n", "        self._entries.append(key)\n        seq_num = len(self._entries) - 1\n", None),
    Twin("R4 benign: load through a local alias of the CRUD, if/else instead of early return", _TJ, _TJ_LOAD, _TJ_LOAD_ALIAS, None),
    Twin("R4 benign: persist guard inverted into an early return, insert through an alias", _TJ, _TJ_INSERT,
         "        store = self._crud\n        if store is None:\n            return\n        await store.insert(self._run_id, seq_num, key)\n", None),
    Twin("R4 insert through an alias with the sequence number of the next row", _TJ, _TJ_INSERT,
         "        crud = self._crud\n        if crud is None:\n            return\n        await crud.insert(self._run_id, seq_num + 1, key)\n", "C27.R4"),
    Twin("R4 load through an alias drops the first persisted row", _TJ, _TJ_LOAD, _TJ_LOAD_ALIAS.replace("await crud.load(self._run_id)", "(await crud.load(self._run_id))[1:]"), "C27.R4"),
    # ---- R5
    Twin("R5 idle-release adapter answers wait_receive itself", _DBI, "        result = await super().wait_receive(timeout_seconds)\n", "        result = WaitResultTimeout() if timeout_seconds == 0 else await super().wait_receive(timeout_seconds)\n", "C27.R5"),
    Twin("R5 decorator swallows the durable clock", _DBI, "    @override\n    async def write_to_event_stream(self, event: Event) -> None:\n        await super().write_to_event_stream(event)\n        if isinstance(event, WorkflowIdleEvent):\n            self._runtime._schedule_deferred_release(self.run_id)\n",
         "    @override\n    async def write_to_event_stream(self, event: Event) -> None:\n        await super().write_to_event_stream(event)\n        if isinstance(event, WorkflowIdleEvent):\n            self._runtime._schedule_deferred_release(self.run_id)\n\n    @override\n    async def get_now(self) -> float:\n        return asyncio.get_running_loop().time()\n", "C27.R5"),
    Twin("R5 DBOS adapter drops is_replaying", _RT, "    def is_replaying(self) -> bool:\n        if (\n            self._journal is None", "    def _is_replaying_unused(self) -> bool:\n        if (\n            self._journal is None", "C27.R5"),
    Twin("R5 benign: forwarding through a local", _DBI, "        result = await super().wait_receive(timeout_seconds)\n", "        inner = super()\n        result = await inner.wait_receive(timeout_seconds)\n", None),
]
