"""Keyset pagination of the tick stores, decided by finite evaluation of the store's own `stream_ticks` source.

Every durable store streams a run's ticks page by page (`WHERE sequence > cursor ORDER BY sequence LIMIT n`, or the
equivalent search call).  Whether no stored row is lost or repeated at a page boundary depends on three places that each
look fine alone (the limit asked for, the rows iterated, the row the cursor is taken from), so it is decided on the whole
function: the AST of `stream_ticks` is evaluated by `absint.Interp` against a *model table* holding sequences 1..N, for N
around every multiple of the page size, and what the generator yields must be exactly 1..N in order.  Nothing of /repo is
imported or run; the database driver is replaced by a twenty-line interpreter of the one query shape the stores use
(`… WHERE run_id = ? [AND sequence >|>= ?] ORDER BY sequence [DESC] LIMIT ?`) or of the search call's filters.  A query or
call shape the model does not know is reported as analysis-broken (exit 2), never guessed.
"""
from __future__ import annotations

import ast
import re

from ..absint import Interp, Raised, Record, Unsupported
from ..index import AnchorError

STORES = [
    ("sqlite", "llama_agents.server._store.sqlite.sqlite_workflow_store", "SqliteWorkflowStore"),
    ("postgres", "llama_agents.server._store.postgres_workflow_store", "PostgresWorkflowStore"),
    ("agent-data", "llama_agents.server._store.agent_data_store", "AgentDataStore"),
]


def _module_ints(mod) -> dict:
    """Module-level integer constants (the page size), evaluated from their own definitions."""
    env: dict = {}
    for st in mod.tree.body:
        tgt = st.targets[0] if isinstance(st, ast.Assign) and len(st.targets) == 1 else (st.target if isinstance(st, ast.AnnAssign) else None)
        val = getattr(st, "value", None)
        if isinstance(tgt, ast.Name) and val is not None:
            try:
                v = Interp(env).eval(val, dict(env))
            except (Unsupported, Raised, Exception):
                continue
            if isinstance(v, (int, str)) and not isinstance(v, bool):
                env[tgt.id] = v
    return env


def _run_sql(sql: str, params: list, table: list[int], as_dict: bool) -> list:
    q = " ".join(str(sql).split())
    m = re.fullmatch(r"SELECT run_id, sequence, timestamp, tick_data FROM \S+ WHERE run_id = (\?|\$\d+)(?: AND sequence (>=|>) (\?|\$\d+))? ORDER BY sequence( ASC| DESC)?(?: LIMIT (\?|\$\d+))?;?", q, re.I)
    if not m:
        raise Unsupported(f"query shape not modelled: {q[:120]}")
    params = list(params)
    want = 1 + (1 if m.group(2) else 0) + (1 if m.group(5) else 0)
    if len(params) != want:
        raise Raised("ProgrammingError", f"{len(params)} parameters for {want} placeholders")
    rows = list(table)
    i = 1
    if m.group(2):
        c = params[i]
        i += 1
        rows = [r for r in rows if (r > c if m.group(2) == ">" else r >= c)]
    if (m.group(4) or "").strip().upper() == "DESC":
        rows = rows[::-1]
    if m.group(5):
        lim = params[i]
        if not isinstance(lim, int):
            raise Unsupported("LIMIT parameter is not an integer")
        rows = rows[: max(lim, 0)] if lim >= 0 else rows
    if as_dict:
        return [{"run_id": "r", "sequence": r, "timestamp": "t", "tick_data": "{}"} for r in rows]
    return [("r", r, "t", "{}") for r in rows]


def _search(table: list[int], filters: dict, page_size=None, order_by=None, **kw) -> list:
    if kw:
        raise Unsupported(f"search arguments not modelled: {sorted(kw)}")
    rows = list(table)
    for fld, cond in dict(filters).items():
        if fld == "run_id":
            continue
        if fld != "sequence" or not isinstance(cond, dict):
            raise Unsupported(f"filter not modelled: {fld}")
        for op, v in cond.items():
            if op == "gt":
                rows = [r for r in rows if r > v]
            elif op == "gte":
                rows = [r for r in rows if r >= v]
            else:
                raise Unsupported(f"filter operator not modelled: {op}")
    if order_by not in ("sequence", None):
        if order_by in ("-sequence", "sequence desc"):
            rows = rows[::-1]
        else:
            raise Unsupported(f"order_by not modelled: {order_by}")
    if order_by is None:
        raise Raised("Unordered", "search without order_by returns rows in no particular order")
    if page_size is not None:
        rows = rows[:page_size]
    return [{"data": {"run_id": "r", "sequence": r, "timestamp": "t", "tick_data": {}}} for r in rows]


def _self_for(kind: str, cls: str, table: list[int], queries: list) -> Record:
    me = Record(cls)
    if kind == "sqlite":
        def connect():
            conn = Record("Conn")
            def cursor():
                cur = Record("Cursor")
                state: dict = {}
                def execute(sql, params=()):
                    queries.append(1)
                    state["rows"] = _run_sql(sql, list(params), table, as_dict=False)
                    return cur
                def fetchall():
                    return list(state.get("rows", []))
                def fetchmany(n=1):
                    out = state.get("rows", [])[:n]
                    state["rows"] = state.get("rows", [])[n:]
                    return out
                cur.__dict__.update(execute=execute, fetchall=fetchall, fetchmany=fetchmany)
                cur.__dict__["__iter__"] = fetchall
                return cur
            def execute(sql, params=()):
                return cursor().__dict__["execute"](sql, params)
            conn.__dict__.update(cursor=cursor, execute=execute)
            return conn
        me.__dict__["_connect"] = connect
    elif kind == "postgres":
        def ensure_pool():
            pool = Record("Pool")
            def acquire():
                conn = Record("PgConn")
                def fetch(sql, *params):
                    queries.append(1)
                    return _run_sql(sql, list(params), table, as_dict=True)
                conn.__dict__["fetch"] = fetch
                return conn
            def fetch(sql, *params):
                queries.append(1)
                return _run_sql(sql, list(params), table, as_dict=True)
            pool.__dict__.update(acquire=acquire, fetch=fetch)
            return pool
        me.__dict__["_ensure_pool"] = ensure_pool
        me.__dict__["_ticks_ref"] = "ticks"
    else:
        client = Record("Client")
        def search(collection, filters, **kw):
            queries.append(1)
            return _search(table, filters, **kw)
        client.__dict__["search"] = search
        me.__dict__.update(_client=client, _ticks_collection="ticks", _regroup_ticks=lambda run_id: None)
    return me


def evaluate_stream_ticks(repo) -> list[dict]:
    """One entry per paginating store: {label, module, fn, bad (first counter-example or ""), evaluated, page_size}."""
    out = []
    for kind, modname, cls in STORES:
        try:
            mod = repo.module(modname)
        except (AnchorError, KeyError):
            continue
        fn = mod.functions.get(f"{cls}.stream_ticks")
        if fn is None:
            continue
        consts = _module_ints(mod)
        sizes = sorted({v for k, v in consts.items() if isinstance(v, int) and "PAGE" in k.upper()})
        page = sizes[0] if sizes else 100
        ns = sorted({0, 1, 2, page - 1, page, page + 1, 2 * page - 1, 2 * page, 2 * page + 1, 3 * page, 3 * page + 2})
        bad, n_eval = "", 0
        hooks = {
            "StoredTick": lambda **kw: Record("StoredTick", **kw),
            "StoredTick.model_validate": lambda d: Record("StoredTick", **dict(d)),
            "datetime.fromisoformat": lambda x: x,
            "json.loads": lambda x: {},
        }
        for n in ns:
            if n < 0:
                continue
            table = list(range(1, n + 1))
            queries: list = []
            me = _self_for(kind, cls, table, queries)
            n_eval += 1
            try:
                it = Interp({**consts}, hooks, max_steps=400_000)
                got = [t.__dict__.get("sequence") if isinstance(t, Record) else t for t in it.call_generator(fn, {"self": me, "run_id": "r"})]
            except Raised as r:
                bad = bad or f"with {n} stored ticks (page size {page}) the stream raises {r.name}: {r.args[1] if len(r.args) > 1 else ''}"
                continue
            except Unsupported as e:
                if "step budget" in str(e):
                    bad = bad or f"with {n} stored ticks (page size {page}) the stream does not terminate"
                    continue
                raise AnchorError(f"cannot evaluate {cls}.stream_ticks on the model table: {e}")
            except (TypeError, AttributeError, KeyError, IndexError, ValueError) as e:
                raise AnchorError(f"cannot evaluate {cls}.stream_ticks on the model table ({type(e).__name__}: {e}): a driver call shape the model does not know")
            if got != table:
                missing = [x for x in table if x not in got]
                dup = sorted({x for x in got if got.count(x) > 1})
                what = (f"loses sequence(s) {missing[:4]}" if missing else f"repeats sequence(s) {dup[:4]}" if dup else f"yields them out of order ({got[:6]}…)")
                bad = bad or f"with {n} stored ticks (page size {page}) the stream {what}: the replay at resume is not the recorded history"
        out.append({"label": kind, "module": mod, "fn": fn, "bad": bad, "evaluated": n_eval, "page_size": page})
    return out
