"""C35 — step lifecycle telemetry on the stream is balanced and ordered.

Decided: (R1) pairing with state: every start of an invocation (append to in_progress) is
accompanied, in the same command list and on the same path, by StepStateChanged(RUNNING) for
the same step and worker id; every removal from in_progress by StepStateChanged(NOT_RUNNING) for
the removed worker id; every queueing on the no-capacity branch by PREPARING; a queued event reaches
RUNNING only through the same helper when it is drained (so PREPARING precedes RUNNING for it);
(R2) NOT_RUNNING is placed before the tick's output commands; the collect re-run path publishes
neither; (R3) an InputRequiredEvent returned by a step produces exactly one publication.
Also (R1) every command a reducer returns (per tick and from rewind_in_progress at resume) is executed through process_command:
no iteration over the command list can skip it (state changes are commands).
Not decided: interleaving of publications of different ticks (sequential by construction, C11).
"""

from __future__ import annotations

import ast

from ..astx import call_name, enclosing_stmt, expand, facts_at, has_fact, kwarg, last
from ..cfg import CFG, exprs_in_node
from ..index import AnchorError, parent
from ..selftest import Twin
from ._engine import CL, CL_REL, command_constructions, list_position, param

EXPLANATION = __doc__.split("\n\n", 1)[1]
TECHNIQUE = 'static analysis: same-path pairing (mutual CFG dominance) of state changes with StepStateChanged publications, command order, once-per-result path counting'
TRUSTED = ["CPython ast"]


def _state_changes(fn: ast.AST) -> list[tuple[str, ast.Call, ast.Call]]:
    """(STATE, publish-command call, StepStateChanged call) for each publication in fn."""
    out = []
    for c in command_constructions(fn, "CommandPublishEvent"):
        ev = kwarg(c, "event", 0)
        if isinstance(ev, ast.Call) and last(call_name(ev)) == "StepStateChanged" and list_position(c) is not None:
            st = kwarg(ev, "step_state")
            out.append((ast.unparse(st).split(".")[-1] if st is not None else "?", c, ev))
    return out


def run(chk) -> None:
    repo = chk.repo
    from ._engine import engine_view
    chk.extra["helpers_inlined"] = engine_view(repo)
    # state changes are commands: the runner must execute every command of every reducer result, also those of the rewind at resume
    from ._engine import commands_fully_processed
    commands_fully_processed(chk, "C35.R1")
    m, add = repo.func(f"{CL}:_add_or_enqueue_event")
    cfg = CFG(add)
    stp = param(add, 2)
    sname = param(add, 1)
    sc = _state_changes(add)
    starts = [c for c in ast.walk(add) if isinstance(c, ast.Call) and isinstance(c.func, ast.Attribute) and c.func.attr == "append" and ast.unparse(c.func.value) == f"{stp}.in_progress"]
    queues = [c for c in ast.walk(add) if isinstance(c, ast.Call) and isinstance(c.func, ast.Attribute) and c.func.attr in ("append", "insert") and ast.unparse(c.func.value) == f"{stp}.queue"]
    chk.floor("C35.R1", "invocation starts", len(starts), 1)
    chk.floor("C35.R1", "queueing sites", len(queues), 1)

    def same_path(a_stmt: ast.AST, b_stmt: ast.AST) -> bool:
        """b executes on every normal path through a and vice versa (mutual dominance / post-dominance in the CFG)."""
        an, bn = cfg.nodes_of(a_stmt), cfg.nodes_of(b_stmt)
        if not an or not bn:
            return False
        a_needs_b = all(x not in cfg.reach([cfg.entry], blocked=bn) for x in an) or not cfg.must_pass(an, [cfg.exit], bn, labels_excluded=("exc", "cancel"), include_starts=False) == [cfg.exit]
        fwd = not cfg.must_pass(an, [cfg.exit], bn, labels_excluded=("exc", "cancel"), include_starts=False) or all(x not in cfg.reach([cfg.entry], blocked=bn) for x in an)
        bwd = not cfg.must_pass(bn, [cfg.exit], an, labels_excluded=("exc", "cancel"), include_starts=False) or all(x not in cfg.reach([cfg.entry], blocked=an) for x in bn)
        return fwd and bwd

    for s in starts:
        ips = s.args[0] if s.args and isinstance(s.args[0], ast.Call) else None
        wid = kwarg(ips, "worker_id") if ips is not None else None
        run_pubs = [(c, ev) for st, c, ev in sc if st == "RUNNING"]
        ok = False
        reason = "no StepStateChanged(RUNNING) on the path that starts the invocation"
        for c, ev in run_pubs:
            if same_path(enclosing_stmt(s), enclosing_stmt(c)):
                w = kwarg(ev, "worker_id")
                nm = kwarg(ev, "name")
                okw = w is not None and wid is not None and ast.unparse(wid) in ast.unparse(w)
                okn = nm is not None and ast.unparse(nm) == sname
                ok = okw and okn
                reason = f"RUNNING names worker `{ast.unparse(w) if w is not None else None}` / step `{ast.unparse(nm) if nm is not None else None}`, the started entry has worker_id `{ast.unparse(wid) if wid is not None else None}`"
        chk.ob("C35.R1", "starting an invocation publishes RUNNING for the same step and worker id, on exactly the paths that start it", ok, m=m, node=s, fn=add, instance="pair:start-RUNNING", reason=reason)
    for q in queues:
        prep = [(c, ev) for st, c, ev in sc if st == "PREPARING"]
        ok = any(same_path(enclosing_stmt(q), enclosing_stmt(c)) and kwarg(ev, "name") is not None and ast.unparse(kwarg(ev, "name")) == sname for c, ev in prep)
        chk.ob("C35.R1", "queueing an event for lack of capacity publishes PREPARING for that step", ok, m=m, node=q, fn=add, instance="pair:queue-PREPARING", reason="no StepStateChanged(PREPARING) on the queueing path")
    for st, c, ev in sc:
        if st == "RUNNING":
            ok = any(same_path(enclosing_stmt(s), enclosing_stmt(c)) for s in starts)
            chk.ob("C35.R1", "RUNNING is published only when an invocation actually starts", ok, m=m, node=c, fn=add, instance="pair:RUNNING-only-on-start", reason="RUNNING published on a path that does not append to in_progress")
    # queued events become RUNNING only through this helper (drain calls it)
    for ref in (f"{CL}:_process_step_result_tick", f"{CL}:rewind_in_progress"):
        mm, fn = repo.func(ref)
        for w in ast.walk(fn):
            if isinstance(w, ast.While) and any(isinstance(c, ast.Call) and isinstance(c.func, ast.Attribute) and c.func.attr == "pop" and ast.unparse(c.func.value).endswith(".queue") for c in ast.walk(w)):
                ok = any(isinstance(c, ast.Call) and last(call_name(c)) == "_add_or_enqueue_event" for c in ast.walk(w))
                ext = any(isinstance(c, ast.Call) and isinstance(c.func, ast.Attribute) and c.func.attr == "extend" and isinstance(expand(c.args[0], c, depth=1), ast.Call) and last(call_name(expand(c.args[0], c, depth=1))) == "_add_or_enqueue_event" for c in ast.walk(w))
                chk.ob("C35.R1", "a drained (previously PREPARING) event is started through _add_or_enqueue_event and its commands are kept", ok and ext, m=mm, node=w, fn=fn, instance=f"drain-publishes:{fn.name}", reason="the drain loop starts work without the helper's RUNNING publication (or drops its commands)")

    # worker ids of running invocations are distinct (otherwise RUNNING/NOT_RUNNING of two live invocations interleave on one worker)
    from .c01 import check_worker_id
    check_worker_id(chk, "C35.R1")

    # ---------------------------------------------------------------- removal <-> NOT_RUNNING, order
    ms, sr = repo.func(f"{CL}:_process_step_result_tick")
    cfgs = CFG(sr)
    tick = param(sr, 0)
    scs = _state_changes(sr)
    nr = [(c, ev) for st, c, ev in scs if st == "NOT_RUNNING"]
    rem = [c for c in ast.walk(sr) if isinstance(c, ast.Call) and isinstance(c.func, ast.Attribute) and c.func.attr in ("remove", "pop") and ast.unparse(c.func.value).endswith(".in_progress")]
    chk.floor("C35.R1", "NOT_RUNNING publications", len(nr), 1)
    chk.floor("C35.R1", "in_progress removals in the result reducer", len(rem), 1)
    for r in rem:
        ok, reason = False, "no StepStateChanged(NOT_RUNNING) on the removal path"
        for c, ev in nr:
            an, bn = cfgs.nodes_of(enclosing_stmt(r)), cfgs.nodes_of(enclosing_stmt(c))
            both = an and bn and not cfgs.must_pass(bn, [cfgs.exit], an, labels_excluded=("exc", "cancel"), include_starts=False) and all(x not in cfgs.reach([cfgs.entry], blocked=bn) for x in an)
            if both:
                w, nm = kwarg(ev, "worker_id"), kwarg(ev, "name")
                removed = expand(r.args[0], r, depth=1) if r.args else None
                okw = w is not None and f"{tick}.worker_id" in ast.unparse(w) and removed is not None and f"{tick}.worker_id" in ast.unparse(removed)
                okn = nm is not None and ast.unparse(nm) == f"{tick}.step_name"
                ok = okw and okn
                reason = f"NOT_RUNNING names worker `{ast.unparse(w) if w is not None else None}`, the removed entry is `{ast.unparse(removed)[:60] if removed is not None else None}`"
        chk.ob("C35.R1", "removing an invocation publishes NOT_RUNNING for the same step and worker id, on exactly the paths that remove it", ok, m=ms, node=r, fn=sr, instance="pair:remove-NOT_RUNNING", reason=reason)
    for c, ev in nr:
        pos = list_position(c)
        chk.ob("C35.R2", "NOT_RUNNING is put in front of the tick's other commands (before the step's outputs are queued/published)", pos is not None and pos[0] == "insert0", m=ms, node=c, fn=sr, instance="order:NOT_RUNNING-first",
               reason="NOT_RUNNING is appended after the output commands")
        for n in cfgs.nodes_of(enclosing_stmt(c)):
            f = facts_at(cfgs, n, expand_locals=False)
            chk.ob("C35.R2", "NOT_RUNNING is published only when the invocation really leaves its slot (not on the collect re-run path)", ("step_no_longer_in_progress", True) in f, m=ms, node=c, fn=sr, instance="order:NOT_RUNNING-only-when-leaving", reason=f"guards {sorted(f)[:5]}")
    # collect re-run path: no RUNNING publication for the re-issued worker
    reruns = [c for c in ast.walk(sr) if isinstance(c, ast.Call) and last(call_name(c)) == "CommandRunWorker"]
    for c in reruns:
        blk = enclosing_stmt(c)
        sibs = getattr(parent(blk), "body", [])
        pub = [x for s in sibs for x in ast.walk(s) if isinstance(x, ast.Call) and last(call_name(x)) == "StepStateChanged"]
        chk.ob("C35.R2", "the collect re-run keeps its slot silently (no second RUNNING for the same invocation)", not pub, m=ms, node=c, fn=sr, instance="rerun:silent", reason="a StepStateChanged is published on the re-run path: RUNNING would appear twice for one NOT_RUNNING")

    # ---------------------------------------------------------------- R3 InputRequiredEvent published once
    ire_tests = [n for n in cfgs.nodes if n.kind == "test" and "InputRequiredEvent" in ast.unparse(n.ast.test) and "isinstance" in ast.unparse(n.ast.test)]
    chk.floor("C35.R3", "InputRequiredEvent tests in the result reducer", len(ire_tests), 1)
    for t in ire_tests:
        subj = t.ast.test.args[0] if isinstance(t.ast.test, ast.Call) else None
        sv = ast.unparse(subj) if subj is not None else ""
        pubs = [n for n in cfgs.nodes if n.ast is not None and any(isinstance(x, ast.Call) and last(call_name(x)) == "CommandPublishEvent" and kwarg(x, "event", 0) is not None and ast.unparse(kwarg(x, "event", 0)) == sv for x in exprs_in_node(n))]
        on_t = [p for p in pubs if (t, "T") in cfgs.guards(p)]
        loop_heads = [n for n in cfgs.nodes if n.kind == "iter" and ast.unparse(n.ast.iter).endswith(".result")]
        starts_t = [s for lab, s in cfgs.succ[t] if lab == "T"]
        missing = cfgs.must_pass(starts_t, loop_heads + [cfgs.exit], on_t, labels_excluded=("exc", "cancel"))
        chk.ob("C35.R3", "an InputRequiredEvent returned by a step is published", not missing and bool(on_t), m=ms, node=t.ast, fn=sr, instance="hitl:published", reason="a path handles an InputRequiredEvent result without publishing it")
        twice = False
        for p in on_t:
            r = cfgs.reach([p], blocked=loop_heads, labels_excluded=("exc", "cancel"), include_starts=False)
            if any(q in r for q in pubs):
                twice = True
        # the StopEvent branch publishes result.result too, but is exclusive with this branch
        chk.ob("C35.R3", "… exactly once per result", not twice and len(on_t) == 1, m=ms, node=t.ast, fn=sr, instance="hitl:once", reason="the same InputRequiredEvent can be published twice within one result")
    chk.observe("RUNNING names the input event with type(ev).__name__, NOT_RUNNING with str(type(ev)) (cosmetic asymmetry; not gated)")


TWINS = [
    Twin("benign: rewind result bound through a local pair", CL_REL, "        self.state, commands = rewind_in_progress(self.state, start)\n", "        rewound = rewind_in_progress(self.state, start)\n        self.state, commands = rewound\n", None),
    Twin("resume restarts the rewound workers directly and drops the other rewind commands", CL_REL, "            try:\n                await self.process_command(command)\n            except Exception:\n                await self.cleanup_tasks()\n                raise\n",
         "            if isinstance(command, CommandRunWorker):\n                self.run_worker(command)\n", "C35.R1"),
    Twin("publications of a tick skipped while the run is stopping", CL_REL, "        for command in commands:\n            try:\n                result = await self.process_command(command)\n",
         "        for command in commands:\n            if isinstance(command, CommandPublishEvent) and not self.state.is_running:\n                continue\n            try:\n                result = await self.process_command(command)\n", "C35.R1"),
    Twin("running not published", CL_REL, "        commands.append(CommandRunWorker(step_name=step_name, event=event.event, id=id))\n        commands.append(\n            CommandPublishEvent(\n                StepStateChanged(\n                    step_state=StepState.RUNNING,", "        commands.append(CommandRunWorker(step_name=step_name, event=event.event, id=id))\n        (\n            CommandPublishEvent(\n                StepStateChanged(\n                    step_state=StepState.RUNNING,", "C35.R1"),
    Twin("running with wrong worker", CL_REL, "                    input_event_name=type(event.event).__name__,\n                    worker_id=str(id),", "                    input_event_name=type(event.event).__name__,\n                    worker_id=str(len(state.in_progress)),", "C35.R1"),
    Twin("worker id from length", CL_REL, "id = id_candidates[0]", "id = len(state.in_progress)", "C35.R1"),
    Twin("preparing published as running", CL_REL, "                    step_state=StepState.PREPARING,", "                    step_state=StepState.RUNNING,", "C35.R1"),
    Twin("not running after outputs", CL_REL, "        commands.insert(\n            0,\n            CommandPublishEvent(\n                StepStateChanged(\n                    step_state=StepState.NOT_RUNNING,", "        commands.append(\n            CommandPublishEvent(\n                StepStateChanged(\n                    step_state=StepState.NOT_RUNNING,", "C35.R2"),
    Twin("not running on rerun too", CL_REL, "    if step_no_longer_in_progress:\n        commands.insert(", "    if True:\n        commands.insert(", "C35.R2"),
    Twin("not running names other worker", CL_REL, "                    worker_id=str(tick.worker_id),\n                )\n            ),\n        )\n        worker_state.in_progress.remove(this_execution)", "                    worker_id=str(0),\n                )\n            ),\n        )\n        worker_state.in_progress.remove(this_execution)", "C35.R1"),
    Twin("removal without telemetry", CL_REL, "        worker_state.in_progress.remove(this_execution)\n    # enqueue next events", "        pass\n    worker_state.in_progress.remove(this_execution) if this_execution in worker_state.in_progress else None\n    # enqueue next events", "C35.R1"),
    Twin("hitl published twice", CL_REL, "                if isinstance(result.result, InputRequiredEvent):\n                    commands.append(CommandPublishEvent(event=result.result))", "                if isinstance(result.result, InputRequiredEvent):\n                    commands.append(CommandPublishEvent(event=result.result))\n                    commands.append(CommandPublishEvent(event=result.result))", "C35.R3"),
    Twin("hitl not published", CL_REL, "                if isinstance(result.result, InputRequiredEvent):\n                    commands.append(CommandPublishEvent(event=result.result))", "                if isinstance(result.result, InputRequiredEvent):\n                    pass", "C35.R3"),
    Twin("drain drops commands", CL_REL, "            subcommands = _add_or_enqueue_event(\n                event, tick.step_name, worker_state, now_seconds\n            )\n            commands.extend(subcommands)", "            subcommands = _add_or_enqueue_event(\n                event, tick.step_name, worker_state, now_seconds\n            )\n            commands.extend(subcommands[:1])", "C35.R1"),
    Twin("benign: publish before run-worker", CL_REL, "        commands.append(CommandRunWorker(step_name=step_name, event=event.event, id=id))\n        commands.append(\n            CommandPublishEvent(\n                StepStateChanged(\n                    step_state=StepState.RUNNING,\n                    name=step_name,\n                    input_event_name=type(event.event).__name__,\n                    worker_id=str(id),\n                )\n            )\n        )",
         "        commands.append(\n            CommandPublishEvent(\n                StepStateChanged(\n                    step_state=StepState.RUNNING,\n                    name=step_name,\n                    input_event_name=type(event.event).__name__,\n                    worker_id=str(id),\n                )\n            )\n        )\n        commands.append(CommandRunWorker(step_name=step_name, event=event.event, id=id))", None),
]
