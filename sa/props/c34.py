"""C34 — release tooling converts and classifies versions consistently.

R1 decides writer/reader agreement of the two converters on regular languages (all digit strings, release
lengths 1..4 as slots) and confirms the plumbing of components on a finite domain by interpreting the two
functions' ASTs; R2 interprets detect_change_type's AST (with the module-level constants of its module bound from their ASTs)
over an exhaustive small domain of version pairs, which includes all pairs with two or three release components growing at once,
and compares every verdict with "the most significant release component that grew".
The regular-language toolkit and the abstract string interpreter are imported from props/c32.py.

Model of `packaging.Version` (both interpreters): `release` is the tuple of parsed components; `major`/`minor`/`micro` are
release[0..2] with an absent component reading as the constant 0 (packaging's padding); `base_version` is the dotted release;
`pre` is None or (a|b|rc, n).  The round trip is judged on the normalised *string* (hence on the release tuple, its length
included), not under Version equality (where 1.2 == 1.2.0): a writer that pads a 1- or 2-component release to three
components, or drops the 4th, is reported for that release length, for final and a/b/rc versions alike.

Decided for string surgery inside the converters: `regex.match / fullmatch / search` (groups and the whole match, group 0, as
language quotients) and the strip family with a constant OR a computed argument.  `s.rstrip(x)` / `lstrip` / `strip` delete
every end character that occurs in `x` — a set of characters, never the suffix / prefix `x` — and both interpreters evaluate
exactly that: the symbolic one on languages (`_SI.strip_by_set`, per character set the argument can have), the finite one on
concrete strings.  A converter that takes the release part with `version.rstrip(match.group())` therefore yields `1.2` for
`1.2.1-rc.1` and the empty string for `0.0.0-a.0`; the returned language leaves the canonical form and the grid (which holds,
floored, pre-releases whose last release digit recurs in the pre-release number and the all-zero release with number 0)
names the versions.  A computed strip whose character set cannot meet the receiver's ends (`base.rstrip(label)`) is accepted.
"""

from __future__ import annotations

import ast
import itertools
import re
from pathlib import Path

from ..absint import Interp, Raised, Record
from ..absint import Unsupported as IUnsupported
from ..astx import call_name, last
from ..index import AnchorError, FuncNode, _set_parents
from ..selftest import Twin
from .c32 import (
    UNKNOWN, AInt, Alphabet, AObj, ARegex, ASeq, AStr, DFA, L_all, L_chars, L_count, L_empty, L_eps, L_union, L_word, SInterp, State, Unsupported,
    collect_literals, collect_preds, hook_re_compile, lang_atoms, module_consts, regex_charsets, regex_groups, regex_match_lang, regex_preds,
    regex_split_anchors,
)

EXPLANATION = (
    "R1 (converter agreement). Symbolic part: `pep440_to_semver` is interpreted abstractly with `Version(..)` modelled as release = n natural "
    "numbers (n = 1..4 is the slot; major/minor/micro = release[0..2], the constant 0 when absent, as packaging defines them) and pre = none or (a|b|rc, natural); the set of strings it can return is a regular language (all digit "
    "strings at once). For each n: the pre-release language must be included in the language of the regex `semver_to_pep440` matches with "
    "(regex AST), the label guard must not raise, and what `semver_to_pep440` then returns (abstract interpretation, capture groups computed by "
    "language quotients) must lie in the canonical PEP 440 form N(.N){n-1}(a|b|rc)N; final releases must come back as N(.N){n-1}. The other "
    "direction starts from canonical semver N.N.N[-(a|b|rc).N]. Finite part: both functions' ASTs are evaluated (no repo code runs) on all "
    "releases of length 1..4 over {0,1,7,10} x {final,a0,a4,b1,rc2,rc10} and the round trip must return the normalized original string (string comparison, so a release padded or truncated to three components is a failure even where Version equality would hide it). "
    "The grid holds (counted, floored) the pre-releases whose last release digit also occurs in the pre-release number (1.1b1, 7.0a0, 0.10rc10) and the all-zero releases with number 0 (0.0.0a0): "
    "the inputs on which a character-level confusion between the release and the pre-release suffix shows. "
    "String surgery in the converters is evaluated with Python's semantics in both halves: regex .match/.fullmatch/.search (capture groups and the whole match as language quotients; every match position is kept, not only the leftmost), "
    "and str.strip/lstrip/rstrip with a constant or a COMPUTED argument = deletion of every end character that occurs in the argument (a character set, never 'remove this suffix'): "
    "symbolically, the argument's language is partitioned by the set C of character classes its words consist of and rstrip_C(R) = rquot(R, C*) & (eps | Sigma*(Sigma - C1)), C1 = the classes of C that are a single character "
    "(a class of several characters, 1-9, may or may not be deleted; receiver and argument are taken as independent: over-approximations, so no computable result is lost). "
    "Hence `base = version.rstrip(match.group())` after a suffix-only regex is reported (1.2.1-rc.1 -> 1.2rc1, 0.0.0-a.0 -> a0: the returned language leaves N(.N){n-1}(a|b|rc)N, and the grid names the versions), "
    "while `base.rstrip(label)` (letters cannot end a dotted digit string) is evaluated and accepted; the reason of a failed obligation points at every strip-family call with a non-literal argument in the converters (also listed as an observation). "
    "R2 (classification): detect_change_type's AST is evaluated on every ordered pair of versions with release length 1..4 over {0,1} and "
    "pre in {final, rc1, rc2} (8100 pairs, exhaustive for that domain) and on every ordered pair of 3-component releases over {0,1,3} x {final, rc1} "
    "(2916 pairs: growth by unequal amounts): result 'none' iff the new version is not greater under the PEP 440 "
    "order, else the name of the most significant of the three leading release components that grew (new > old). The grids hold every combination of "
    "the three components growing / staying / shrinking; the pairs in which two or three components grow at once (0.0.0 -> 1.1.1, 1.0.0 -> 1.1.1, 0.0 -> 1.3 ...) "
    "are counted and floored, because they are the only ones that tell 'most significant grown' from 'last / least significant / largest grown'. "
    "Module-level constants of dev_cli.versioning that the classifier (or a helper it calls) mentions are bound from their ASTs, so a table-driven "
    "classifier (`for name, cur, prev in zip(_COMPONENTS, ...)`) is evaluated like the if-ladder; a constant changed in place during the evaluation is an analysis error. "
    "Both interpreters follow module-level helper functions the three functions call, and a local list grown by append/extend in a loop (the statement form of a generator); "
    "any other in-place change of a modelled sequence is refused (analysis error), never ignored. "
    "Not decided: packaging.Version parsing/normalisation (modelled: release tuple, pre label in a/b/rc, trailing zeros insignificant for "
    "ordering), epochs/post/dev/local segments (outside the quantifier), the classification when only a 4th component or only the pre-release "
    "grew (the statement does not define it; reported as an observation); is_rc_version (not part of the statement, planned R3 dropped)."
)
TRUSTED = ["CPython ast, re (stdlib engine on the repo's pattern string), re._parser", "packaging.Version: release tuple, major/minor/micro = release[0..2] padded with 0, base_version, pre in {a,b,rc}, PEP 440 ordering"]
LEVEL_NOTE = "language inclusion is exact for all digit strings; component plumbing and classification are bounded-exhaustive"
TECHNIQUE = "writer-template vs reader-regex language inclusion; AST interpretation over finite domains"

CS = "dev_cli.changesets"
VS = "dev_cli.versioning"
P2S, S2P, DCT = "pep440_to_semver", "semver_to_pep440", "detect_change_type"
LABELS = ("a", "b", "rc")
FIXTURE = "fixtures/c34/planted.py"
FIXTURE_STRIP = "fixtures/c34/planted_strip.py"
FIXTURE_HARMLESS = "fixtures/c34/harmless_strip.py"
LENGTHS = (1, 2, 3, 4)


# ------------------------------------------------------------------------------ symbolic part
class _SI(SInterp):
    """SInterp that does not take `obj.attr[...]` for a string operation when the attribute holds a sequence
    (`v.release[:3]`, `v.release[1:]`): the slice is then taken on the modelled tuple."""

    def _is_stringy(self, e, st):
        if isinstance(e, ast.Attribute):
            try:
                vs = self.eval(e, st)
            except Unsupported:
                vs = []
            if vs and all(isinstance(v, (tuple, list, ASeq)) for v, _s in vs):
                return False
        return super()._is_stringy(e, st)

    # in-place growth of a local list (`parts = []` … `for x in v.release: parts.append(str(x))` — the statement form of
    # the generator `".".join(str(x) for x in v.release)`).  The base interpreter evaluates an unknown method call to UNKNOWN
    # and leaves the receiver untouched, which would silently read the list as still empty.  Here the local is re-bound to the
    # grown list (states are persistent, so a fresh list per state); any in-place change of a modelled list / sequence that
    # is not reproduced exactly is refused (AnchorError through Unsupported), never ignored.
    _LIST_MUTATORS = {"append", "extend", "insert", "remove", "pop", "clear", "sort", "reverse", "__setitem__", "__delitem__", "__iadd__"}

    # ---- str.strip / lstrip / rstrip with a COMPUTED argument (`version.rstrip(match.group())`, `base.rstrip(num)`).
    # The base interpreter models the strip family for a constant argument only and refuses anything else.  Python's semantics
    # is the same in both cases: the argument is a *set of characters*, deleted from the end(s) for as long as the end character
    # is in the set; it is never "remove this suffix / prefix".  Modelled here on languages:
    #   * the argument's language M is partitioned by the set C of atoms its words are made of (`_charset_partition`; a
    #     `-<label>.<N>` suffix has 9 such sets: 3 labels x {0}, {1-9}, {0,1-9});
    #   * for each C:  rstrip_C(R) = rquot(R, C*)  ∩  (ε | Σ*·(Σ − C_sure)),   lstrip_C(R) = lquot(R, C*) ∩ (ε | (Σ − C_sure)·Σ*),
    #     where C_sure are the atoms of C that stand for exactly one character: stripping cannot stop in front of them.  An atom
    #     that stands for several characters (`1-9`) is in C when *some* of its characters is in the argument, so an end character
    #     of that atom may or may not be deleted: both outcomes are kept;
    #   * the result is the union over the C.  Receiver and argument are taken as independent strings of their languages.
    # Every string the program can compute is in the result (over-approximation in the two places named above, none elsewhere);
    # the concrete failing versions come from the finite grid, which runs the same AST on concrete strings.
    _STRIP_FAMILY = ("strip", "lstrip", "rstrip")

    def _computed_strip(self, e, st) -> bool:
        if not (isinstance(e, ast.Call) and isinstance(e.func, ast.Attribute) and e.func.attr in self._STRIP_FAMILY and len(e.args) == 1):
            return False
        if not self._is_stringy(e.func.value, st):
            return False
        return not isinstance(self._maybe_const(e.args[0], st), str)

    def _fst_step(self, e, st):
        if self._computed_strip(e, st):
            return None  # not a fixed transducer: evaluated by e_Call below
        return super()._fst_step(e, st)

    def _charset_partition(self, M: DFA) -> list[frozenset]:
        """The sets C of atoms such that some word of M consists of exactly the atoms in C (ε gives the empty set)."""
        atoms = sorted(lang_atoms(M))
        if len(atoms) > 12:
            raise Unsupported("strip() argument over too many character classes")
        K = self.K
        out: list[frozenset] = []

        def rec(i: int, lang: DFA, chosen: frozenset) -> None:
            if lang.is_empty():
                return
            if i == len(atoms):
                out.append(chosen)
                return
            a = atoms[i]
            rec(i + 1, lang & L_count(K, [a], 1, None), chosen | {a})
            rec(i + 1, lang & L_count(K, [a], 0, 0), chosen)

        rec(0, M, frozenset())
        return out

    def strip_by_set(self, R: DFA, C: frozenset, left: bool, right: bool) -> DFA:
        K = self.K
        if not C or R.is_empty():
            return R
        sure = {a for a in C if self.A.atoms[a].members is not None and len(self.A.atoms[a].members) == 1}
        run = L_chars(K, C, 0, None)
        stop = L_chars(K, set(range(K)) - sure)
        out = R
        if right:
            out = out.rquot(run) & (L_eps(K) | L_all(K).concat(stop))
        if left:
            out = out.lquot(run) & (L_eps(K) | stop.concat(L_all(K)))
        return out

    def e_Call(self, e, st):
        if self._computed_strip(e, st):
            if e.keywords:
                raise Unsupported("strip() with keyword arguments")
            m = e.func.attr
            left, right = m in ("strip", "lstrip"), m in ("strip", "rstrip")
            out = []
            for (rv, av), s in self.evals([e.func.value, e.args[0]], st):
                if rv is UNKNOWN:
                    out.append((UNKNOWN, s))
                    continue
                if av is None:
                    parts = [self.A.select("isspace")]
                    arg_rand = False
                elif isinstance(av, (AStr, str)):
                    a = self.to_astr(av)
                    parts = self._charset_partition(a.all)
                    arg_rand = not a.rand.is_empty()
                else:
                    raise Unsupported(f"{m}() with an argument the string interpreter lost track of (`{ast.unparse(e.args[0])[:40]}`)")
                r = self.to_astr(rv)

                def apply(d: DFA) -> DFA:
                    return L_union(self.K, [self.strip_by_set(d, C, left, right) for C in parts])

                out.append((AStr(L_empty(self.K), apply(r.all)) if arg_rand else r.map(apply), s))
            return out
        f = e.func
        if isinstance(f, ast.Attribute) and isinstance(f.value, ast.Name) and f.attr in self._LIST_MUTATORS and not e.keywords:
            cur = st.env.get(f.value.id)
            if isinstance(cur, (list, ASeq)):
                if not isinstance(cur, list) or f.attr not in ("append", "extend") or len(e.args) != 1:
                    raise Unsupported(f"in-place `{f.attr}` on the local sequence `{f.value.id}` is not modelled")
                out = []
                for v, s in self.eval(e.args[0], st):
                    now = s.env.get(f.value.id)
                    if not isinstance(now, list):
                        raise Unsupported(f"`{f.value.id}` changes while the argument of `{f.attr}` is evaluated")
                    if f.attr == "append":
                        grown = now + [v]
                    elif isinstance(v, (list, tuple)):
                        grown = now + list(v)
                    else:
                        raise Unsupported(f"`{f.value.id}.extend` with a sequence of unknown length")
                    out.append((None, self._bind(s, f.value.id, grown)))
                return out
        return super().e_Call(e, st)

    def exec_stmt(self, s, states):
        # a store / delete through a subscript of a modelled local list is an in-place change too: refuse rather than ignore
        if isinstance(s, (ast.Assign, ast.AugAssign, ast.Delete)):
            tg = s.targets if isinstance(s, (ast.Assign, ast.Delete)) else [s.target]
            for t in tg:
                for x in ast.walk(t):
                    if isinstance(x, ast.Subscript) and isinstance(x.value, ast.Name) and any(isinstance(st.env.get(x.value.id), (list, ASeq)) for st in states):
                        raise Unsupported(f"in-place store into the local sequence `{x.value.id}` is not modelled")
        # `a, b = <None>`: the program raises TypeError on that path (an inverted `pre is None` test that kept its arms);
        # recorded as an exception of the converter instead of "construct not modelled"
        if isinstance(s, ast.Assign) and len(s.targets) == 1 and isinstance(s.targets[0], (ast.Tuple, ast.List)):
            from .c32 import Flow
            flow = Flow()
            for st in states:
                for v, st2 in self.eval_forking(s.value, st):
                    if v is None:
                        flow.exc.append(("TypeError", st2, s))
                    else:
                        flow.normal.append(self.assign(s.targets[0], v, st2))
            return flow
        return super().exec_stmt(s, states)


def _reachable_helpers(funcs: dict[str, ast.AST], roots: list[ast.AST]) -> list[ast.AST]:
    """Module-level functions called (transitively) from `roots` by bare name: a refactor that extracts a helper keeps the
    converters / the classifier evaluable whether or not the shared inliner folded the helper back."""
    out: list[ast.AST] = []
    todo = list(roots)
    while todo:
        f = todo.pop()
        for c in ast.walk(f):
            if isinstance(c, ast.Call) and isinstance(c.func, ast.Name) and c.func.id in funcs:
                g = funcs[c.func.id]
                if g not in out and g not in roots:
                    out.append(g)
                    todo.append(g)
    return out


def _bind_helpers(env: dict, funcs: dict[str, ast.AST], roots: list[ast.AST]) -> dict:
    """absint closures for the helpers reachable from `roots` (they see the same globals)."""
    for g in _reachable_helpers(funcs, roots):
        env[g.name] = ("__fn__", g, env)
    return env


class _Sym:
    def __init__(self, funcs: dict[str, ast.AST], consts: dict[str, ast.AST]):
        for f in (P2S, S2P):
            if f not in funcs:
                raise AnchorError(f"function `{f}` not found")
        self.p2s, self.s2p = funcs[P2S], funcs[S2P]
        self.consts = consts
        self.funcs = funcs
        nodes = [self.p2s, self.s2p] + _reachable_helpers(funcs, [self.p2s, self.s2p])
        used = {n.id for f in nodes for n in ast.walk(f) if isinstance(n, ast.Name)}
        cnodes = [consts[k] for k in used if k in consts]
        singles, sets = collect_literals(nodes + cnodes)
        preds = collect_preds(nodes + cnodes)
        self.patterns = []
        for c in cnodes:
            for x in ast.walk(c):
                if isinstance(x, ast.Call) and (call_name(x) or "").endswith("compile") and x.args and isinstance(x.args[0], ast.Constant) and isinstance(x.args[0].value, str):
                    self.patterns.append(x.args[0].value)
                    s1, s2 = regex_charsets(x.args[0].value)
                    singles |= s1
                    sets += s2
                    preds |= regex_preds(x.args[0].value)
        singles |= set("0.-abrc")
        sets += [set("123456789"), set("0123456789")]
        try:
            self.A = Alphabet(singles, sets, preds)
        except Unsupported as e:
            raise AnchorError(f"C34: cannot build the alphabet: {e}")
        self.K = self.A.K
        self.reader_pattern: str | None = None
        self.reader_lang: DFA | None = None  # subjects on which the reader's regex call (.match / .fullmatch / .search) succeeds

    # languages
    def lit(self, s: str) -> DFA:
        return L_word(self.K, self.A.word(s))

    def nat(self) -> DFA:
        zero = self.A.word("0")
        nz = self.A.of_chars("123456789")
        return L_word(self.K, zero) | L_chars(self.K, nz).concat(L_chars(self.K, nz | set(zero), 0, None))

    def release(self, n: int, sep: str = ".") -> DFA:
        out = self.nat()
        for _ in range(n - 1):
            out = out.concat(self.lit(sep)).concat(self.nat())
        return out

    def labels(self) -> DFA:
        return L_union(self.K, [self.lit(l) for l in LABELS])

    def canon_pep(self, n: int, pre: bool) -> DFA:
        r = self.release(n)
        return r.concat(self.labels()).concat(self.nat()) if pre else r

    def canon_semver(self, pre: bool) -> DFA:
        r = self.release(3)
        return r.concat(self.lit("-")).concat(self.labels()).concat(self.lit(".")).concat(self.nat()) if pre else r

    # hooks
    def _hooks(self, n: int | None, pre: bool | None, raises: list) -> dict:
        sym = self

        def h_version(ip, node, args, kw, st):
            if n is None:
                raise Unsupported("Version() called in a run that did not configure a release length")
            p = (AStr(sym.labels()), AInt()) if pre else None
            # packaging semantics: major/minor/micro are release[0..2], a missing component reads as the constant 0
            comps = [AInt() if i < n else 0 for i in range(3)]
            return [(AObj("Version", release=tuple(AInt() for _ in range(n)), pre=p, epoch=0, post=None, dev=None, local=None,
                          major=comps[0], minor=comps[1], micro=comps[2], is_prerelease=bool(pre), is_postrelease=False, is_devrelease=False,
                          base_version=AStr(sym.release(n))), st)]

        def mk_match(mode: str):
            """`regex.match / fullmatch / search(subject)`.  The languages of the capture groups — and of the whole match, group 0 —
            are left/right quotients of the matched subject language by what the pattern puts before / after them.  `search` on a
            pattern without `^` may start anywhere (Σ* in front); a pattern without `$` (and not `fullmatch`) may stop anywhere
            (Σ* behind).  Every position at which the pattern can match is kept, not only the leftmost (over-approximation)."""

            def h_match(ip, node, args, kw, st):
                rx, s = args[0], args[1] if len(args) > 1 else UNKNOWN
                if not isinstance(rx, ARegex) or not isinstance(s, AStr):
                    return [(UNKNOWN, st)]
                sym.reader_pattern = rx.pattern
                try:
                    L = regex_match_lang(ip.A, rx.pattern, strict_end=True, anchored_start=mode != "search")
                    items = regex_groups(ip.A, rx.pattern)
                    _it, begin, end = regex_split_anchors(rx.pattern)
                except Unsupported as e:
                    raise AnchorError(f"C34: reader regex `{rx.pattern}` is outside the supported subset: {e}")
                if mode == "fullmatch" and not end:
                    body = L_eps(ip.K)
                    for l2, _g in items:
                        body = body.concat(l2)
                    L, end = L & body, True
                sym.reader_lang = L
                lead = L_all(ip.K) if (mode == "search" and not begin) else L_eps(ip.K)
                tail = L_eps(ip.K) if end else L_all(ip.K)
                subj = s.all
                hit, miss = subj & L, subj - L
                out = []
                arg = node.args[0] if getattr(node, "args", None) else None
                if not hit.is_empty():
                    groups = {}
                    whole = L_eps(ip.K)
                    for i, (lang, g) in enumerate(items):
                        whole = whole.concat(lang)
                        if g is None:
                            continue
                        pre_l = lead
                        for l2, _g in items[:i]:
                            pre_l = pre_l.concat(l2)
                        suf_l = L_eps(ip.K)
                        for l2, _g in items[i + 1:]:
                            suf_l = suf_l.concat(l2)
                        groups[g] = AStr(lang & hit.lquot(pre_l).rquot(suf_l.concat(tail)))
                    gs = tuple(groups[k] for k in sorted(groups))
                    st2 = st.set(arg.id, AStr(hit)) if isinstance(arg, ast.Name) else st
                    out.append((AObj("@match", groups=gs, whole=AStr(whole & hit.lquot(lead).rquot(tail))), st2))
                if not miss.is_empty():
                    st3 = st.set(arg.id, AStr(miss)) if isinstance(arg, ast.Name) else st
                    out.append((None, st3))
                return out

            return h_match

        def h_groups(ip, node, args, kw, st):
            return [(args[0].attrs["groups"], st)]

        def h_group(ip, node, args, kw, st):
            if len(args) > 2 or kw:
                raise Unsupported("match.group with several indices")
            k = args[1] if len(args) > 1 else 0
            if k == 0 and isinstance(k, int) and not isinstance(k, bool):
                return [(args[0].attrs["whole"], st)]  # the whole match
            if not isinstance(k, int) or not 1 <= k <= len(args[0].attrs["groups"]):
                raise Unsupported("match.group with a non-constant / out-of-range index")
            return [(args[0].attrs["groups"][k - 1], st)]

        return {"Version": h_version, "re.compile": hook_re_compile, "@regex.match": mk_match("match"), "@regex.fullmatch": mk_match("fullmatch"),
                "@regex.search": mk_match("search"), "@match.groups": h_groups, "@match.group": h_group}

    def run(self, fn: ast.AST, arg: object, n: int | None, pre: bool | None) -> tuple[DFA, list[str]]:
        """(language of returned strings, names of exceptions that can be raised)"""
        raises: list = []
        ip = _SI(self.A, {k: f for k, f in self.funcs.items() if f is not fn}, self.consts, self._hooks(n, pre, raises))
        params = [a.arg for a in fn.args.args]
        try:
            rets = ip.call_function(fn, {params[0]: arg})
        except Unsupported as e:
            raise AnchorError(f"C34: `{fn.name}` uses a construct the string interpreter does not model: {e}")
        out = L_empty(self.K)
        for v, _st in rets:
            if isinstance(v, str):
                v = AStr(self.lit(v))
            if not isinstance(v, AStr):
                raise AnchorError(f"C34: `{fn.name}` returns something that is not a string the interpreter could follow ({type(v).__name__})")
            out = out | v.all
        exc = [e[1] for e in ip.events if e[0] == "raise"]
        return out, exc

    def show(self, d: DFA) -> str:
        w = d.shortest()
        return "<none>" if w is None else repr(self.A.render(w))


# ------------------------------------------------------------------------------ finite part (AST interpretation)
_CANON = re.compile(r"^(\d+(?:\.\d+)*)(?:(a|b|rc)(\d+))?$")


def _model_version(s: str) -> Record:
    """Model of packaging.Version for canonical `N(.N)*[(a|b|rc)N]` strings (anything else: InvalidVersion)."""
    m = _CANON.match(s) if isinstance(s, str) else None
    if not m:
        raise Raised("InvalidVersion", repr(s))
    rel = tuple(int(x) for x in m.group(1).split("."))
    pre = (m.group(2), int(m.group(3))) if m.group(2) else None
    pad = rel + (0, 0, 0)  # packaging: major/minor/micro = release[0..2], 0 when the component is absent
    return _V("Version", release=rel, pre=pre, epoch=0, post=None, dev=None, local=None, major=pad[0], minor=pad[1], micro=pad[2],
              is_prerelease=pre is not None, is_postrelease=False, is_devrelease=False, base_version=".".join(map(str, rel)),
              public=m.group(0))


class _V(Record):
    def _key(self):
        rel = list(self.release)
        while len(rel) > 1 and rel[-1] == 0:
            rel.pop()
        pre = (1, "", 0) if self.pre is None else (0, self.pre[0], self.pre[1])
        return (tuple(rel), pre)

    def __lt__(self, o): return self._key() < o._key()
    def __le__(self, o): return self._key() <= o._key()
    def __gt__(self, o): return self._key() > o._key()
    def __ge__(self, o): return self._key() >= o._key()
    def __eq__(self, o): return isinstance(o, _V) and self._key() == o._key()
    def __ne__(self, o): return not self.__eq__(o)
    __hash__ = None  # type: ignore[assignment]

    def __str__(self) -> str:
        return ".".join(map(str, self.release)) + ("" if self.pre is None else f"{self.pre[0]}{self.pre[1]}")


def _interp(consts: dict[str, ast.AST], funcs: dict[str, ast.AST] | None = None) -> Interp:
    """absint interpreter whose globals hold the module constants the converters use (sets, compiled regex)."""
    env: dict = {"map": map}

    def mk_regex(pattern: str) -> Record:
        rx = re.compile(pattern)  # stdlib engine on the repo's pattern *string*

        def wrap(m):
            if m is None:
                return None
            return Record("Match", groups=lambda: m.groups(), group=lambda *a: m.group(*a))

        return Record("Pattern", match=lambda s: wrap(rx.match(s)), fullmatch=lambda s: wrap(rx.fullmatch(s)), search=lambda s: wrap(rx.search(s)), pattern=pattern)

    boot = Interp({}, hooks={"re.compile": mk_regex})
    for k, v in consts.items():
        try:
            env[k] = boot.eval(v, {})
        except (IUnsupported, Raised, Exception):
            continue
    if funcs:
        _bind_helpers(env, funcs, [funcs[f] for f in (P2S, S2P) if f in funcs])
    return Interp(env, hooks={"Version": _model_version, "re.compile": mk_regex})


def _call(ip: Interp, fn: ast.AST, arg: str):
    ip.steps = 0
    try:
        return ip.call_function(fn, {fn.args.args[0].arg: arg})
    except Raised as r:
        return f"<raises {r.name}>"
    except TypeError:
        # the interpreted program itself misuses a value (e.g. unpacks `None`): at run time this is a TypeError of the converter
        return "<raises TypeError>"
    except IUnsupported as e:
        raise AnchorError(f"C34: `{fn.name}` uses a construct absint does not model: {e}")


def finite_roundtrips(funcs: dict[str, ast.AST], consts: dict[str, ast.AST]) -> tuple[dict, dict, int, dict]:
    """failures of pep440->semver->pep440 per release length, failures of semver->pep440->semver, cases evaluated, and
    what the grid holds of the two situations a character-level confusion between the release and the pre-release part needs
    in order to show: `shared` = pre-releases whose last release digit also occurs in the pre-release number (1.2.1rc1,
    7.0a0, 0.10rc10), `zero` = all-zero releases with pre-release number 0 (0.0.0a0: nothing of the release is left if the
    characters of the suffix are eaten)."""
    ip = _interp(consts, funcs)
    p2s, s2p = funcs[P2S], funcs[S2P]
    vals = (0, 1, 7, 10)
    pres = (None, ("a", 0), ("a", 4), ("b", 1), ("rc", 2), ("rc", 10))
    fail_p: dict[int, list[str]] = {n: [] for n in LENGTHS}
    cases = 0
    grid = {"shared": 0, "zero": 0}

    def tally(rel, pre) -> None:
        if pre is not None:
            grid["shared"] += str(rel[-1])[-1] in str(pre[1])
            grid["zero"] += not any(rel) and pre[1] == 0
    for n in LENGTHS:
        for rel in itertools.product(vals, repeat=n):
            for pre in pres:
                orig = ".".join(map(str, rel)) + ("" if pre is None else f"{pre[0]}{pre[1]}")
                cases += 1
                tally(rel, pre)
                sem = _call(ip, p2s, orig)
                back = _call(ip, s2p, sem) if isinstance(sem, str) and not sem.startswith("<raises") else sem
                if back != orig:
                    # compared on the normalised string, i.e. on the release tuple itself and not under Version equality (1.2 == 1.2.0)
                    mb = _CANON.match(back) if isinstance(back, str) else None
                    nb = len(mb.group(1).split(".")) if mb else None
                    why = "" if nb in (None, n) else f" [release {'padded' if nb > n else 'truncated'} from {n} to {nb} component(s)]"
                    txt = f"{orig} -> {sem} -> {back}{why}"
                    if 0 in rel:
                        fail_p[n].append(txt)
                    else:  # telling examples (no zero component) first
                        fail_p[n].insert(0, txt)
    fail_s: list[str] = []
    for rel in itertools.product(vals, repeat=3):
        for pre in pres:
            orig = ".".join(map(str, rel)) + ("" if pre is None else f"-{pre[0]}.{pre[1]}")
            cases += 1
            tally(rel, pre)
            pep = _call(ip, s2p, orig)
            back = _call(ip, p2s, pep) if isinstance(pep, str) and not pep.startswith("<raises") else pep
            if back != orig:
                fail_s.append(f"{orig} -> {pep} -> {back}" if len(fail_s) < 3 else "")
    return fail_p, {"semver": fail_s}, cases, grid


def _module_env(consts: dict[str, ast.AST] | None, used: set[str]) -> dict:
    """Values of the module-level constants (`NAME = <small pure expression>`) of the analysed module that the evaluated
    functions mention, computed by absint on the constants' ASTs.  A constant absint cannot evaluate stays unbound (its use
    is then an analysis error, not a guess)."""
    env: dict = {}
    todo = set(used)
    for k, v in (consts or {}).items():  # source order; a constant built from earlier constants pulls them in
        todo |= {x.id for x in ast.walk(v) if isinstance(x, ast.Name)} if k in todo else set()
    for k, v in (consts or {}).items():
        if k not in todo:
            continue
        try:
            env[k] = Interp(env).eval(v, dict(env))
        except (IUnsupported, Raised, Exception):
            continue
    return env


_NAMES = ("major", "minor", "patch")


def classify_all(fn: ast.AST, funcs: dict[str, ast.AST] | None = None, consts: dict[str, ast.AST] | None = None) -> tuple[int, list[str], dict, int]:
    """Evaluate the classifier's AST on the whole grid of ordered version pairs and compare each verdict with the statement:
    'none' iff the new version is not greater; otherwise the name of the MOST SIGNIFICANT of the three leading release
    components that GREW (new > old).  The grid {0,1}^n (n = 1..4) x {final, rc1, rc2} holds every combination of the three
    components growing / staying / shrinking, in particular all pairs where two or three components grow at once
    (0.0.0 -> 1.1.1, 0.0 -> 1.1, 1.0.0 -> 1.1.1 ...), each also with pre-release markers on either side; a second grid of
    3-component releases over {0,1,3} adds growth by unequal amounts (0.0.0 -> 1.3.0), so that a classifier that picks the
    component by the *size* of its growth, or the *last* / *least* significant grown one, disagrees on some pair."""
    roots = [fn] + _reachable_helpers(funcs or {}, [fn])
    used = {x.id for f in roots for x in ast.walk(f) if isinstance(x, ast.Name)}
    # module-level constants of the analysed module (`_COMPONENTS = ("major", "minor", "patch")`, a table of names, a padding
    # tuple) are part of the classifier: bound from their ASTs so that a table-driven classifier is evaluated, not refused
    genv = _module_env(consts, used)
    snapshot = repr(sorted((k, repr(v)) for k, v in genv.items()))
    ip = Interp(_bind_helpers(genv, funcs or {}, [fn]), hooks={"Version": _model_version})
    rels = [r for n in LENGTHS for r in itertools.product((0, 1), repeat=n)]
    pres = (None, ("rc", 1), ("rc", 2))
    versions = [(r, p) for r in rels for p in pres]
    strs = [".".join(map(str, r)) + ("" if p is None else f"{p[0]}{p[1]}") for r, p in versions]
    # second grid: unequal growth
    strs2 = [".".join(map(str, r)) + sfx for r in itertools.product((0, 1, 3), repeat=3) for sfx in ("", "rc1")]
    bad: list[str] = []
    telling: list[str] = []
    undefined: dict[str, int] = {}
    n = 0
    multi = 0
    params = [a.arg for a in fn.args.args]
    for grid in (strs, strs2):
        models = [_model_version(s) for s in grid]
        for i, cs in enumerate(grid):
            for j, ps in enumerate(grid):
                n += 1
                ip.steps = 0
                try:
                    got = ip.call_function(fn, {params[0]: cs, params[1]: ps})
                except Raised as r:
                    got = f"<raises {r.name}>"
                except TypeError:
                    got = "<raises TypeError>"
                except IUnsupported as e:
                    raise AnchorError(f"C34.R2: `{fn.name}` uses a construct absint does not model: {e}")
                c, p = models[i], models[j]
                if not c > p:
                    want = "none"
                    note = "the new version is not greater"
                else:
                    cr = (tuple(c.release) + (0, 0, 0))[:3]
                    pr = (tuple(p.release) + (0, 0, 0))[:3]
                    grown = [x for x in range(3) if cr[x] > pr[x]]
                    if not grown:
                        undefined[str(got)] = undefined.get(str(got), 0) + 1
                        if got == "none" or got not in _NAMES:
                            bad.append(f"{cs} vs {ps}: greater, yet classified {got!r}")
                        continue
                    multi += len(grown) > 1
                    want = _NAMES[grown[0]]
                    note = f"release components that grew: {', '.join(_NAMES[x] for x in grown)}; the most significant of them is {want}"
                if got != want:
                    # telling examples (several components grew, and the verdict names a lesser one) first
                    txt = f"detect_change_type({cs!r}, {ps!r}) = {got!r}, expected {want!r} ({note})"
                    (telling if c > p and len(grown) > 1 and got in _NAMES else bad).append(txt)
    if repr(sorted((k, repr(v)) for k, v in genv.items() if not (isinstance(v, tuple) and v and v[0] == "__fn__"))) != snapshot:
        raise AnchorError(f"C34.R2: `{fn.name}` changes a module-level constant in place; the pairs are no longer evaluated independently")
    return n, telling + bad, undefined, multi


# ------------------------------------------------------------------------------ evaluation
def computed_strips(nodes: list[ast.AST]) -> list[str]:
    """Structural observation: calls of the strip family whose argument is not a literal (`version.rstrip(match.group())`,
    `base.rstrip(num)`).  Not a verdict — the verdict is what the two interpreters compute with the character-set semantics —
    but the place a maintainer should look at when a round trip fails: such a call reads like "remove this suffix / prefix"
    and is "remove every end character that occurs in the argument"."""
    out = []
    for f in nodes:
        matched = set()  # locals bound from a match object's group(..) / groups()
        for x in ast.walk(f):
            if isinstance(x, ast.Assign) and isinstance(x.value, ast.Call) and isinstance(x.value.func, ast.Attribute) and x.value.func.attr in ("group", "groups"):
                matched |= {n.id for t in x.targets for n in ast.walk(t) if isinstance(n, ast.Name)}
        for x in ast.walk(f):
            if isinstance(x, ast.Call) and isinstance(x.func, ast.Attribute) and x.func.attr in _SI._STRIP_FAMILY and len(x.args) == 1 and not isinstance(x.args[0], ast.Constant):
                a = x.args[0]
                sub = (isinstance(a, ast.Call) and isinstance(a.func, ast.Attribute) and a.func.attr == "group") or (isinstance(a, ast.Name) and a.id in matched)
                what = "a matched substring" if sub else "a computed string"
                out.append(f"`{ast.unparse(x)[:70]}` ({f.name}, line {x.lineno}): str.{x.func.attr} deletes every end character that occurs in its argument "
                           f"({what} used as a character set), it does not remove that {'prefix' if x.func.attr == 'lstrip' else 'suffix'}")
    return out


def eval_rules(funcs: dict[str, ast.AST], consts: dict[str, ast.AST], vfuncs: dict[str, ast.AST], vconsts: dict[str, ast.AST] | None = None, r2: bool = True):
    sym = _Sym(funcs, consts)
    fail_p, fail_s, cases, grid = finite_roundtrips(funcs, consts)
    strips = computed_strips([sym.p2s, sym.s2p] + _reachable_helpers(funcs, [sym.p2s, sym.s2p]))
    hint = ("; look at " + "; ".join(strips)) if strips else ""
    # ---------------- pep440 -> semver -> pep440, per release length
    for n in LENGTHS:
        problems: list[str] = []
        w_pre, exc = sym.run(sym.p2s, UNKNOWN, n, True)
        w_rel, exc2 = sym.run(sym.p2s, UNKNOWN, n, False)
        if exc or exc2:
            problems.append(f"pep440_to_semver can raise {sorted(set(exc + exc2))}")
        silent = False
        for kind, w, ex in (("pre-release", w_pre, exc), ("final", w_rel, exc2)):
            if w.is_empty():
                if not ex:
                    raise AnchorError(f"C34.R1: pep440_to_semver returns nothing for a {kind} version of length {n}")
                problems.append(f"every {kind} version of length {n} makes pep440_to_semver raise {sorted(set(ex))}")
                silent = True
        if silent:  # nothing to hand to the reader: the writer already fails
            ff = [x for x in fail_p[n]]
            if ff:
                problems.append(f"finite round trip fails for {len(ff)} of the evaluated versions, e.g. {'; '.join(ff[:3])}")
            yield ("ob", "C34.R1", f"pep440->semver->pep440:release-len={n}", f"PEP 440 versions with {n} release component(s) survive the round trip through semver",
                   False, sym.p2s, "; ".join(problems) + hint)
            continue
        # the reader on what the writer emits
        sym.reader_pattern = None
        o_pre, rexc = sym.run(sym.s2p, AStr(w_pre), None, None)
        if sym.reader_pattern is None:
            raise AnchorError("C34.R1: semver_to_pep440 no longer matches its input against a module-level regex")
        L = sym.reader_lang
        escaped = w_pre - L
        if not escaped.is_empty():
            problems.append(f"pre-release output {sym.show(escaped)} of pep440_to_semver is not matched by `{sym.reader_pattern}` and is passed through unconverted")
        if rexc:
            problems.append(f"semver_to_pep440 raises {sorted(set(rexc))} on an output of pep440_to_semver")
        o_hit, _ = sym.run(sym.s2p, AStr(w_pre & L), None, None) if not (w_pre & L).is_empty() else (L_empty(sym.K), [])
        off = o_hit - sym.canon_pep(n, True)
        if not off.is_empty():
            problems.append(f"converted pre-release {sym.show(off)} is not of the canonical form N(.N){{{n - 1}}}(a|b|rc)N")
        o_rel, rexc2 = sym.run(sym.s2p, AStr(w_rel), None, None)
        off = o_rel - sym.canon_pep(n, False)
        if not off.is_empty() or rexc2:
            problems.append(f"final release comes back as {sym.show(off)}" + (f", raises {rexc2}" if rexc2 else ""))
        ff = [x for x in fail_p[n]]
        if ff:
            problems.append(f"finite round trip fails for {len(ff)} of the evaluated versions, e.g. {'; '.join(ff[:3])}")
        yield ("ob", "C34.R1", f"pep440->semver->pep440:release-len={n}", f"PEP 440 versions with {n} release component(s) survive the round trip through semver",
               not problems, sym.p2s, "; ".join(problems) + (hint if problems else ""))
    # ---------------- semver -> pep440 -> semver
    problems = []
    for pre in (True, False):
        s_lang = sym.canon_semver(pre)
        p_lang, exc = sym.run(sym.s2p, AStr(s_lang), None, None)
        if exc:
            problems.append(f"semver_to_pep440 raises {sorted(set(exc))} on canonical semver input")
        off = p_lang - sym.canon_pep(3, pre)
        if not off.is_empty():
            problems.append(f"semver {'pre-release' if pre else 'release'} is converted to {sym.show(off)}, not canonical PEP 440")
        back, exc = sym.run(sym.p2s, UNKNOWN, 3, pre)
        off = back - s_lang
        if not off.is_empty() or exc:
            problems.append(f"and back gives {sym.show(off)}")
    ff = fail_s["semver"]
    if ff:
        problems.append(f"finite round trip fails for {len(ff)} semver versions, e.g. {'; '.join(x for x in ff[:3] if x)}")
    yield ("ob", "C34.R1", "semver->pep440->semver", "canonical semver versions N.N.N[-(a|b|rc).N] survive the round trip through PEP 440", not problems, sym.s2p, "; ".join(problems) + (hint if problems else ""))
    yield ("info", "roundtrip_cases", cases)
    yield ("info", "shared_digit_cases", grid["shared"])
    yield ("info", "all_zero_cases", grid["zero"])
    yield ("info", "computed_strips", strips)
    # ---------------- R2
    if not r2:
        return
    if DCT not in vfuncs:
        raise AnchorError(f"function `{DCT}` not found")
    n, bad, undefined, multi = classify_all(vfuncs[DCT], vfuncs, vconsts)
    yield ("ob", "C34.R2", "classification", f"detect_change_type is 'none' iff not greater, else names the most significant of the three leading release components that grew — all {n} ordered pairs of the domain ({multi} of them with two or three components growing at once)", not bad, vfuncs[DCT],
           f"{len(bad)} pairs wrong, e.g. " + "; ".join(bad[:3]))
    yield ("info", "classification_pairs", n)
    yield ("info", "multi_growth_pairs", multi)
    yield ("info", "undefined_cases", undefined)


def _consts_of_tree(tree: ast.AST) -> dict[str, ast.AST]:
    out = {}
    for n in tree.body:
        if isinstance(n, ast.Assign) and len(n.targets) == 1 and isinstance(n.targets[0], ast.Name):
            out[n.targets[0].id] = n.value
        elif isinstance(n, ast.AnnAssign) and isinstance(n.target, ast.Name) and n.value is not None:
            out[n.target.id] = n.value
    return out


def run(chk) -> None:
    repo = chk.repo
    cs, vs = repo.module(CS), repo.module(VS)
    funcs = {n.name: n for n in cs.tree.body if isinstance(n, FuncNode)}
    vfuncs = {n.name: n for n in vs.tree.body if isinstance(n, FuncNode)}
    nob = 0
    for item in eval_rules(funcs, module_consts(cs), vfuncs, module_consts(vs)):
        if item[0] == "info":
            chk.extra[item[1]] = item[2]
            if item[1] == "computed_strips":
                for t in item[2]:
                    chk.observe("strip-family call with a computed argument in a version converter: " + t)
            if item[1] == "undefined_cases" and item[2]:
                chk.observe(f"pairs that are greater although the three leading release components are equal (4th component or rc -> final) are classified {item[2]}; the statement does not define this case")
            continue
        _k, rule, inst, desc, ok, fn, reason = item
        nob += 1
        chk.ob(rule, desc, ok, m=cs if rule == "C34.R1" else vs, node=fn, fn=fn, instance=inst, reason=reason)
    chk.floor("C34.R1", "round-trip obligations (release lengths 1..4 + semver direction)", nob - 1, 5)
    chk.floor("C34.R1", "versions evaluated in the finite round trip", chk.extra.get("roundtrip_cases", 0), 2400)
    chk.floor("C34.R1", "evaluated pre-releases whose last release digit also occurs in the pre-release number (1.1b1, 7.0a0, 0.10rc10)", chk.extra.get("shared_digit_cases", 0), 600)
    chk.floor("C34.R1", "evaluated all-zero releases with pre-release number 0 (0.0.0a0, 0.0.0-a.0)", chk.extra.get("all_zero_cases", 0), 5)
    chk.floor("C34.R2", "ordered version pairs classified", chk.extra.get("classification_pairs", 0), 11000)
    chk.floor("C34.R2", "classified pairs in which two or three release components grow at once", chk.extra.get("multi_growth_pairs", 0), 1500)
    chk.exhaustive = True
    # planted fixtures
    def fixture(rel: str, r2: bool = True) -> list[tuple]:
        fpath = Path(__file__).resolve().parents[2] / rel
        if not fpath.is_file():
            raise AnchorError(f"fixture {rel} missing")
        tree = ast.parse(fpath.read_text())
        _set_parents(tree)
        ff = {n.name: n for n in tree.body if isinstance(n, FuncNode)}
        return [item for item in eval_rules(ff, _consts_of_tree(tree), ff, _consts_of_tree(tree), r2=r2) if item[0] == "ob" and not item[4]]

    bad: dict[str, int] = {}
    for item in fixture(FIXTURE):
        bad[item[1]] = bad.get(item[1], 0) + 1
    chk.floor("C34.R1", "planted defects reported in the fixture", bad.get("C34.R1", 0), 1)
    chk.floor("C34.R2", "planted defects reported in the fixture", bad.get("C34.R2", 0), 1)
    # strip family with a computed argument: the planted form must be reported by BOTH halves of R1 (the languages computed
    # with the character-set semantics leave the canonical form; the grid names concrete versions), for every release length and
    # the semver direction; the harmless form (character sets that cannot meet the receiver's ends) by nothing
    failed = fixture(FIXTURE_STRIP, r2=False)
    chk.floor("C34.R1", "planted `version.rstrip(match.group())`: obligations reported by the symbolic AND the finite half",
              sum(1 for it in failed if it[1] == "C34.R1" and "canonical" in it[6] and "finite round trip fails" in it[6] and "rstrip" in it[6]), 5)
    chk.floor("C34.R1", "harmless computed strips (`base.rstrip(label)`, `num.lstrip(label)`) evaluated and accepted", int(not fixture(FIXTURE_HARMLESS, r2=False)), 1)
    chk.observe("pep440_to_semver drops the epoch (1!1.2.3b1 -> 1.2.3-b.1): epochs are outside the stated quantifier")


_CH = "src/dev_cli/changesets.py"
_VE = "src/dev_cli/versioning.py"
_RX = '_SEMVER_PRERELEASE_RE = re.compile(r"^(\\d+(?:\\.\\d+)*)-([a-zA-Z]+)\\.(\\d+)$")'
_REL = "(\\d+(?:\\.\\d+)*)"
_JOIN = 'base = ".".join(str(x) for x in v.release)'
_MAJ = '    if current_release[0] > previous_release[0]:\n        return "major"\n'
_MIN = '    if current_release[1] > previous_release[1]:\n        return "minor"\n'
_P2S_BODY = '    v = Version(version)\n    base = ".".join(str(x) for x in v.release)\n    if v.pre is None:\n        return base\n\n    label, num = v.pre\n    return f"{base}-{label}.{num}"\n'
_S2P_BODY = ('    match = _SEMVER_PRERELEASE_RE.match(version)\n    if not match:\n        return version\n\n    base, label, num = match.groups()\n    if label not in _PEP440_LABELS:\n        raise ValueError(\n'
             '            f"Unsupported pre-release label \'{label}\' in version \'{version}\'. "\n            f"Use a PEP 440 label: {\', \'.join(sorted(_PEP440_LABELS))}"\n        )\n    return f"{base}{label}{num}"\n')
_DCT_HEAD = ('def detect_change_type(current_version: str, previous_version: str | None) -> str:\n    """Return the semantic change classification between two versions."""\n    if not previous_version:\n        return "major"\n\n'
             '    current = Version(current_version)\n    previous = Version(previous_version)\n\n    if current <= previous:\n        return "none"\n\n')
_DCT_REL = '    current_release = (current.release + (0, 0, 0))[:3]\n    previous_release = (previous.release + (0, 0, 0))[:3]\n\n'
_DCT_UNPACK = '    cur_major, cur_minor, cur_patch = _padded_release(current)\n    prev_major, prev_minor, prev_patch = _padded_release(previous)\n    current_release = (cur_major, cur_minor, cur_patch)\n    previous_release = (prev_major, prev_minor, prev_patch)\n\n'
_PAD_HELPER = 'def _padded_release(version: Version) -> tuple[int, ...]:\n    return (version.release + (0, 0, 0))[:3]\n\n\n'
_PAT = '    if current_release[2] > previous_release[2]:\n        return "patch"\n'
_LADDER = _MAJ + _MIN + _PAT + '    return "minor"\n'
_TABLE = '_COMPONENTS = ("major", "minor", "patch")\n\n\n'
_GROWN = '    grown = [\n        name\n        for name, cur, prev in zip(_COMPONENTS, current_release, previous_release)\n        if cur > prev\n    ]\n'
_RET = '    return f"{base}{label}{num}"\n'
_SUFFIX_RX = '_SEMVER_PRERELEASE_RE = re.compile(r"-([a-zA-Z]+)\\.(\\d+)$")'


def _suffix_only(strip_call: str) -> tuple[str, str]:
    """the reader matches only the `-<label>.<num>` suffix with .search and takes the base by `strip_call`"""
    from ..selftest import multi
    return multi(_CH, [(_RX, _SUFFIX_RX), ("_SEMVER_PRERELEASE_RE.match(version)", "_SEMVER_PRERELEASE_RE.search(version)"),
                       ("    base, label, num = match.groups()\n", "    label, num = match.groups()\n"), (_RET, f"    base = {strip_call}\n" + _RET)])


TWINS: list[Twin] = [
    # ---- R1: strip family with a computed argument (a character set, not a suffix / prefix)
    Twin("suffix-only regex with .search, base = version.rstrip(match.group()) (1.2.1-rc.1 -> 1.2rc1, 0.0.0-a.0 -> a0)", _CH, *_suffix_only("version.rstrip(match.group())"), "C34.R1"),
    Twin("the same with strip() and group(0)", _CH, *_suffix_only("version.strip(match.group(0))"), "C34.R1"),
    Twin("base stripped of the pre-release number's characters (1.2.1-rc.1 -> 1.2.rc1)", _CH, _RET, "    base = base.rstrip(num)\n" + _RET, "C34.R1"),
    Twin("number left-stripped of the base's characters (1.2.3-rc.1 -> 1.2.3rc)", _CH, _RET, "    num = num.lstrip(base)\n" + _RET, "C34.R1"),
    Twin("benign: computed strips whose character set cannot meet the receiver's ends", _CH, _RET, "    base = base.rstrip(label)\n    num = num.lstrip(label)\n" + _RET, None),
    Twin("benign: strip argument computed from constants", _CH, _RET, '    base = base.rstrip("-" + ".")\n' + _RET, None),
    Twin("benign: anchored regex applied with .search", _CH, "_SEMVER_PRERELEASE_RE.match(version)", "_SEMVER_PRERELEASE_RE.search(version)", None),
    Twin("benign: anchored regex applied with .fullmatch", _CH, "_SEMVER_PRERELEASE_RE.match(version)", "_SEMVER_PRERELEASE_RE.fullmatch(version)", None),
    # ---- R1 breaking
    Twin("regex wants two components", _CH, _RX, _RX.replace(_REL, "(\\d+\\.\\d+)"), "C34.R1"),
    Twin("regex rejects a leading zero component", _CH, _RX, _RX.replace(_REL, "([1-9]\\d*(?:\\.\\d+)*)"), "C34.R1"),
    Twin("writer omits the dot before the number", _CH, 'return f"{base}-{label}.{num}"', 'return f"{base}-{label}{num}"', "C34.R1"),
    Twin("reader emits a separator", _CH, 'return f"{base}{label}{num}"', 'return f"{base}.{label}{num}"', "C34.R1"),
    Twin("groups unpacked in the wrong order", _CH, "base, label, num = match.groups()", "base, num, label = match.groups()", "C34.R1"),
    Twin("label set lost rc", _CH, '_PEP440_LABELS = {"a", "b", "rc"}', '_PEP440_LABELS = {"a", "b", "c"}', "C34.R1"),
    Twin("reader pads the number", _CH, 'return f"{base}{label}{num}"', 'return f"{base}{label}0{num}"', "C34.R1"),
    Twin("base from major/minor/micro: release padded / truncated to three components", _CH, _JOIN, 'base = f"{v.major}.{v.minor}.{v.micro}"', "C34.R1"),
    Twin("base joined over (major, minor, micro)", _CH, _JOIN, 'base = ".".join(str(x) for x in (v.major, v.minor, v.micro))', "C34.R1"),
    Twin("release truncated to three components", _CH, _JOIN, 'base = ".".join(str(x) for x in v.release[:3])', "C34.R1"),
    Twin("base is major.minor only", _CH, _JOIN, 'base = f"{v.major}.{v.minor}"', "C34.R1"),
    Twin("reader regex accepts exactly three components", _CH, _RX, _RX.replace(_REL, "(\\d+\\.\\d+\\.\\d+)"), "C34.R1"),
    # ---- R1 benign
    Twin("benign: digit class spelled out", _CH, _RX, _RX.replace(_REL, "([0-9]+(?:\\.[0-9]+)*)"), None),
    Twin("benign: lowercase label class", _CH, _RX, _RX.replace("[a-zA-Z]+", "[a-z]+"), None),
    Twin("benign: group() accessors", _CH, "    base, label, num = match.groups()", "    base = match.group(1)\n    label = match.group(2)\n    num = match.group(3)", None),
    Twin("benign: concatenation", _CH, 'return f"{base}-{label}.{num}"', 'return base + "-" + label + "." + str(num)', None),
    Twin("benign: map(str, release)", _CH, '".".join(str(x) for x in v.release)', '".".join(map(str, v.release))', None),
    Twin("benign: truthiness of pre", _CH, "    if v.pre is None:\n        return base", "    if not v.pre:\n        return base", None),
    Twin("benign: base_version (epoch-free release string)", _CH, _JOIN, "base = v.base_version", None),
    Twin("benign: major used for the first component only", _CH, _JOIN, 'base = ".".join(str(x) for x in (v.major,) + v.release[1:])', None),
    # ---- R1: statement forms of the same converters (accumulator loop for the generator, inverted / early-return branches)
    Twin("benign: release joined from an accumulator loop, pre branch inverted", _CH, _P2S_BODY,
         '    parsed = Version(version)\n    release_parts: list[str] = []\n    for component in parsed.release:\n        release_parts.append(str(component))\n    base = ".".join(release_parts)\n\n    pre = parsed.pre\n    if pre is not None:\n        label, num = pre\n        return f"{base}-{label}.{num}"\n    return base\n', None),
    Twin("benign: accumulator filled with extend", _CH, _JOIN, 'parts: list[str] = []\n    parts.extend(str(x) for x in v.release)\n    base = ".".join(parts)', None),
    Twin("benign: reader with `is None`, positive label branch returns early, label list computed on the raising path", _CH, _S2P_BODY,
         '    prerelease_match = _SEMVER_PRERELEASE_RE.match(version)\n    if prerelease_match is None:\n        return version\n\n    base, label, num = prerelease_match.groups()\n    if label in _PEP440_LABELS:\n        return f"{base}{label}{num}"\n\n    supported_labels = ", ".join(sorted(_PEP440_LABELS))\n    raise ValueError(f"Unsupported pre-release label \'{label}\' in version \'{version}\'. Use a PEP 440 label: {supported_labels}")\n', None),
    Twin("accumulator loop walks a truncated release", _CH, _JOIN, 'parts: list[str] = []\n    for x in v.release[:3]:\n        parts.append(str(x))\n    base = ".".join(parts)', "C34.R1"),
    Twin("accumulator loop appends the component twice", _CH, _JOIN, 'parts: list[str] = []\n    for x in v.release:\n        parts.append(str(x))\n        parts.append(str(x))\n    base = ".".join(parts)', "C34.R1"),
    Twin("accumulator seeded with a leading element", _CH, _JOIN, 'parts: list[str] = ["0"]\n    for x in v.release:\n        parts.append(str(x))\n    base = ".".join(parts)', "C34.R1"),
    Twin("inverted pre branch keeps the old arms (final gets a suffix path, pre-release loses it)", _CH, "    if v.pre is None:\n        return base\n", "    if v.pre is not None:\n        return base\n", "C34.R1"),
    Twin("label guard inverted without swapping the arms", _CH, "    if label not in _PEP440_LABELS:\n", "    if label in _PEP440_LABELS:\n", "C34.R1"),
    # ---- R2 breaking
    Twin("padding helper pads too little for the 3-way unpacking", _VE, _DCT_HEAD + _DCT_REL,
         _PAD_HELPER.replace("(0, 0, 0)", "(0,)") + _DCT_HEAD + _DCT_UNPACK, "C34.R2"),
    Twin("reversed comparisons with the operands left in place", _VE, _MAJ, '    if current_release[0] < previous_release[0]:\n        return "major"\n', "C34.R2"),
    Twin("equal versions are a change", _VE, "    if current <= previous:", "    if current < previous:", "C34.R2"),
    Twin("minor test not strict", _VE, "current_release[1] > previous_release[1]", "current_release[1] >= previous_release[1]", "C34.R2"),
    Twin("short padding", _VE, "current_release = (current.release + (0, 0, 0))[:3]", "current_release = (current.release + (0,))[:3]", "C34.R2"),
    Twin("minor tested before major", _VE, _MAJ + _MIN, _MIN + _MAJ, "C34.R2"),
    Twin("ordering on the raw strings", _VE, "    if current <= previous:", "    if current_version <= previous_version:", "C34.R2"),
    # ---- R2: table-driven classifiers over a module-level constant (the constant is bound from its AST)
    Twin("grown components collected over a module constant, the LAST (least significant) one returned", _VE, _DCT_HEAD + _DCT_REL + _LADDER,
         _TABLE + _DCT_HEAD + _DCT_REL + _GROWN + '    return grown.pop() if grown else "minor"\n', "C34.R2"),
    Twin("loop over the table keeps overwriting the verdict: the last grown component wins", _VE, _DCT_HEAD + _DCT_REL + _LADDER,
         _TABLE + _DCT_HEAD + _DCT_REL + '    change = "minor"\n    for name, cur, prev in zip(_COMPONENTS, current_release, previous_release):\n        if cur > prev:\n            change = name\n    return change\n', "C34.R2"),
    Twin("table walked from the least significant end", _VE, _DCT_HEAD + _DCT_REL + _LADDER,
         _TABLE + _DCT_HEAD + _DCT_REL + '    for idx in (2, 1, 0):\n        if current_release[idx] > previous_release[idx]:\n            return _COMPONENTS[idx]\n    return "minor"\n', "C34.R2"),
    Twin("component chosen by the size of its growth", _VE, _DCT_HEAD + _DCT_REL + _LADDER,
         _TABLE + _DCT_HEAD + _DCT_REL + '    deltas = [cur - prev for cur, prev in zip(current_release, previous_release)]\n    if max(deltas) <= 0:\n        return "minor"\n    return _COMPONENTS[deltas.index(max(deltas))]\n', "C34.R2"),
    Twin("benign: grown components collected over a module constant, the first one returned", _VE, _DCT_HEAD + _DCT_REL + _LADDER,
         _TABLE + _DCT_HEAD + _DCT_REL + _GROWN + '    return grown[0] if grown else "minor"\n', None),
    Twin("benign: next() over the table", _VE, _DCT_HEAD + _DCT_REL + _LADDER,
         _TABLE + _DCT_HEAD + _DCT_REL + '    return next((name for name, cur, prev in zip(_COMPONENTS, current_release, previous_release) if cur > prev), "minor")\n', None),
    Twin("benign: loop over the table returns at the first grown component", _VE, _DCT_HEAD + _DCT_REL + _LADDER,
         _TABLE + _DCT_HEAD + _DCT_REL + '    for name, cur, prev in zip(_COMPONENTS, current_release, previous_release):\n        if cur > prev:\n            return name\n    return "minor"\n', None),
    # ---- R2 benign
    Twin("benign: padding extracted into a helper, components unpacked, comparisons reversed", _VE, _DCT_HEAD + _DCT_REL + _MAJ + _MIN,
         _PAD_HELPER + _DCT_HEAD.replace("if current <= previous:", "if not (current > previous):") + _DCT_UNPACK
         + '    if prev_major < cur_major:\n        return "major"\n    if prev_minor < cur_minor:\n        return "minor"\n', None),
    Twin("benign: negated greater", _VE, "    if current <= previous:", "    if not current > previous:", None),
    Twin("benign: reversed comparison", _VE, "current_release[0] > previous_release[0]", "previous_release[0] < current_release[0]", None),
    Twin("benign: elif chain", _VE, '        return "major"\n    if current_release[1]', '        return "major"\n    elif current_release[1]', None),
]
