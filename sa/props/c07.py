"""C07 — retry building blocks obey their algebra and bounds.

Decided: (R1) combinators — retry_any/retry_all/stop_any/stop_all `__call__` evaluated from their
AST over every boolean vector for 1..3 operands give OR/AND (exhaustive), forward their arguments,
and the dunder operators construct the right combinator with both operands; wait_combine returns
the sum and forwards (attempts, seed) unchanged, `+`/sum() build it; (R2) every built-in wait
strategy: a power whose exponent grows with the retry number cannot escape as OverflowError
(guarded or exponent clamped), and the returned delay flows through the upper clamp by the
documented max; (R3) determinism per seed: randomness only through random.Random(seed) chosen by
`seed is not None`, every draw through that generator, combinators and the policy forward seed,
and the reducer derives the seed only from (run_id, step, failures).
Also (R2) bounds on the floor/cap grid (floors below, at, above the cap): finite, never below max(0, min), at most max when min <= max;
the structural upper-clamp rule falls back on that evaluation for shapes it does not know (conditional expressions).
Not decided: numeric values of delays.
"""

from __future__ import annotations

import ast
import itertools

from ..absint import Interp, Raised, Record, Unsupported
from ..astx import dep_slice, atoms, call_name, expand, kwarg, last
from ..index import AnchorError, parent, walk_shallow
from ..selftest import Twin
from ._engine import CL, CL_REL

EXPLANATION = __doc__.split("\n\n", 1)[1]
TECHNIQUE = 'static analysis: exhaustive truth tables of combinators by AST evaluation, overflow-guard and upper-clamp structure, seed-determinism lint'
TRUSTED = ["CPython ast", "random.Random(seed) determinism", "float arithmetic"]
RP = "workflows.retry_policy"
RP_REL = "packages/llama-index-workflows/src/workflows/retry_policy.py"

DRAW_NAMES = ("uniform", "random", "randint", "gauss", "choice", "expovariate", "triangular", "randrange", "betavariate", "normalvariate")
COMBINATORS = {"retry_any": ("or", "retries"), "retry_all": ("and", "retries"), "stop_any": ("or", "stops"), "stop_all": ("and", "stops")}
DUNDERS = {
    "_RetryConditionBase": {"__and__": ("retry_all", False), "__rand__": ("retry_all", True), "__or__": ("retry_any", False), "__ror__": ("retry_any", True)},
    "_StopConditionBase": {"__and__": ("stop_all", False), "__rand__": ("stop_all", True), "__or__": ("stop_any", False), "__ror__": ("stop_any", True)},
}


def _init_field(mrp, cls: str) -> str:
    """attribute in which the combinator stores its *operands (from __init__)."""
    init = mrp.functions.get(f"{cls}.__init__")
    if init is None or init.args.vararg is None:
        raise AnchorError(f"C07.R1: {cls}.__init__(*operands) not found")
    va = init.args.vararg.arg
    for s in ast.walk(init):
        if isinstance(s, ast.Assign) and isinstance(s.targets[0], ast.Attribute) and ast.unparse(s.value) == va:
            return s.targets[0].attr
    raise AnchorError(f"C07.R1: {cls}.__init__ does not store its operands")


def _module_env(mrp) -> dict:
    env: dict = {}
    for q_, f_ in mrp.functions.items():
        if "." not in q_ and isinstance(f_, ast.FunctionDef):
            env[q_] = ("__fn__", f_, env)
    for c_ in list(COMBINATORS) + list(DUNDERS):
        env[c_] = Record("class", __name__=c_)
    # module-level numeric / string constants
    for st in mrp.tree.body:
        tg = st.targets[0] if isinstance(st, ast.Assign) and len(st.targets) == 1 else (st.target if isinstance(st, ast.AnnAssign) else None)
        if isinstance(tg, ast.Name) and isinstance(getattr(st, "value", None), ast.Constant):
            env[tg.id] = st.value.value
    return env


def _combinator_hooks(mrp, menv: dict) -> dict:
    """Constructors of the four combinators, realised by interpreting their own __init__ on a fresh record."""
    hooks: dict = {}

    def make(cls_):
        init = mrp.functions.get(f"{cls_}.__init__")
        if init is None or init.args.vararg is None:
            raise AnchorError(f"C07.R1: {cls_}.__init__(*operands) not found")

        def ctor(*ops, **kw):
            rec = Record(cls_)
            Interp(menv, hooks).call_function(init, {"self": rec, init.args.vararg.arg: tuple(ops), **kw})
            return rec
        return ctor

    for c_ in COMBINATORS:
        hooks[c_] = make(c_)
    hooks["getattr"] = lambda o_, n_, *d_: (o_.__dict__[n_] if isinstance(o_, Record) and n_ in o_.__dict__ else (d_[0] if d_ else (_ for _ in ()).throw(Raised("AttributeError", n_))))
    hooks["hasattr"] = lambda o_, n_: isinstance(o_, Record) and n_ in o_.__dict__
    hooks["isinstance"] = lambda o_, t_: isinstance(o_, Record) and (getattr(t_, "__name__", None) == o_._cls or (isinstance(t_, tuple) and any(getattr(x_, "__name__", None) == o_._cls for x_ in t_)))
    return hooks



def floor_cap_grid(mrp, genv, hooks0, _TD, floor_wins=()) -> dict[str, tuple[ast.AST, str, int]]:
    """{strategy class: (its __call__, first counter-example or "", evaluations)} for the wait strategies whose constructor takes
    a `max` (with `min`: floor below, at and above the cap): object built by interpreting __init__, __call__ evaluated for retry numbers 0..40, random draws pinned to
    either end of their interval (`floor_wins`: the classes clamping an exponential term, for which tenacity applies the floor last);
    also wait_incrementing-like strategies (`start`, `increment`, `max`) with a negative increment."""
    import math as _math
    out: dict[str, tuple[ast.AST, str, int]] = {}
    for cname, cdef in mrp.classes.items():
        init = mrp.functions.get(f"{cname}.__init__")
        callf = mrp.functions.get(f"{cname}.__call__")
        if init is None or callf is None:
            continue
        ip = [a.arg for a in init.args.posonlyargs + init.args.args + init.args.kwonlyargs][1:]
        if "max" not in ip:
            continue
        if len(callf.args.args) < 2 or callf.args.args[1].arg != "attempts":
            continue
        if "min" in ip:
            points = [{"min": lo, "max": hi} for lo, hi in ((0, 60.0), (5.0, 60.0), (2.0, 2.0), (1.5, 0.05), (3, 1))]
        elif {"start", "increment"} <= set(ip):
            points = [{"start": st, "increment": inc, "max": hi} for st, inc, hi in ((1.0, 2.0, 10.0), (5.0, -2.0, 10.0), (0.0, 100.0, 0.0), (20.0, 1.0, 10.0))]
        else:
            points = [{"max": hi} for hi in (60.0, 2.0, 0.05)]
        bad, n = "", 0
        try:
            for pt in points:
                for factor, base in ((0.01, 2.0), (1.0, 2.0), (1.0, 3)):
                    for end in (0, 1):
                        rng = Record("Rng")
                        rng.__dict__["uniform"] = lambda a_, b_, _e=end: (b_ if _e else a_)
                        rng.__dict__["random"] = lambda _e=end: (1.0 if _e else 0.0)
                        ghooks = dict(hooks0)
                        ghooks["random.Random"] = lambda *a_, **k_: rng
                        ghooks["random.uniform"] = rng.__dict__["uniform"]
                        ghooks["isinstance"] = lambda o_, t_: (t_ is _TD and False) or (isinstance(t_, type) and t_ is not _TD and isinstance(o_, t_))
                        rng.__dict__["Random"] = lambda *a_, _r=rng, **k_: _r
                        genv = {**genv, "random": rng}      # the module object itself used as the generator (`rng = random`)
                        kw = dict(pt)
                        for p_ in ip:
                            if p_ in ("multiplier", "initial"):
                                kw[p_] = factor
                            elif p_ == "exp_base":
                                kw[p_] = base
                            elif p_ == "jitter":
                                kw[p_] = 0.5
                        obj = Record(cname)
                        Interp(genv, ghooks).call_function(init, {"self": obj, **kw})
                        lo, hi = float(kw.get("min", 0.0)), float(kw["max"])
                        for k in (0, 1, 2, 3, 7, 12, 40):
                            n += 1
                            where = f"{cname}({', '.join(f'{a}={v!r}' for a, v in kw.items())})({k})"
                            try:
                                v = Interp(genv, ghooks).call_function(callf, {"self": obj, "attempts": k, "seed": 7})
                            except Raised as r:
                                bad = bad or f"{where} raises {r.name}"
                                continue
                            if not isinstance(v, (int, float)) or isinstance(v, bool) or _math.isnan(v) or _math.isinf(v):
                                bad = bad or f"{where} = {v!r}: not a finite delay"
                            elif lo > hi and cname not in floor_wins:
                                # a plain draw from an inverted interval documents nothing beyond the interval's two ends
                                if v < max(0.0, min(lo, hi)) - 1e-12 or v > max(lo, hi) + 1e-9:
                                    bad = bad or f"{where} = {v!r} lies outside both ends of its interval"
                            elif v < max(0.0, lo) - 1e-12:
                                bad = bad or (f"{where} = {v!r} is below the documented floor max(0, min) = {max(0.0, lo)!r}" +
                                              (" (floor above the cap: the floor is applied last and wins, as in tenacity)" if lo > hi else ""))
                            elif lo <= hi and v > hi + 1e-9:
                                bad = bad or f"{where} = {v!r} exceeds the cap max = {hi!r}"
        except Unsupported as e:
            raise AnchorError(f"C07.R2: cannot evaluate {cname} on the floor/cap grid: {e}")
        out[cname] = (callf, bad, n)
    return out

def run(chk) -> None:
    repo = chk.repo
    from ._engine import engine_view
    chk.extra["helpers_inlined"] = engine_view(repo)
    mrp = repo.module(RP)
    Interp.register_module_classes(mrp)
    cases = 0
    menv0 = _module_env(mrp)
    hooks0 = _combinator_hooks(mrp, menv0)
    # ---------------------------------------------------------------- R1 truth tables (exhaustive for 1..3 operands)
    for cls, (op, _f) in COMBINATORS.items():
        call = mrp.functions.get(f"{cls}.__call__")
        if call is None:
            raise AnchorError(f"C07.R1: {cls}.__call__ not found")
        bad = ""
        fam = [c_ for c_ in COMBINATORS if c_.split("_")[0] == cls.split("_")[0]]
        try:
            for n in (1, 2, 3):
                for vec in itertools.product([False, True], repeat=n):
                    seen = []

                    def mk(b):
                        def f(*a, **k):
                            seen.append((a, tuple(sorted(k.items()))))
                            return b
                        return f

                    selfr = hooks0[cls](*(mk(b) for b in vec))
                    if cls.startswith("retry"):
                        err = Record("Exception")
                        args = {"self": selfr, call.args.args[1].arg: err}
                        want_args = ((err,), ())
                    else:
                        args = {"self": selfr, "attempts": 3, "elapsed_time": 1.5, "upcoming_sleep": 0.25}
                        want_args = ((3, 1.5), (("upcoming_sleep", 0.25),))
                    got = Interp(menv0, hooks0).call_function(call, args)
                    cases += 1
                    want = any(vec) if op == "or" else all(vec)
                    if bool(got) != want:
                        bad = bad or f"{cls}{vec} evaluates to {got}, expected {want}"
                    if any(s != want_args for s in seen):
                        bad = bad or f"{cls} does not forward its arguments unchanged: {seen[:1]} vs {want_args}"
            # an operand that is itself a combinator (of either kind) keeps its own meaning: cls(x, inner(y, z))
            for inner in fam:
                iop = COMBINATORS[inner][0]
                for x_, y_, z_ in itertools.product([False, True], repeat=3):
                    leaf = lambda v_: (lambda *a, **k: v_)  # noqa: E731
                    obj = hooks0[cls](leaf(x_), hooks0[inner](leaf(y_), leaf(z_)))
                    cargs = ([Record("Exception")], {}) if cls.startswith("retry") else ([3, 1.5], {"upcoming_sleep": 0.25})
                    got = Interp(menv0, hooks0).apply(obj, *cargs)
                    cases += 1
                    iv = (y_ or z_) if iop == "or" else (y_ and z_)
                    want = (x_ or iv) if op == "or" else (x_ and iv)
                    if bool(got) != want:
                        bad = bad or f"{cls}(x={x_}, {inner}(y={y_}, z={z_})) evaluates to {bool(got)}, expected {want}: a nested {inner} lost its own and/or structure"
        except (Unsupported, Raised) as e:
            raise AnchorError(f"C07.R1: cannot evaluate {cls}.__call__: {e}")
        chk.ob("C07.R1", f"{cls} is the logical {op.upper()} of its operands for all boolean vectors of 1..3 operands, arguments forwarded", not bad, m=mrp, node=call, fn=call, instance=f"truth-table:{cls}", reason=bad)
    for base, table in DUNDERS.items():
        for dn, (target, swapped) in table.items():
            fn = mrp.functions.get(f"{base}.{dn}")
            if fn is None:
                chk.ob("C07.R1", f"{base}.{dn} exists", False, m=mrp, node=mrp.classes[base], instance=f"operator:{base}.{dn}", reason="operator missing")
                continue
            other = fn.args.args[1].arg
            # semantic: for a leaf, an OR-combinator and an AND-combinator as `self`, and a leaf as the other operand, the object
            # the operator builds evaluates to (self op other) on every boolean assignment of the leaves. (Flattening an
            # operand of the same kind is fine; unwrapping one of the other kind is not.)
            op = "and" if dn in ("__and__", "__rand__") else "or"
            fam = [c_ for c_ in COMBINATORS if c_.startswith(target.split("_")[0] + "_")]
            is_retry = target.startswith("retry")
            bad_ = ""
            n_eval = 0
            try:
                menv, hooks_ = menv0, hooks0
                for shape in ("leaf",) + tuple(fam):
                    nleaf = 1 if shape == "leaf" else 2
                    for bits in itertools.product([False, True], repeat=nleaf + 1):
                        leaves = [(lambda *a_, _v=v_, **k_: _v) for v_ in bits]
                        if shape == "leaf":
                            selfv, self_truth = leaves[0], bits[0]
                        else:
                            selfv = hooks0[shape](leaves[0], leaves[1])
                            self_truth = (bits[0] or bits[1]) if COMBINATORS[shape][0] == "or" else (bits[0] and bits[1])
                        other_truth = bits[-1]
                        built = Interp(menv, hooks_).call_function(fn, {"self": selfv, other: leaves[-1]})
                        if not (isinstance(built, Record) and built._cls in COMBINATORS):
                            bad_ = bad_ or f"with self = {shape}: the operator returns {built!r}, not a combinator"
                            continue
                        callargs = [Record("Exception")] if is_retry else [3, 1.5]
                        got_ = Interp(menv, hooks_).apply(built, callargs, {} if is_retry else {"upcoming_sleep": 0.25})
                        n_eval += 1
                        want_ = (self_truth and other_truth) if op == "and" else (self_truth or other_truth)
                        if bool(got_) != want_:
                            bad_ = bad_ or f"self = {shape}{tuple(bits[:nleaf])}, other = {other_truth}: the built {built._cls} evaluates to {bool(got_)}, `self {'&' if op == 'and' else '|'} other` is {want_}"
            except (Unsupported, Raised) as e_:
                raise AnchorError(f"C07.R1: cannot evaluate {base}.{dn}: {e_}")
            cases += n_eval
            chk.ob("C07.R1", f"{base}.{dn}: the object built for `self {'&' if op == 'and' else '|'} other` is the logical {op.upper()} of the two, for a leaf and for either kind of combinator as self", not bad_, m=mrp, node=fn, fn=fn,
                   instance=f"operator:{base}.{dn}", reason=bad_)
    # wait_combine
    wc = mrp.functions.get("wait_combine.__call__")
    if wc is None:
        raise AnchorError("C07.R1: wait_combine.__call__ not found")
    field = _init_field(mrp, "wait_combine")
    bad = ""
    try:
        for vec in ([1.5], [0.0, 2.0], [1.0, 2.0, 4.0]):
            seen = []

            def mk(v):
                def f(*a, **k):
                    seen.append((a, tuple(sorted(k.items()))))
                    return v
                return f

            got = Interp().call_function(wc, {"self": Record("wait_combine", **{field: tuple(mk(v) for v in vec)}), "attempts": 4, "seed": 77})
            cases += 1
            if got != sum(vec):
                bad = bad or f"wait_combine{vec} = {got}, expected {sum(vec)}"
            if any(s != ((4,), (("seed", 77),)) for s in seen):
                bad = bad or f"operands are not called with (attempts, seed=seed): {seen[:1]}"
    except (Unsupported, Raised) as e:
        raise AnchorError(f"C07.R1: cannot evaluate wait_combine.__call__: {e}")
    chk.ob("C07.R1", "wait_combine returns the sum of its parts and forwards (attempts, seed)", not bad, m=mrp, node=wc, fn=wc, instance="wait_combine:sum", reason=bad)
    add = mrp.functions.get("_WaitStrategyBase.__add__")
    radd = mrp.functions.get("_WaitStrategyBase.__radd__")
    ok = add is not None and any(isinstance(r.value, ast.Call) and last(call_name(r.value)) == "wait_combine" and [ast.unparse(a) for a in r.value.args] == ["self", add.args.args[1].arg] for r in ast.walk(add) if isinstance(r, ast.Return) and r.value is not None)
    chk.ob("C07.R1", "`a + b` builds wait_combine(a, b)", bool(ok), m=mrp, node=add or mrp.tree, fn=add, instance="operator:_WaitStrategyBase.__add__", reason="__add__ does not return wait_combine(self, other)")
    if radd is not None:
        try:
            r0 = Interp().call_function(radd, {"self": "SELF", radd.args.args[1].arg: 0})
        except (Unsupported, Raised) as e:
            r0 = f"<{e}>"
        chk.ob("C07.R1", "`0 + a` is `a` (sum() over strategies works)", r0 == "SELF", m=mrp, node=radd, fn=radd, instance="operator:_WaitStrategyBase.__radd__", reason=f"0 + a evaluates to {r0!r}")
    chk.extra["truth_table_cases"] = cases
    chk.exhaustive = True

    # ---------------------------------------------------------------- R2 overflow guard and upper clamp
    classes = [r.split(":")[1] for r in repo.subclasses(f"{RP}:_WaitStrategyBase") if r.startswith(RP + ":")]
    chk.floor("C07.R2", "wait strategy classes", len(classes), 8)
    pows = 0
    clamp_obs: list[tuple[str, ast.AST, bool]] = []
    evaluated_clean: set[str] = set()
    for cname in classes:
        call = mrp.functions.get(f"{cname}.__call__")
        if call is None:
            continue
        var = call.args.args[1].arg
        from .c06 import helper_calls
        from ..index import ancestors
        # power terms whose exponent grows with the retry number: in __call__ itself or in a module-level helper it calls
        sites = [(n, call, {var: ast.Name(id=var, ctx=ast.Load())}) for n in ast.walk(call) if isinstance(n, ast.BinOp) and isinstance(n.op, ast.Pow) and any(isinstance(x, ast.Name) and x.id == var for x in ast.walk(expand(n.right, n)))]
        for hc, h, mapping in helper_calls(mrp, call):
            grows = [p for p, a in mapping.items() if any(isinstance(x, ast.Name) and x.id == var for x in ast.walk(a))]
            for n in ast.walk(h):
                if isinstance(n, ast.BinOp) and isinstance(n.op, ast.Pow) and any(isinstance(x, ast.Name) and x.id in grows for x in ast.walk(expand(n.right, n))):
                    sites.append((n, h, mapping))
        for n, owner, mapping in sites:
                pows += 1
                guarded = False
                for a in ancestors(n):
                    if isinstance(a, ast.Try) and any(n is x for s in a.body for x in ast.walk(s)):
                        for h in a.handlers:
                            names = [] if h.type is None else [ast.unparse(e).split(".")[-1] for e in (h.type.elts if isinstance(h.type, ast.Tuple) else [h.type])]
                            if h.type is None or set(names) & {"OverflowError", "ArithmeticError", "Exception"}:
                                guarded = True
                ex = expand(n.right, n)
                clamped = isinstance(ex, ast.Call) and call_name(ex) == "min" and any(isinstance(a, ast.Constant) or "self." in ast.unparse(a) for a in ex.args)
                # confirm with one evaluation of the power at a large retry number (float parameters as the constructors produce)
                witness = ""
                try:
                    env = {var: 5000, "self": Record(cname, exp_base=2.0, multiplier=1.0, initial=1.0, max=60.0, min=0.0, jitter=1.0)}
                    if owner is not call:
                        env = {p: Interp().eval(a, env) for p, a in mapping.items()}
                    Interp().eval(n, env)
                except Raised as r:
                    witness = f"`{ast.unparse(n)}` raises {r.name} at {var}=5000"
                except Unsupported:
                    witness = ""
                ok = guarded or clamped or not witness
                chk.ob("C07.R2", f"{cname}: the exponential term cannot escape as OverflowError for large retry numbers", ok, m=mrp, node=n, fn=call, instance=f"overflow:{cname}",
                       reason=f"{witness}; the power is neither inside try/except OverflowError nor is its exponent clamped, so the strategy raises instead of returning its max")
        has_max = any(isinstance(s, ast.Attribute) and s.attr == "max" and isinstance(s.value, ast.Name) and s.value.id == "self" for s in ast.walk(mrp.classes[cname]))
        if has_max:
            rets = [r.value for r in ast.walk(call) if isinstance(r, ast.Return) and r.value is not None]
            allok = bool(rets) and all(_bounded_by_max(expand(r, r), mrp) for r in rets)
            clamp_obs.append((cname, call, allok))
    chk.floor("C07.R2", "exponential terms in wait strategies", pows, 3)
    # whole-object evaluation on a grid: the strategy is built by interpreting its own __init__ and called for small, large and
    # overflowing retry numbers, with float and int bases; random draws are pinned to either end of their interval
    import math as _math

    class _TD:  # stands for datetime.timedelta in isinstance tests
        pass

    menv0["timedelta"] = _TD
    genv = menv0
    GRID_K = [0, 1, 2, 5, 63, 64, 65, 66, 91, 100, 200, 1023, 1024, 1025, 5000]
    exp_classes = [c_ for c_ in classes if any(isinstance(x, ast.Call) and last(call_name(x)) == "_exp_term" for x in ast.walk(mrp.classes[c_])) or
                   any(isinstance(x, ast.BinOp) and isinstance(x.op, ast.Pow) for x in ast.walk(mrp.classes[c_]))]
    chk.floor("C07.R2", "exponential wait strategies evaluated on the grid", len(exp_classes), 3)
    for cname in exp_classes:
        init = mrp.functions.get(f"{cname}.__init__")
        callf = mrp.functions.get(f"{cname}.__call__")
        if init is None or callf is None:
            continue
        ip = [a.arg for a in init.args.posonlyargs + init.args.args + init.args.kwonlyargs][1:]
        randomised = any(isinstance(x, ast.Attribute) and x.attr in DRAW_NAMES for x in ast.walk(callf)) or any(
            isinstance(x, ast.Call) and isinstance(x.func, ast.Name) and x.func.id in mrp.functions and any(isinstance(y, ast.Attribute) and y.attr in DRAW_NAMES for y in ast.walk(mrp.functions[x.func.id])) for x in ast.walk(callf))
        bad_g, n_g = "", 0
        try:
            for factor, base, hi in itertools.product((0.01, 1.0), (1.1, 2, 2.0, 3.0), (60.0,)):
                for end in ((1,) if not randomised else (0, 1)):
                    rng = Record("Rng")
                    rng.__dict__["uniform"] = lambda a_, b_, _e=end: (b_ if _e else a_)
                    rng.__dict__["random"] = lambda _e=end: (1.0 if _e else 0.0)
                    ghooks = dict(hooks0)
                    ghooks["random.Random"] = lambda *a_, **k_: rng
                    ghooks["random.uniform"] = rng.__dict__["uniform"]
                    ghooks["isinstance"] = lambda o_, t_: (t_ is _TD and False) or (isinstance(t_, type) and t_ is not _TD and isinstance(o_, t_))
                    kw = {}
                    for p_ in ip:
                        if p_ in ("multiplier", "initial"):
                            kw[p_] = factor
                        elif p_ == "exp_base":
                            kw[p_] = base
                        elif p_ == "max":
                            kw[p_] = hi
                        elif p_ == "min":
                            kw[p_] = 0
                        elif p_ == "jitter":
                            kw[p_] = 0.5
                    obj = Record(cname)
                    Interp(genv, ghooks).call_function(init, {"self": obj, **kw})
                    prev = None
                    for k in GRID_K:
                        n_g += 1
                        where = f"{cname}({', '.join(f'{a}={v!r}' for a, v in kw.items())})({k})"
                        try:
                            v = Interp(genv, ghooks).call_function(callf, {"self": obj, "attempts": k, "seed": 7})
                        except Raised as r:
                            bad_g = bad_g or f"{where} raises {r.name}"
                            continue
                        if not isinstance(v, (int, float)) or isinstance(v, bool) or _math.isnan(v) or _math.isinf(v) or v < 0 or v > hi + 1e-9:
                            bad_g = bad_g or f"{where} = {v!r}: not a finite delay in [0, {hi}]"
                            continue
                        if not randomised:
                            try:
                                ref = float(factor) * float(base) ** k
                            except OverflowError:
                                ref = _math.inf
                            ref = max(0.0, min(ref, hi))
                            if abs(v - ref) > 1e-9 * max(1.0, ref):
                                bad_g = bad_g or f"{where} = {v!r}, the documented delay is min(max, {factor} * {base}**{k}) = {ref!r}"
                        if prev is not None and v + 1e-12 < prev:
                            bad_g = bad_g or f"{where} = {v!r} is smaller than the delay for the previous retry number ({prev!r})"
                        prev = v
        except Unsupported as e:
            raise AnchorError(f"C07.R2: cannot evaluate {cname} on the grid: {e}")
        cases += n_g
        chk.ob("C07.R2", f"{cname}: for float and int bases and retry numbers 0..5000 the delay is finite, within [0, max], non-decreasing" + ("" if randomised else ", and equals min(max, multiplier * exp_base**k)"),
               not bad_g, m=mrp, node=callf, fn=callf, instance=f"grid:{cname}", reason=bad_g)

    # floor / cap precedence on a parameter grid: every strategy that has a floor (`min`) and a cap (`max`) is built by its own
    # __init__ and evaluated with the floor below, equal to and *above* the cap (tenacity: the floor is applied last and wins)
    fc = floor_cap_grid(mrp, genv, hooks0, _TD, floor_wins=set(exp_classes))
    chk.floor("C07.R2", "wait strategies with a floor and a cap evaluated on the floor/cap grid", len(fc), 2)
    for cname, (callf, bad_fc, n_fc) in sorted(fc.items()):
        cases += n_fc
        chk.ob("C07.R2", f"{cname}: for floors below, at and above the cap the delay is finite, never below max(0, min), and at most max whenever min <= max",
               not bad_fc, m=mrp, node=callf, fn=callf, instance=f"bounds:{cname}", reason=bad_fc)
        if not bad_fc:
            evaluated_clean.add(cname)
    # the cap: decided structurally (the returned expression passes through min(…, self.max)); a shape the structural rule does not
    # know (conditional expression, comparison chain) is decided by the grid evaluation of that strategy instead
    for cname, call, allok in clamp_obs:
        chk.ob("C07.R2", f"{cname}: every returned delay is capped by self.max (structurally, or on the whole floor/cap grid)", allok or cname in evaluated_clean, m=mrp, node=call, fn=call, instance=f"upper-clamp:{cname}",
               reason="a returned expression is not bounded above by self.max (min(…, self.max) / uniform(…, clamped)) and the grid evaluation does not confirm the cap either")
    # ---------------------------------------------------------------- R3 determinism per seed
    DRAW = ("uniform", "random", "randint", "gauss", "choice", "expovariate", "triangular", "randrange", "betavariate", "normalvariate")
    from ..index import enclosing_function as _encl, qualname_of as _qn
    draw_fns: dict[int, tuple] = {}
    for qn, f in mrp.functions.items():
        for n in ast.walk(f):
            if isinstance(n, ast.Call) and isinstance(n.func, ast.Attribute) and n.func.attr in DRAW and _encl(n) is f:
                draw_fns.setdefault(id(f), (qn, f, []))[2].append(n)
    reaching = set()  # strategy classes whose __call__ reaches a draw
    for qn, f, draws in draw_fns.values():
        params = [a.arg for a in f.args.posonlyargs + f.args.args + f.args.kwonlyargs]
        for n in draws:
            d = expand(n.func.value, n, depth=1)
            seed_name = None
            ok = False
            def _seeded(x: ast.AST) -> str | None:
                return x.args[0].id if isinstance(x, ast.Call) and call_name(x) == "random.Random" and len(x.args) == 1 and isinstance(x.args[0], ast.Name) else None
            if isinstance(d, ast.IfExp):
                # either arm may be the seeded generator; it must be the arm taken exactly when `seed is not None`
                for arm, pol in ((d.body, True), (d.orelse, False)):
                    if _seeded(arm) is not None:
                        seed_name = _seeded(arm)
                        ok = set(atoms(d.test, pol)) == {(f"None is {seed_name}", False)} and seed_name in params
            elif _seeded(d) is not None:
                seed_name = _seeded(d)
                ok = seed_name in params  # Random(None) seeds itself from the OS: still one generator per given seed
            chk.ob("C07.R3", f"{qn}: the random draw uses random.Random(seed) whenever a seed is given (`seed is not None`, so seed 0 counts)", ok, m=mrp, node=n, fn=f, instance=f"seeded-draw:{qn}",
                   reason=f"draw receiver is `{ast.unparse(d)}`")
        owner = qn.split(".")[0]
        if qn.endswith(".__call__"):
            reaching.add(owner)
        else:
            # a module-level helper: every caller must hand its own seed parameter through
            hname = qn.split(".")[-1]
            seed_params = [p_ for p_ in params if "seed" in p_]
            for cq, cf in mrp.functions.items():
                for c in ast.walk(cf):
                    if isinstance(c, ast.Call) and isinstance(c.func, ast.Name) and c.func.id == hname and _encl(c) is cf:
                        cparams = [a.arg for a in cf.args.posonlyargs + cf.args.args + cf.args.kwonlyargs]
                        passed = None
                        for sp in seed_params:
                            idx = params.index(sp)
                            passed = kwarg(c, sp, idx)
                        okc = passed is not None and isinstance(passed, ast.Name) and passed.id in cparams and "seed" in passed.id
                        chk.ob("C07.R3", f"{cq} passes its seed to the drawing helper {hname}", bool(okc), m=mrp, node=c, fn=cf, instance=f"seed-to-helper:{cq}",
                               reason=f"seed argument is `{ast.unparse(passed) if passed is not None else None}`")
                        if cq.endswith(".__call__"):
                            reaching.add(cq.split(".")[0])
    draws = len(reaching)
    for cname in classes:
        call = mrp.functions.get(f"{cname}.__call__")
        if call is None:
            continue
        for n in ast.walk(call):
            if isinstance(n, ast.Call) and n.args and ("strateg" in ast.unparse(n.func)):
                sk = kwarg(n, "seed")
                chk.ob("C07.R3", f"{cname} forwards seed to the inner strategy", sk is not None and ast.unparse(sk) == "seed", m=mrp, node=n, fn=call, instance=f"forwards-seed:{cname}",
                       reason=f"seed={ast.unparse(sk) if sk is not None else None}")
    chk.floor("C07.R3", "wait strategies that reach a random draw", draws, 3)
    direct = [n for qn, f in mrp.functions.items() for n in ast.walk(f) if isinstance(n, ast.Call) and (call_name(n) or "").startswith("random.") and call_name(n) != "random.Random"]
    chk.ob("C07.R3", "no draw goes straight to the module-level random generator", not direct, m=mrp, node=direct[0] if direct else mrp.tree, instance="no-global-draw", reason=f"`{ast.unparse(direct[0])[:50]}`" if direct else "")
    nxt = mrp.functions.get("_ComposableRetryPolicy.next")
    w = [c for c in ast.walk(nxt) if isinstance(c, ast.Call) and ast.unparse(c.func) == "self.wait"] if nxt is not None else []
    if not w:
        raise AnchorError("C07.R3: _ComposableRetryPolicy.next → self.wait not found")
    sk = kwarg(w[0], "seed")
    chk.ob("C07.R3", "_ComposableRetryPolicy.next forwards seed to the wait strategy", sk is not None and ast.unparse(sk) == "seed", m=mrp, node=w[0], fn=nxt, instance="forwards-seed:policy", reason=f"seed={ast.unparse(sk) if sk is not None else None}")
    ms, sr = repo.func(f"{CL}:_process_step_result_tick")
    passes = [c for c in ast.walk(sr) if isinstance(c, ast.Call) and isinstance(c.func, ast.Attribute) and c.func.attr == "next"]
    chk.floor("C07.R3", "retry-policy next() calls in the reducer", len(passes), 1)
    seed_exprs: list[tuple[ast.Call, ast.AST]] = []
    for c in passes:
        star = [k for k in c.keywords if k.arg is None]
        direct = kwarg(c, "seed")
        ok = direct is not None
        if direct is not None:
            seed_exprs.append((c, direct))
        if star:
            d = expand(star[0].value, c, depth=1)
            ok = isinstance(d, ast.IfExp) and "seed" in ast.unparse(d.test) and isinstance(d.body, ast.Dict) and any(isinstance(k, ast.Constant) and k.value == "seed" for k in d.body.keys)
            if ok:
                seed_exprs += [(c, v) for k, v in zip(d.body.keys, d.body.values) if isinstance(k, ast.Constant) and k.value == "seed"]
        chk.ob("C07.R3", "the reducer hands the seed to every policy that accepts one", ok, m=ms, node=c, fn=sr, instance="seed:passed", reason="retries.next is called without the seed")
    # what the handed-over seed may depend on (dependence slice through the reducer's locals, whatever the path)
    hashed = 0
    for c, e in seed_exprs:
        sl = dep_slice(sr, e, stop=("run_id", "failures"))
        calls = [call_name(x) or ast.unparse(x.func) for x in sl.calls()]
        if any("sha" in n or "md5" in n or "blake" in n for n in calls):
            hashed += 1
        impure = [n for n in calls if n.split(".")[0] in ("time", "random", "uuid", "os", "secrets", "id") or n in ("id", "hash")]
        attrs = sl.attrs()
        ok = not impure and {"run_id", "failures"} <= sl.leaves and any(a.endswith(".step_name") for a in attrs) and not (sl.leaves - {"run_id", "failures", "tick", "hashlib", "int", "str", "None"})
        chk.ob("C07.R3", "the jitter seed is a pure function of (run_id, step name, failure count)", ok, m=ms, node=c, fn=sr, instance="seed:derivation",
               reason=f"the seed handed to the policy depends on {sorted(sl.leaves)} via calls {sorted(set(calls))}")
    chk.floor("C07.R3", "jitter seed derivations in the reducer", hashed, 1)


def _bounded_by_max(e: ast.AST, mod=None, _depth: int = 2) -> bool:
    """Is the value of e bounded above by self.max (structurally)?  Module-level helpers are followed with their
    parameters substituted by the call's arguments."""
    rec = lambda x: _bounded_by_max(x, mod, _depth)  # noqa: E731
    if isinstance(e, ast.Call):
        n = call_name(e) or ""
        if n == "min":
            return any(ast.unparse(a) == "self.max" or rec(a) for a in e.args)
        if n == "max":
            # max(floor, x): bounded when every operand is either a documented floor (constants / self.min) or itself bounded
            def floor(a):
                return all(isinstance(x, (ast.Constant, ast.Load, ast.Call, ast.Name, ast.Attribute)) for x in ast.walk(a)) and \
                    all(ast.unparse(x) in ("self.min", "self") or isinstance(x, (ast.Constant, ast.Load)) or (isinstance(x, ast.Call) and call_name(x) == "max") or (isinstance(x, ast.Name) and x.id in ("max", "self")) for x in ast.walk(a))
            return all(floor(a) or rec(a) for a in e.args) and any(rec(a) for a in e.args)
        if last(n) == "uniform" and len(e.args) == 2:
            return ast.unparse(e.args[1]) == "self.max" or rec(e.args[1])
        if n == "float" and e.args:
            return rec(e.args[0])
        if mod is not None and _depth > 0 and isinstance(e.func, ast.Name) and e.func.id in mod.functions:
            from .c06 import _subst
            h = mod.functions[e.func.id]
            params = [a.arg for a in h.args.posonlyargs + h.args.args]
            mapping = {p_: a for p_, a in zip(params, e.args)}
            for k in e.keywords:
                if k.arg:
                    mapping[k.arg] = k.value
            rets = [r.value for r in ast.walk(h) if isinstance(r, ast.Return) and r.value is not None]
            return bool(rets) and all(_bounded_by_max(_subst(expand(r, r), mapping), mod, _depth - 1) for r in rets)
    if isinstance(e, ast.Attribute) and ast.unparse(e) == "self.max":
        return True
    return False


TWINS = [
    Twin("operators unwrap a combinator of either kind", "packages/llama-index-workflows/src/workflows/retry_policy.py", "    def __or__(self, other: RetryCondition) -> retry_any:\n        return retry_any(self, other)", "    def __or__(self, other: RetryCondition) -> retry_any:\n        return retry_any(*getattr(self, \"retries\", (self,)), other)", "C07.R1"),
    Twin("benign: operands through a splatted tuple", "packages/llama-index-workflows/src/workflows/retry_policy.py", "    def __or__(self, other: RetryCondition) -> retry_any:\n        return retry_any(self, other)", "    def __or__(self, other: RetryCondition) -> retry_any:\n        conditions = (self, other)\n        return retry_any(*conditions)", None),
    Twin("benign: same-kind operands are flattened", "packages/llama-index-workflows/src/workflows/retry_policy.py", "    def __or__(self, other: RetryCondition) -> retry_any:\n        return retry_any(self, other)", "    def __or__(self, other: RetryCondition) -> retry_any:\n        return retry_any(*(self.retries if isinstance(self, retry_any) else (self,)), other)", None),
    Twin("retry_any is all", RP_REL, "        return any(retry(error) for retry in self.retries)", "        return all(retry(error) for retry in self.retries)", "C07.R1"),
    Twin("stop_all ignores last", RP_REL, "        return all(\n            stop(attempts, elapsed_time, upcoming_sleep=upcoming_sleep)\n            for stop in self.stops\n        )", "        return all(\n            stop(attempts, elapsed_time, upcoming_sleep=upcoming_sleep)\n            for stop in self.stops[:-1]\n        )", "C07.R1"),
    Twin("stop_any drops upcoming sleep", RP_REL, "        return any(\n            stop(attempts, elapsed_time, upcoming_sleep=upcoming_sleep)", "        return any(\n            stop(attempts, elapsed_time)", "C07.R1"),
    Twin("and builds any", RP_REL, "    def __and__(self, other: StopCondition) -> stop_all:\n        return stop_all(self, other)", "    def __and__(self, other: StopCondition) -> stop_all:\n        return stop_any(self, other)", "C07.R1"),
    Twin("combine takes max", RP_REL, "        return sum(strategy(attempts, seed=seed) for strategy in self.strategies)", "        return max(strategy(attempts, seed=seed) for strategy in self.strategies)", "C07.R1"),
    Twin("combine loses seed", RP_REL, "        return sum(strategy(attempts, seed=seed) for strategy in self.strategies)", "        return sum(strategy(attempts) for strategy in self.strategies)", "C07.R1"),
    Twin("overflow guard catches the wrong error", RP_REL, "    except OverflowError:\n        return float(\"inf\")", "    except ZeroDivisionError:\n        return float(\"inf\")", "C07.R2"),
    Twin("exponential inlined without guard", RP_REL, "            min(_exp_term(self.multiplier, self.exp_base, attempts), self.max),\n        )\n\n\nclass wait_incrementing", "            min(self.multiplier * self.exp_base**attempts, self.max),\n        )\n\n\nclass wait_incrementing", "C07.R2"),
    Twin("benign: exponent clamped instead of guarded", RP_REL, "        return factor * exp_base**attempts\n    except OverflowError:", "        return factor * exp_base ** min(attempts, 1000)\n    except OverflowError:", None),
    Twin("incrementing unclamped", RP_REL, "        return max(0.0, min(result, self.max))", "        return max(0.0, result)", "C07.R2"),
    Twin("jitter exceeds max", RP_REL, "        return min(base + rng.uniform(0, self.jitter), self.max)", "        return base + rng.uniform(0, self.jitter)", "C07.R2"),
    Twin("seed zero treated as no seed", RP_REL, "        rng = random.Random(seed) if seed is not None else random\n        return rng.uniform(self.min, self.max)", "        rng = random.Random(seed) if seed else random\n        return rng.uniform(self.min, self.max)", "C07.R3"),
    Twin("benign: draw helper with is-not-None", RP_REL, "        rng = random.Random(seed) if seed is not None else random\n        return rng.uniform(self.min, self.max)\n", "        return _uniform(self.min, self.max, seed)\n\n\ndef _uniform(low: float, high: float, seed: int | None) -> float:\n    rng = random.Random(seed) if seed is not None else random\n    return rng.uniform(low, high)\n\n\nclass _unused_marker:\n    pass\n", None),
    Twin("unseeded draw", RP_REL, "        rng = random.Random(seed) if seed is not None else random\n        return rng.uniform(self.min, self.max)", "        rng = random\n        return rng.uniform(self.min, self.max)", "C07.R3"),
    Twin("seed depends on time", CL_REL, 'f"{run_id}:{tick.step_name}:{failures}".encode()', 'f"{run_id}:{tick.step_name}:{failures}:{time.time()}".encode()', "C07.R3"),
    Twin("chain drops seed", RP_REL, "        return self.strategies[idx](attempts, seed=seed)", "        return self.strategies[idx](attempts)", "C07.R3"),
    Twin("benign: any as loop", RP_REL, "        return any(retry(error) for retry in self.retries)", "        for r in self.retries:\n            if r(error):\n                return True\n        return False", None),
    Twin("benign: sum as loop", RP_REL, "        return sum(strategy(attempts, seed=seed) for strategy in self.strategies)", "        total = 0.0\n        for strategy in self.strategies:\n            total += strategy(attempts, seed=seed)\n        return total", None),
    Twin("benign: clamp via local", RP_REL, "        return max(0.0, min(result, self.max))", "        capped = min(result, self.max)\n        return max(0.0, capped)", None),
]

_WE_OLD = """        return max(
            max(0.0, self.min),
            min(_exp_term(self.multiplier, self.exp_base, attempts), self.max),
        )
"""
TWINS += [
    Twin("wait_exponential: cap applied last, so a floor above the cap is ignored", "packages/llama-index-workflows/src/workflows/retry_policy.py", _WE_OLD,
         "        return min(max(_exp_term(self.multiplier, self.exp_base, attempts), max(0.0, self.min)), self.max)\n", "C07.R2"),
    Twin("benign: wait_exponential clamp written with locals and a conditional", "packages/llama-index-workflows/src/workflows/retry_policy.py", _WE_OLD,
         "        capped = min(_exp_term(self.multiplier, self.exp_base, attempts), self.max)\n        floor = max(0.0, self.min)\n        return floor if floor > capped else capped\n", None),
]
